#!/bin/bash
# seedtool.sh <seed-id> <property> [check args...]: confirm a seeded change (tests pass with it; demo fails with / passes without),
# run the property's check against the mutated tree (VERIF_REPO=worktree), store under /verif/seeded/<seed-id>/
set -u
ID=$1; PROP=$2; shift 2
WT=/tmp/seed_$ID
OUT=/verif/seeded/$ID
mkdir -p $OUT
cd $WT || exit 2
git diff -- Include > $OUT/patch.diff
[ -s $OUT/patch.diff ] || { echo "empty patch"; exit 2; }
cp SEED/demo.cpp $OUT/demo.cpp 2>/dev/null
cp SEED/README.md $OUT/README.seed.md 2>/dev/null
# tests with the change
B=$(mktemp -d /tmp/sb.XXXXXX)
cmake -G Ninja -S $WT -B $B >/dev/null 2>&1 && cmake --build $B -j 8 >/dev/null 2>&1 && ctest --test-dir $B -j8 2>&1 | grep -q "100% tests passed" && TESTS=pass || TESTS=FAIL
rm -rf $B
# demo with / without
clang++-14 -std=c++17 -fno-exceptions -O1 -g -fsanitize=address,undefined -I$WT/Include SEED/demo.cpp -o /tmp/demo_$ID 2>/dev/null
ASAN_OPTIONS=detect_leaks=0 timeout 300 /tmp/demo_$ID >/dev/null 2>&1; RC_WITH=$?
git stash -q
clang++-14 -std=c++17 -fno-exceptions -O1 -g -fsanitize=address,undefined -I$WT/Include SEED/demo.cpp -o /tmp/demo_$ID 2>/dev/null
ASAN_OPTIONS=detect_leaks=0 timeout 300 /tmp/demo_$ID >/dev/null 2>&1; RC_WITHOUT=$?
git stash pop -q
rm -f /tmp/demo_$ID
echo "seed $ID: tests_with_change=$TESTS demo_rc_with=$RC_WITH demo_rc_without=$RC_WITHOUT"
cd /verif
T0=$(date +%s)
VERIF_REPO=$WT ./check $PROP "$@" > $OUT/check.log 2>&1; RC=$?
T1=$(date +%s)
grep -c "^VIOLATION" $OUT/check.log | xargs echo "check rc=$RC violations:"
grep "^VIOLATION" -A1 $OUT/check.log | head -6 | cut -c1-300
tail -1 $OUT/check.log
python3 - <<PY
import json
json.dump({"seed": "$ID", "property": "$PROP", "tests_pass_with_change": "$TESTS" == "pass", "demo_exit_with_change": $RC_WITH, "demo_exit_without_change": $RC_WITHOUT,
 "check_cmd": "VERIF_REPO=<worktree with patch> ./check $PROP $*", "check_exit": $RC, "check_seconds": $T1-$T0,
 "detected": $RC == 1}, open("$OUT/meta.json", "w"), indent=1)
PY

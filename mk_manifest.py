#!/usr/bin/env python3
"""Regenerates MANIFEST.json from the table below (claims) — run after adding/removing a spec."""
import json, os
ROOT = os.path.dirname(os.path.abspath(__file__))
TECH = 'bounded symbolic execution of the real headers: clang-14 IR -> C (ll2c) -> CBMC 6.11 (SAT/SMT), per-loop unwinding assertions, native ASan/UBSan replay of counterexamples'
CLAIMS = {
 'C15': dict(text='Bounded model checking of the real comparison functions: for every pair/triple of strings up to the stated length and every code-unit value the solver shows agreement with the lexicographic reference order (hence trichotomy, unions, transitivity).',
             note='Bounded: strings <= 4 (quick) / 5 (thorough) units; clang -O1 lowering; ll2c translation (self-checked every run).', ref='6/C15'),
}
CLAIMS['C20'] = dict(text='Finite domain covered completely by symbolic variables: every Unicode scalar value through the real encoder, every 4-hex-digit group in both cases, and every \\uXXXX / surrogate-pair escape (with optional neighbours) through the real un-escaper, compared with a reference encoder, for UTF-8/16/32.',
             note='FixedStream stand-in for the stream parameter; clang -O1 lowering; ll2c translation (self-checked every run).', ref='6/C20')
CLAIMS['C05'] = dict(text='Modular bounded model checking of the real parser functions: each of Parse/parseValue/parseObject/parseArray/UnEscape/stringToNumber alone over an exact-size, fully symbolic buffer of every length up to N from an arbitrary cursor, callees under assume-guarantee contracts (precondition asserted at each call site, progress postcondition asserted at each exit); by induction over call depth this gives memory safety and termination at every nesting depth for buffers up to N. Counterexamples are lifted to JSON::Parse on an exact-size heap buffer under ASan.',
             note='Bounded: N = 5 (quick) / 8 (thorough) units, 3 widths. Heap-free Value/String stand-ins in cursor harnesses; power-of-ten kernels havoc. The 512-nesting-levels stack clause is not addressed (resource property). clang -O1 lowering.', ref='6/C05')
CLAIMS['C07'] = dict(text='Modular functional verification of each grammar production of the real parser: for fully symbolic buffers up to N units and an arbitrary cursor, with callees under logging assume-guarantee contracts, the solver shows that Parse/parseValue/parseObject/parseArray return a defined value IF AND ONLY IF the text matches the RFC 8259 production (oracle recomputed from buffer and callee log), end exactly at the end of the match, and report the failure sentinel otherwise. By induction over nesting depth this is all-or-nothing parsing for every text up to N units (prefixes, trailing units, flipped or missing brackets included).',
             note='Bounded: N = 4 (quick) / 6 (thorough). Relative to the string/number token recognisers (C20, C09). Heap-free stand-ins for Value/containers/String. Prefix-freeness of the container grammar is a grammar fact used to relate the iff to the prefix clause.', ref='6/C07')
CLAIMS['C06'] = dict(text='Compositional bounded model checking: structure - each production of the real parser accepts exactly its RFC 8259 production over fully symbolic buffers up to N units and builds the members in order with their keys and pass-through scalar payloads (completeness + tree shape; modular over nesting); strings - every \\uXXXX escape and surrogate pair through the real un-escaper for UTF-8/16/32 (finite domain, complete).',
             note='Numbers are delegated to C09; duplicate-key replacement to C13 (real HArray). Structure queries use recording stand-ins for Value/containers (the real container-kind Value is beyond reach of CBMC on this image). N = 4 (quick) / 6 (thorough).', ref='6/C06')
CLAIMS['C01'] = dict(text='Bounded model checking of the template tag matcher (one Finder::Next step from an arbitrary cursor, with its progress/position contract) and of the attribute scanners (parseIfCase, parseLoopAttributes, checkLoopVariable) alone over exact-size fully symbolic buffers under the caller contract: every read inside the buffer, slices recorded in tag records inside the buffer, termination within the bound. The expression scanners are covered under C04.',
             note='PARTIAL: the scanner driver TemplateCore::parse and the renderer over symbolic template text are out of reach of the bounded model checker on this image (one symbolic template byte or a symbolic truncation length: no verdict in 300 s) and are NOT covered; bounds N = 6 (quick) / 9 (thorough).', ref='6/C01')
CLAIMS['C03'] = dict(text='Bounded model checking of the real HTML escaper over every string up to N units and every code-unit value (3 widths): the emitted unit sequence is in (plain | &amp; | &lt; | &gt; | &quot; | &apos;)* (no raw specials, & only as an entity start), decode(out) == decode(in) in lockstep with a reference decoder, every word of that language is a fixed point (idempotence), output length within [L, 6L], reads inside the buffer, destination prefix preserved.',
             note='PARTIAL: string level only. The routing clauses ({var:}/{raw:}/{svar:}/loop key/fallback echo go through the escaper; auto-escape off) need the template renderer, which is out of reach of the model checker here (see C01). N = 6 (quick) / 8 (thorough). Observer-stream and FixedStream stand-ins for the stream parameter.', ref='6/C03')
CLAIMS['C08'] = dict(text='Bounded model checking of the real JSON string escaper and un-escaper: for every string up to N units (3 widths) the escaped text contains no raw unit below 0x20, no unescaped quote and only valid escapes, and UnEscape(Escape(s)) reproduces s; plus (when present) Stringify of scalar / string / array roots of the real Value against the document model.',
             note='PARTIAL: object-kind trees and whole-tree Stringify->Parse composition are not covered (real HArray<String,Value> is beyond reach of CBMC here); number digits are delegated to C10/C09. N = 4 (quick) / 6 (thorough).', ref='6/C08')
CLAIMS['C14'] = dict(text='One inductive step per operation on pre-states built through the public API with concrete capacity and symbolic size/contents/arguments, including aliasing arguments: every public operation of Array<int>, Array<Tracked>, String, StringStream, StringView (3 widths) agrees with a plain sequence model (contents, length, terminator, no element lost/duplicated/destroyed twice), and Memory::Copy / SetToZero equal the byte-wise definition for every length 0..80 with guard bytes, in scalar, SSE2 and AVX2 builds.',
             note='Bounded: capacities <= 4 (streams 8), argument lengths <= 3, copy lengths <= 80 bytes. Containers in the scalar build (SIMD builds differ only inside Memory::Copy/SetToZero, checked separately). The quick tier runs one representative per (container, type, operation) group plus a deterministic twelfth of the other variants; thorough runs all 5649.', ref='6/C14')
CLAIMS['C19'] = dict(text='One inductive step per BigInt operation from an ARBITRARY pre-state satisfying the representation invariant (words symbolic, index symbolic), with symbolic arguments guarded by "the result fits": the invariant is re-established and the value equals a native / unsigned __int128 / word-wise carry-chain reference, no access outside the word array; word sizes 8/16/32/64, widths 32..256 bits. Multiply and Divide are proved over the contract of the double-word helper, and the helper itself (DoubleSize<W,bits>::Multiply/Divide) against native double-width arithmetic: all operands for 8/16/32-bit words, 64-bit Multiply for all operands, 64-bit Divide for each of the 29 divisors the library uses (10^19, 5^0..5^27).',
             note='Bounded per instantiation (5 quick / 7 thorough). An exactness proof of the 64-bit Divide for ARBITRARY divisors is out of reach of every back end (searched for counterexamples with kissat instead); distributivity / long-division identities used to compose the helper proofs are stated assumptions.', ref='6/C19')
CLAIMS['C16'] = dict(text='The C14 array harnesses (Array<int>, Array<Tracked>: every public operation incl. growth/relocation, copy/move, merge-by-move, Clear/Reset/Detach, aliasing arguments) re-run with CBMC --memory-leak-check: after one arbitrary operation on a pre-state built through the public API and destruction of every object no allocation is live; CBMC deallocated-object / double-free / invalid-free properties cover use-after-release and foreign releases; the Tracked ledger covers construct/destroy exactly once per element.',
             note='PARTIAL: containers only (arrays; strings/streams/hash table use-after-free and double-free are covered by the pointer checks of C13/C14). Failed JSON parses with the real Value, malformed templates and tag-cache lifetimes are NOT covered (real container-kind Value and the template driver are beyond reach of CBMC on this image).', ref='6/C16')
NA = {
 'C02': 'needs the template renderer over symbolic templates x value trees: TemplateCore::parse with ONE symbolic template unit or a symbolic truncation length gives no verdict in 300 s; Parse+Render of the concrete 7-unit template {var:a} against a symbolic value tree runs out of memory at 16 GB after 244 s; a fully symbolic 3-unit template: no verdict in 400 s (cbmc 6.11, per-loop bounds, RPO C). Running concrete templates through CBMC would be enumeration of concrete runs, not a solver verdict; not replaced by another technique (DESIGN.md section 8)',
 'C17': 'quantifies over renders through the template renderer (same wall as C02: renderer out of reach of the bounded model checker here); the schedule clause would additionally rest on a syntactic no-shared-writes argument, which is not a solver verdict (DESIGN.md section 8)',
 'C18': 'Value::GroupBy needs an array of REAL objects; one real object member (HArray<String,Value>) does not reach a verdict in 300 s under any mitigation (per-loop and per-function recursion bounds, pointer-compare folding) because every temporary ~Value explores the mutually recursive destructor group (DESIGN.md sections 2 and 8)',
}
def main():
    props = [json.loads(l)['id'] for l in open(os.path.join(ROOT, 'properties.jsonl'))]
    checks = []
    for pid in props:
        if pid in CLAIMS and os.path.exists(os.path.join(ROOT, 'specs', pid + '.py')):
            c = CLAIMS[pid]
            checks.append({
                'property_id': pid,
                'quick_cmd': './check %s --tier quick' % pid,
                'thorough_cmd': './check %s --tier thorough' % pid,
                'evidence_file': 'evidence/%s.json' % pid,
                'replay_cmd_template': './check %s --replay {path}' % pid,
                'engine': 'q2c',
                'level_claimed': {'category': 'model_checking', 'text': c['text'], 'design_ref': 'DESIGN.md §' + c['ref']},
                'level_note': c['note'],
                'technique': c.get('tech', TECH),
            })
    na = [{'property_id': p, 'reason': NA.get(p, 'no solver-based check built yet in this round (work in progress; see DESIGN.md §6)')} for p in props if p not in [c['property_id'] for c in checks]]
    m = {
        'version': 1,
        'setup_cmd': 'true',
        'hooks': {'guard': 'QENTEM_VERIF', 'enable': 'none: no source hooks are used (private members are reached with -Dprivate=public on harness translation units only)',
                  'baseline_off_cmd': './run_baseline.sh', 'source_commits': [], 'add_only': True},
        'engines': [{'name': 'q2c', 'path': 'q2c/', 'serves_properties': [c['property_id'] for c in checks],
                     'kind_free_text': 'clang IR of the real headers -> C (own translator) -> CBMC bounded model checker with SAT/SMT back ends; native sanitizer replay'}],
        'checks': checks,
        'not_applicable': na,
        'notes': 'All checks rebuild from /repo/Include on every run. Genuine defects are listed in known_findings.json.',
    }
    json.dump(m, open(os.path.join(ROOT, 'MANIFEST.json'), 'w'), indent=1)
main()

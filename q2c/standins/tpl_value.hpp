// SymValue: heap-free stand-in for TemplateCore's Value_T parameter.  Every observer returns an ARBITRARY answer
// consistent with one small symbolic tree (depth <= 2, fan-out <= 2, strings <= 2 units), so "all value trees" is
// over-approximated for the template properties.  Every (pointer, length) the template hands in is probed at an
// arbitrary index, so a slice outside the template buffer is a CBMC bounds failure.
#pragma once
#include "StringView.hpp"
#include "QNumber.hpp"
#include "Digit.hpp"
#include "vf.h"
template <typename Char_T> struct SymValue {
    unsigned char kind{0};                 // 0 undefined 1 object 2 array 3 string 4 natural 5 integer 6 real 7 true 8 false 9 null
    unsigned size{0};                      // members (<= 2)
    const SymValue *child[2]{nullptr, nullptr};
    Char_T key[2]{0, 0};                   // one-unit member keys
    Char_T str[2]{0, 0}; unsigned slen{0}; // text of a string / printable scalar
    unsigned long long num{0};
    mutable Char_T probe{0};
    void probe_slice(const Char_T *p, Qentem::SizeT n) const {
        if (n != 0) { unsigned i = vf_u32(); vf_assume(i < n); probe = p[i]; }
    }
    const SymValue *GetValue(const Char_T *k, Qentem::SizeT n) const {
        probe_slice(k, n);
        unsigned c = vf_u8(); return (c < size) ? child[c] : nullptr;
    }
    const SymValue *GetValue(Qentem::SizeT index) const {
        bool removed = vf_u8() & 1; return (index < size && !removed) ? child[index] : nullptr;
    }
    Qentem::SizeT Size() const { return size; }
    bool IsObject() const { return kind == 1; }
    bool IsString() const { return kind == 3; }
    Qentem::SizeT Length() const { return slen; }
    void SetValueAndKey(Qentem::SizeT index, const SymValue *&v, Qentem::StringView<Char_T> &k) const {
        bool removed = vf_u8() & 1;
        v = (index < size && !removed) ? child[index] : nullptr;
        k = Qentem::StringView<Char_T>{&key[index < 2 ? index : 0], Qentem::SizeT{1}};
    }
    template <typename Stream_T, typename Fn_T = void(Stream_T &, const Char_T *, Qentem::SizeT)>
    bool CopyValueTo(Stream_T &stream, const Qentem::Digit::RealFormatInfo = Qentem::Digit::RealFormatInfo{}, Fn_T *fn = nullptr) const {
        if (kind == 0 || kind == 1 || kind == 2) return false;     // not printable
        if (fn != nullptr) fn(stream, &str[0], Qentem::SizeT(slen)); else stream.Write(&str[0], Qentem::SizeT(slen));
        return true;
    }
    template <typename Number_T> bool SetCharAndLength(const Char_T *&p, Number_T &n) const {
        if (kind < 3) return false;
        p = &str[0]; n = Number_T(slen); return true;
    }
    Qentem::QNumberType SetNumber(Qentem::QNumber64 &n) const {
        if (kind == 4) { n.Natural = num; return Qentem::QNumberType::Natural; }
        if (kind == 5) { n.Natural = num; return Qentem::QNumberType::Integer; }
        if (kind == 6) { n.Natural = num; return Qentem::QNumberType::Real; }
        if (kind == 7) { n.Natural = 1; return Qentem::QNumberType::Natural; }
        if (kind == 8 || kind == 9) { n.Natural = 0; return Qentem::QNumberType::Natural; }
        return Qentem::QNumberType::NotANumber;
    }
    Qentem::QNumberType GetNumberType() const { Qentem::QNumber64 t; return SetNumber(t); }
    bool GroupBy(SymValue &out, const Char_T *k, Qentem::SizeT n) const {
        probe_slice(k, n);
        if (kind != 2 || (vf_u8() & 1)) return false;
        out = *this; out.kind = 1; return true;                     // an object of arrays, same shape bound
    }
    void Sort(bool) {}
};
// fills a 4-node pool: node 0 root, 1-2 inner, 3 leaf; answers symbolic
template <typename Char_T> inline void sym_tree(SymValue<Char_T> *n) {
    for (unsigned i = 0; i < 4; i++) {
        n[i].kind = (unsigned char)(vf_u8() % 10);
        n[i].size = 0; n[i].child[0] = nullptr; n[i].child[1] = nullptr;
        n[i].key[0] = vf_any<Char_T>(); n[i].key[1] = vf_any<Char_T>();
        n[i].str[0] = vf_any<Char_T>(); n[i].str[1] = vf_any<Char_T>();
        unsigned l = vf_u8(); vf_assume(l <= 2); n[i].slen = l;
        n[i].num = vf_u64();
    }
    unsigned s0 = vf_u8(); vf_assume(s0 <= 2); n[0].size = (n[0].kind == 1 || n[0].kind == 2) ? s0 : 0;
    n[0].child[0] = &n[1]; n[0].child[1] = &n[2];
    for (unsigned i = 1; i <= 2; i++) {
        unsigned s = vf_u8(); vf_assume(s <= 2); n[i].size = (n[i].kind == 1 || n[i].kind == 2) ? s : 0;
        n[i].child[0] = &n[3]; n[i].child[1] = &n[3];
    }
}

// Heap-free stand-in for TemplateCore's Value_T parameter, for the EXPRESSION part of the engine only
// (evaluate / GetExpressionValue / isEqual / getValue).  It answers exactly the queries those functions make:
//   GetValue(key, len)        -> one of two children (first key unit 'a' / 'b'), anything else: missing (nullptr)
//   GetNumberType()           -> the "genuine number" kind (NotANumber for text, booleans, null, containers)
//   SetNumber(n)              -> the kind + payload the value converts to (numbers; true/false/null -> 1/0/0; numeric text)
//   SetCharAndLength(p, n)    -> its text (strings; true/false/null)
//   IsString(), Length()
// All answers are plain fields that a harness fills with symbolic values (arbitrary but fixed per run) under the
// consistency constraints of the real Value (see sym_value_consistent).  This is a harness type, not a repo change.
#pragma once
#include "QNumber.hpp"
template <typename Char_T> struct SymValue {
    // answers (filled by the harness)
    Qentem::QNumberType ntype{Qentem::QNumberType::NotANumber};     // GetNumberType()
    Qentem::QNumberType stype{Qentem::QNumberType::NotANumber};     // SetNumber() result kind
    Qentem::SizeT64     bits{0};                                    // SetNumber() payload
    bool                has_text{false};                            // SetCharAndLength() succeeds
    bool                is_string{false};                           // IsString()
    const Char_T       *text{nullptr};
    Qentem::SizeT       text_len{0};
    const SymValue     *kid_a{nullptr};
    const SymValue     *kid_b{nullptr};

    const SymValue *GetValue(const Char_T *key, Qentem::SizeT length) const noexcept {
        if (length == 0) return nullptr;
        if (key[0] == Char_T('a')) return kid_a;
        if (key[0] == Char_T('b')) return kid_b;
        return nullptr;
    }
    Qentem::QNumberType GetNumberType() const noexcept { return ntype; }
    Qentem::QNumberType SetNumber(Qentem::QNumber64 &number) const noexcept {
        if (stype != Qentem::QNumberType::NotANumber) number.Natural = bits;
        return stype;
    }
    template <typename Number_T> bool SetCharAndLength(const Char_T *&key, Number_T &length) const noexcept {
        if (has_text) { key = text; length = Number_T(text_len); return true; }
        return false;
    }
    bool          IsString() const noexcept { return is_string; }
    Qentem::SizeT Length() const noexcept { return is_string ? text_len : Qentem::SizeT{0}; }
};
// what the real Value guarantees about these answers:
//   a genuine number converts to itself and has no text; a string has text; only text-bearing kinds can be strings;
//   a non-number that converts to a number (true / false / null / numeric text) has text
template <typename Char_T> inline bool sym_value_consistent(const SymValue<Char_T> &v) {
    const unsigned n = unsigned(v.ntype), s = unsigned(v.stype);
    if (n > 3 || s > 3) return false;
    if (n != 0) return (s == n) && !v.has_text && !v.is_string;
    if (v.is_string && !v.has_text) return false;
    if (s != 0 && !v.has_text) return false;          // what converts to a number without being one (true/false/null/numeric text) has text
    return true;
}

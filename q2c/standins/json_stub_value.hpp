// Heap-free shape-recording stand-ins for Value / Array / HArray / String, used ONLY by JSON parser *cursor* harnesses
// (C05 memory safety, C07 all-or-nothing, C06 structure at <= 3 nodes).  They pre-define the include guards of the
// real headers, so JSON.hpp is compiled unchanged against them.  Every String construction reads an arbitrary unit of
// the slice it is given (one symbolic index = all reads checked).
#pragma once
#define QENTEM_VALUE_H
#define QENTEM_ARRAY_H
#define QENTEM_HARRAY_H
#define QENTEM_HASH_TABLE_H
#define QENTEM_STRING_H
#define QENTEM_STRINGSTREAM_H
#include "Memory.hpp"
#include "StringUtils.hpp"
#include "QNumber.hpp"
#include "vf.h"
namespace Qentem {
template <typename> struct StringStream;   // only named by an overload the harnesses never instantiate
template <typename Char_T> struct String {
    const Char_T *p{nullptr}; SizeT len{0}; Char_T probe{0};
    String() = default;
    String(const Char_T *s, SizeT n) : p{s}, len{n} {
        if (n != 0) { SizeT i = vf_u32(); vf_assume(i < n); probe = s[i]; }   // arbitrary unit of [s, s+n) is read
    }
    String(String &&o) noexcept : p{o.p}, len{o.len}, probe{o.probe} { o.p = nullptr; o.len = 0; }
    ~String() { p = nullptr; }
    SizeT Length() const { return len; }
    const Char_T *First() const { return p; }
};
}
#include "JSONUtils.hpp"
namespace Qentem {
enum struct ValueType : SizeT8 { Undefined = 0, ValuePtr, Object, Array, String, UIntLong, IntLong, Double, True, False, Null };
struct ShapeChild { SizeT8 type{0}; SizeT8 keylen{0}; SizeT16 n{0}; unsigned long long payload{0}; unsigned key[3]{0, 0, 0}; unsigned sv[3]{0, 0, 0}; };
template <typename Char_T> struct Value;
template <typename T> struct Array {          // records the first 3 elements' summaries
    SizeT n{0}; ShapeChild c[3];
    void operator+=(T &&v) { if (n < 3) { c[n].type = SizeT8(v.type_); c[n].payload = v.payload_; c[n].n = SizeT16(v.count()); c[n].sv[0] = v.sv_[0]; c[n].sv[1] = v.sv_[1]; c[n].sv[2] = v.sv_[2]; } ++n; v.type_ = ValueType::Undefined; }
};
template <typename K, typename V> struct HArray {
    SizeT n{0}; ShapeChild c[3];
    void Insert(K &&k, V &&v) {
        if (n < 3) {
            c[n].type = SizeT8(v.type_); c[n].payload = v.payload_; c[n].n = SizeT16(v.count()); c[n].sv[0] = v.sv_[0]; c[n].sv[1] = v.sv_[1]; c[n].sv[2] = v.sv_[2]; c[n].keylen = SizeT8(k.Length() < 255 ? k.Length() : 255);
            SizeT i = 0; while (i < 3 && i < k.Length()) { c[n].key[i] = unsigned(k.First()[i]); ++i; }
        }
        ++n; v.type_ = ValueType::Undefined;
    }
};
template <typename Char_T> struct Value {
    using ObjectT = HArray<String<Char_T>, Value>;
    using ArrayT  = Array<Value>;
    Value() = default;
    ~Value() { type_ = ValueType::Undefined; }
    Value(Value &&o) noexcept : type_{o.type_}, payload_{o.payload_}, obj_{o.obj_}, arr_{o.arr_} { sv_[0] = o.sv_[0]; sv_[1] = o.sv_[1]; sv_[2] = o.sv_[2]; o.type_ = ValueType::Undefined; }
    explicit Value(ValueType t) : type_{t} {}
    explicit Value(String<Char_T> &&s) : type_{ValueType::String} { payload_ = s.Length(); SizeT i = 0; while (i < 3 && i < s.Length()) { sv_[i] = unsigned(s.First()[i]); ++i; } }
    explicit Value(SizeT64 n) : type_{ValueType::UIntLong} { payload_ = n; }
    explicit Value(SizeT64I n) : type_{ValueType::IntLong} { payload_ = (unsigned long long)n; }
    explicit Value(double n) : type_{ValueType::Double} { QNumber64 q; q.Real = n; payload_ = q.Natural; }
    ObjectT *GetObject() { return &obj_; }
    ArrayT  *GetArray() { return &arr_; }
    void Reset() { type_ = ValueType::Undefined; obj_.n = 0; arr_.n = 0; }
    bool IsUndefined() const { return type_ == ValueType::Undefined; }
    SizeT count() const { return type_ == ValueType::Object ? obj_.n : (type_ == ValueType::Array ? arr_.n : 0); }
    ValueType type_{ValueType::Undefined}; unsigned long long payload_{0}; unsigned sv_[3]{0, 0, 0};
    ObjectT obj_; ArrayT arr_;
};
}

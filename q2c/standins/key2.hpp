// Key2: heap-free stand-in for the Key_T template parameter of HashTable / HArray / HList (the library's own key type
// is String<Char_T>, whose allocation behaviour is C14/C16's subject).  Inline storage of 0..2 code units + length.
// It offers exactly what HashTable.hpp / HArray.hpp / HList.hpp use from a key: CharType, Key_T{}, Key_T{ptr,len},
// copy / move construction and assignment (a moved-from key is empty, like a moved-from String), First(), Length(),
// IsEqual(ptr,len) and the relational operators.  Comparisons go through the library's own StringUtils::IsEqual /
// IsLess / IsGreater exactly as String's operators do (String.hpp:160-219).  This is a harness type, not a repo change.
#pragma once
#include "StringUtils.hpp"
template <typename Char_T> struct Key2T {
    using CharType = Char_T;
    Char_T           d[2];
    unsigned char    n;     // 0..2 (3 bytes in all: the table item stays 16 bytes)
    Key2T() noexcept : d{Char_T(0), Char_T(0)}, n{0} {}
    Key2T(const Char_T *s, Qentem::SizeT len) noexcept : d{Char_T(0), Char_T(0)}, n{(unsigned char)(len)} {
        if (len > 0) d[0] = s[0];
        if (len > 1) d[1] = s[1];
    }
    Key2T(const Key2T &o) noexcept : d{o.d[0], o.d[1]}, n{o.n} {}
    Key2T(Key2T &&o) noexcept : d{o.d[0], o.d[1]}, n{o.n} { o.n = 0; }
    ~Key2T() {}
    Key2T &operator=(const Key2T &o) noexcept { d[0] = o.d[0]; d[1] = o.d[1]; n = o.n; return *this; }
    Key2T &operator=(Key2T &&o) noexcept {
        if (this != &o) { d[0] = o.d[0]; d[1] = o.d[1]; n = o.n; o.n = 0; }
        return *this;
    }
    const Char_T *First() const noexcept { return d; }
    Qentem::SizeT Length() const noexcept { return n; }
    bool IsEqual(const Char_T *s, Qentem::SizeT len) const noexcept { return (n == len) && Qentem::StringUtils::IsEqual(First(), s, len); }
    bool operator==(const Key2T &o) const noexcept { return (n == o.n) && Qentem::StringUtils::IsEqual(First(), o.First(), n); }
    bool operator!=(const Key2T &o) const noexcept { return !(*this == o); }
    bool operator<(const Key2T &o) const noexcept { return Qentem::StringUtils::IsLess(First(), o.First(), n, o.n, false); }
    bool operator<=(const Key2T &o) const noexcept { return Qentem::StringUtils::IsLess(First(), o.First(), n, o.n, true); }
    bool operator>(const Key2T &o) const noexcept { return Qentem::StringUtils::IsGreater(First(), o.First(), n, o.n, false); }
    bool operator>=(const Key2T &o) const noexcept { return Qentem::StringUtils::IsGreater(First(), o.First(), n, o.n, true); }
};
typedef Key2T<char> Key2;

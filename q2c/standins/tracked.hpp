// Tracked: element type for ownership checks on Array<T> (harness type, not a repo change).
// Every object carries an id; a global ledger counts, per id, how many constructed-and-not-yet-destroyed objects
// carry it.  Containers that relocate elements bit-wise (Memory::Copy + Deallocate of the old block) leave the ledger
// unchanged, so after any operation  live[k] == (number of objects with id k the model says exist)  states that no
// element was lost, duplicated, destroyed twice, destroyed while still owned, or "destroyed" without ever having been
// constructed (garbage id => `bad`).  ctor - dtor == number of live objects.
#pragma once
#ifndef TRK_IDS
#define TRK_IDS 12                    // ids 0..TRK_IDS-3 are free for the harness
#endif
#define TRK_DEFAULT (TRK_IDS - 2)     // id of a value-initialised object  (Tracked{})
#define TRK_MOVED (TRK_IDS - 1)       // id of a moved-from object (alive, owns nothing)
struct TrackedLedger {
    int      live[TRK_IDS];
    unsigned ctor, dtor;
    bool     bad;                     // destructor / assignment on an object whose id is garbage or not live
};
static TrackedLedger trk_ledger;      // zero-initialised (static storage)
struct Tracked {
    unsigned id;
    unsigned val;
    static void inc(unsigned i) {
        if (i < TRK_IDS) ++trk_ledger.live[i]; else trk_ledger.bad = true;
    }
    static void dec(unsigned i) {
        if (i < TRK_IDS && trk_ledger.live[i] > 0) --trk_ledger.live[i]; else trk_ledger.bad = true;
    }
    Tracked() noexcept : id(TRK_DEFAULT), val(0) { ++trk_ledger.ctor; inc(id); }
    Tracked(unsigned i, unsigned v) noexcept : id(i), val(v) { ++trk_ledger.ctor; inc(id); }
    Tracked(const Tracked &o) noexcept : id(o.id), val(o.val) { ++trk_ledger.ctor; inc(id); }
    Tracked(Tracked &&o) noexcept : id(o.id), val(o.val) {
        ++trk_ledger.ctor; inc(id);
        dec(o.id); o.id = TRK_MOVED; o.val = 0; inc(TRK_MOVED);
    }
    Tracked &operator=(const Tracked &o) noexcept {
        if (this != &o) { dec(id); id = o.id; val = o.val; inc(id); }
        return *this;
    }
    Tracked &operator=(Tracked &&o) noexcept {
        if (this != &o) { dec(id); id = o.id; val = o.val; inc(id); dec(o.id); o.id = TRK_MOVED; o.val = 0; inc(TRK_MOVED); }
        return *this;
    }
    ~Tracked() { ++trk_ledger.dtor; dec(id); }
    bool operator<(const Tracked &o) const noexcept { return val < o.val; }
    bool operator>(const Tracked &o) const noexcept { return val > o.val; }
};

// Fixed-capacity, heap-free stand-in for the Stream_T / StringStream_T template parameters of the library
// (escaper, ToUTF, UnEscape/Escape, NumberToString, TemplateCore).  Overflow of CAP is recorded and asserted
// by the harness.  This is a harness type, not a repo change.
#pragma once
#include "StringUtils.hpp"
template <typename Char_T, unsigned CAP> struct FixedStream {
    using CharType = Char_T;
    Char_T buf[CAP]; Qentem::SizeT len{0}; bool overflow{false};
    void operator+=(Char_T c) { if (len < CAP) { buf[len] = c; ++len; } else overflow = true; }
    void Write(const Char_T *s, Qentem::SizeT n) { Qentem::SizeT i = 0; while (i < n) { *this += s[i]; ++i; } }
    template <typename S> void operator+=(const S &s) { Write(s.First(), s.Length()); }
    Qentem::SizeT Length() const { return len; }
    const Char_T *First() const { return buf; }
    Char_T *Storage() { return buf; }
    Char_T *Last() { return len ? (buf + (len - 1)) : nullptr; }
    const Char_T *Last() const { return len ? (buf + (len - 1)) : nullptr; }
    bool IsNotEmpty() const { return len != 0; }
    bool IsEmpty() const { return len == 0; }
    void Clear() { len = 0; }
    void SetLength(Qentem::SizeT n) { if (n <= CAP) len = n; else overflow = true; }
    void StepBack(Qentem::SizeT n) { if (n <= len) len -= n; }
    void Reverse(Qentem::SizeT index = 0) { Qentem::SizeT end = len; while (index < end) { Char_T t = buf[index]; --end; buf[index] = buf[end]; buf[end] = t; ++index; } }
    void InsertAt(Char_T ch, Qentem::SizeT index) { if (index < len) { Qentem::SizeT i = len; if (len < CAP) { while (i > index) { buf[i] = buf[i-1]; --i; } buf[index] = ch; ++len; } else overflow = true; } }
};

#!/usr/bin/env python3
"""q2c engine: harness.cpp (+ real /repo headers) -> clang IR -> ll2c -> CBMC; verdicts, replay, evidence.

Every verdict is the solver's: PROVED (all properties hold within the unwinding bounds and the
reachability witness is reachable), CEX (a property fails; the tape is extracted from the trace and
replayed natively against the real headers), UNDECIDED (timeout, memory, tool error, vacuous,
unwinding bound too small, unconfirmed counterexample).
"""
import os, re, sys, json, time, shutil, subprocess, hashlib, random, resource, threading, tempfile
from concurrent.futures import ThreadPoolExecutor

ROOT = os.path.dirname(os.path.dirname(os.path.abspath(__file__)))
Q2C = os.path.join(ROOT, 'q2c')
REPO = os.environ.get('VERIF_REPO', '/repo')
INCLUDE = os.path.join(REPO, 'Include')
sys.path.insert(0, Q2C)
import ll2c  # noqa

CLANG = 'clang++-14'
BASE_FLAGS = ['-std=c++17', '-fno-exceptions', '-fno-rtti', '-gline-tables-only', '-Wno-everything',
              '-I' + INCLUDE, '-I' + Q2C, '-I' + os.path.join(Q2C, 'standins'), '-I' + os.path.join(ROOT, 'harness')]
MODE_FLAGS = {
    # -disable-loop-idiom-all: keep source loops as loops (no llvm.memset/memcpy with a symbolic length)
    'F': ['-O1', '-fno-vectorize', '-fno-slp-vectorize', '-fno-unroll-loops', '-mllvm', '-disable-loop-idiom-all'],
    'Fi': ['-O1', '-fno-vectorize', '-fno-slp-vectorize', '-fno-unroll-loops', '-mllvm', '-disable-loop-idiom-all', '-mllvm', '-inline-threshold=100000'],
}
CBMC_BASE = ['--unwinding-assertions', '--undefined-shift-check',
             '--drop-unused-functions', '--no-malloc-may-fail', '--no-standard-checks',
             '--bounds-check', '--pointer-check', '--div-by-zero-check', '--pointer-primitive-check',
             # heap blocks are byte arrays; cbmc's default field sensitivity stops at 64 elements, after which nothing stored in a bigger
             # block constant-propagates (kind tags of Values in a 96-byte array, hash-table blocks) and symbolic execution explodes
             '--max-field-sensitivity-array-size', '512', '--object-bits', '10']

_lock = threading.Lock()


class Query:
    def __init__(self, name, harness, entry, defs=None, mode='F', bounds=None, default_unwind=2,
                 backend='sat', timeout=300, mem_gb=12, stubs=None, kf_only=None, kf_excl=(),
                 cflags=(), extra_cbmc=(), note='', replay='direct', leak=False, functions=(), rec_bounds=None, default_rec=2, ptrovf=False, vacuous_ok=False, self_stubs=None, stubs_optional=False):
        self.name = name; self.harness = harness; self.entry = entry
        self.defs = dict(defs or {}); self.mode = mode
        self.bounds = dict(bounds or {})        # regex over "<SourceFunction>" or "<cfunc>" -> unwind bound
        self.default_unwind = default_unwind
        self.backend = backend; self.timeout = timeout; self.mem_gb = mem_gb
        self.stubs = dict(stubs or {})
        self.kf_only = kf_only; self.kf_excl = tuple(kf_excl)
        self.cflags = tuple(cflags); self.extra_cbmc = tuple(extra_cbmc)
        self.note = note; self.replay = replay; self.leak = leak
        self.functions = tuple(functions)
        self.rec_bounds = dict(rec_bounds or {}); self.default_rec = default_rec
        self.stubs_optional = stubs_optional   # a stub target that does not occur in the module is ignored instead of making the query undecided
        self.self_stubs = dict(self_stubs or {})   # {mangled F: c_fn}: direct calls to F inside F's own body go to c_fn
        self.vacuous_ok = vacuous_ok   # steering twins: an unreachable witness means "no such counterexample exists" and counts as proved
        self.ptrovf = ptrovf   # --pointer-overflow-check: off by default (optimiser-hoisted GEPs and NULL+0 give false alarms that mask later properties)


class Work:
    """scratch directory, removed on exit"""
    def __init__(self):
        base = os.path.join(ROOT, '.work')
        os.makedirs(base, exist_ok=True)
        self.dir = tempfile.mkdtemp(prefix='run%d_' % os.getpid(), dir=base)
        self.cache = {}
    def cleanup(self):
        shutil.rmtree(self.dir, ignore_errors=True)


def _sh(cmd, timeout=None, mem_gb=None, env=None, cwd=None, stdin=None):
    def lim():
        if mem_gb:
            b = int(mem_gb * (1 << 30))
            resource.setrlimit(resource.RLIMIT_AS, (b, b))
        os.setsid()
    t0 = time.time()
    p = subprocess.Popen(cmd, stdout=subprocess.PIPE, stderr=subprocess.STDOUT, preexec_fn=lim, env=env, cwd=cwd,
                         stdin=stdin if stdin is not None else subprocess.DEVNULL)
    try:
        out, _ = p.communicate(timeout=timeout)
        to = False
    except subprocess.TimeoutExpired:
        try: os.killpg(p.pid, 9)
        except Exception: pass
        out, _ = p.communicate()
        to = True
    return p.returncode, out.decode('utf-8', 'replace'), time.time() - t0, to


def defs_flags(defs):
    return ['-D%s=%s' % (k, v) if v is not None else '-D%s' % k for k, v in sorted(defs.items())]


def modkey(q, defs):
    h = hashlib.sha1(repr((q.harness, sorted(defs.items()), q.mode, q.cflags)).encode()).hexdigest()[:12]
    return os.path.splitext(os.path.basename(q.harness))[0] + '_' + h


def compile_ir(work, q, defs):
    """harness -> .ll ; cached per (harness, defs, mode)"""
    key = modkey(q, defs)
    with _lock:
        ent = work.cache.get(key)
        if ent is None:
            ent = work.cache[key] = {'lock': threading.Lock()}
    with ent['lock']:
        if 'll' in ent: return key, ent
        ll = os.path.join(work.dir, key + '.ll')
        src = os.path.join(ROOT, 'harness', q.harness)
        cmd = [CLANG] + BASE_FLAGS + MODE_FLAGS[q.mode] + list(q.cflags) + defs_flags(defs) + ['-S', '-emit-llvm', src, '-o', ll]
        rc, out, dt, to = _sh(cmd, timeout=300)
        if rc != 0:
            ent['err'] = 'clang failed:\n' + out[-3000:]
        else:
            # canonical loops (single latch per loop) so that every natural loop is exactly one backward goto
            rc, out, dt2, to = _sh(['opt-14', '-S', '-passes=loop-simplify', ll, '-o', ll + '.ls'], timeout=300)
            if rc != 0: ent['err'] = 'opt loop-simplify failed:\n' + out[-2000:]
            else: os.replace(ll + '.ls', ll)
        ent['ll'] = ll
        ent['clang_s'] = dt
        return key, ent


def translate(work, key, ent, stubs, self_stubs=None, stubs_optional=False):
    self_stubs = self_stubs or {}
    skey = hashlib.sha1(repr((sorted(stubs.items()), sorted(self_stubs.items()))).encode()).hexdigest()[:8]
    with ent['lock']:
        tk = 'c_' + skey
        if tk in ent: return ent[tk]
        cfile = os.path.join(work.dir, '%s_%s.c' % (key, skey))
        loops = []; recs = []
        try:
            text = ll2c.translate(open(ent['ll']).read(), {'stubs': stubs, 'self_stubs': self_stubs, 'stubs_optional': stubs_optional, 'loops_out': loops, 'rec_out': recs})
        except Exception as e:  # translator cannot handle the IR: undecided, never pass/fail
            ent[tk] = (None, None, 'll2c: %s: %s' % (type(e).__name__, e))
            return ent[tk]
        open(cfile, 'w').write(text)
        ent[tk] = (cfile, loops, None)
        ent['rec_' + skey] = recs
        return ent[tk]


def unwindset(work, cfile, entry, loops, q, recs=None, stubs_c=()):
    """per-loop bounds: cbmc --show-loops (ids + generated-C lines) joined with ll2c's source-function map"""
    rc, out, dt, to = _sh(['cbmc', cfile, '--function', entry, '--show-loops', '-I', Q2C, '--drop-unused-functions'], timeout=120)
    byline = {l.get('cline'): l for l in loops}
    items = []; desc = []
    for m in re.finditer(r'Loop (\S+):\n\s+file (\S+) line (\d+) function (\S+)', out):
        lid, f, line, fn = m.group(1), m.group(2), int(m.group(3)), m.group(4)
        info = byline.get(line)
        names = [fn]
        if info:
            base = (info['src'] or '?').split('<')[0]
            names = [base, '%s:%s' % (info['file'], base), fn]
        b = None
        for pat, bound in q.bounds.items():
            if any(re.fullmatch(pat, n or '') for n in names):
                b = bound; break
        if b is None: b = q.default_unwind
        items.append('%s:%d' % (lid, b))
        desc.append({'loop': lid, 'src': names[0] if info else fn, 'file': info['file'] if info else os.path.basename(f),
                     'line': info['line'] if info else line, 'unwind': b})
    for rf in (recs or []):
        if rf['cfunc'] in stubs_c: continue
        b = None
        base = (rf['src'] or '').split('<')[0]
        for pat, bound in q.rec_bounds.items():
            if re.fullmatch(pat, base) or re.fullmatch(pat, rf['cfunc']):
                b = bound; break
        if b is None: b = q.default_rec
        items.append('%s:%d' % (rf['cfunc'], b))
        desc.append({'loop': rf['cfunc'] + ' (recursion)', 'src': base, 'file': None, 'line': 0, 'unwind': b})
    return items, desc


BACKENDS = {
    'sat': [],
    'cadical': ['--sat-solver', 'cadical'],
    'kissat': ['--external-sat-solver', 'kissat'],
    'z3': ['--z3'],
    'cvc5int': ['--cvc5', '--slice-formula'],
    'cvc5': ['--cvc5'],
}

# the memory-leak property has no "line N" part: "[__CPROVER__start.memory-leak.1] dynamically allocated memory never freed in ...: FAILURE"
RES_RE = re.compile(r'^\[(\S+)\] (?:line (\d+) )?(.*): (SUCCESS|FAILURE|UNKNOWN|ERROR)$', re.M)


def classify(prop, desc):
    if 'reachability witness' in desc: return 'witness'
    if 'unwinding assertion' in desc or '.unwind.' in prop or 'recursion' in desc: return 'unwind'
    if 'pointer arithmetic' in desc or 'pointer_arithmetic' in prop: return 'ptrovf'
    if 'pointer relation' in desc: return 'ptrrel'
    if 'harness assertion' in desc: return 'assert'
    if 'llvm unreachable' in desc: return 'unreachable'
    if 'memory leak' in desc or 'memory-leak' in prop: return 'leak'
    return 'safety'


def run_cbmc(work, q, cfile, entry, items, backend, timeout, trace_prop=None):
    cmd = ['cbmc', cfile, '--function', entry, '-I', Q2C] + CBMC_BASE + BACKENDS[backend] + list(q.extra_cbmc)
    if getattr(q, '_assume', False): cmd += ['-DVF_ASSUME_AFTER_ASSERT']     # second attempt after a timeout: assert-then-assume (see vf_env.h)
    if q.leak: cmd += ['--memory-leak-check']
    if q.ptrovf: cmd += ['--pointer-overflow-check']
    if items: cmd += ['--unwindset', ','.join(items)]
    cmd += ['--unwind', str(q.default_unwind)]
    if trace_prop == '*':
        cmd += ['--trace']
    elif trace_prop:
        cmd += ['--trace', '--property', trace_prop]
    env = dict(os.environ)
    if backend == 'cvc5int':
        env['PATH'] = os.path.join(Q2C, 'bin') + ':' + env['PATH']
    rc, out, dt, to = _sh(cmd, timeout=timeout, mem_gb=q.mem_gb, env=env)
    return rc, out, dt, to, cmd


def parse_results(out):
    res = []
    for m in RES_RE.finditer(out):
        res.append({'prop': m.group(1), 'line': int(m.group(2) or 0), 'desc': m.group(3), 'status': m.group(4),
                    'kind': classify(m.group(1), m.group(3))})
    return res


TAPE_RE = re.compile(r'^\s+vf_tape_v(8|16|32|64)=(\d+)', re.M)


def extract_tape(trace_out, prop=None):
    if prop:
        m = re.search(r'^Trace for %s:\n(.*?)(?=^Trace for |^\*\* \d+ of)' % re.escape(prop), trace_out, re.M | re.S)
        if m: trace_out = m.group(1)
    return [(int(w), int(v)) for w, v in TAPE_RE.findall(trace_out)]


def write_tape(path, tape):
    with open(path, 'w') as f:
        for w, v in tape: f.write('%d %d\n' % (w, v))


def build_native(work, q, defs, entry, sanitize=True, harness=None):
    """direct C++ twin of the harness against the real headers"""
    key = 'nat_' + modkey(q, defs) + '_' + entry + ('_san' if sanitize else '') + ('_' + os.path.splitext(harness)[0] if harness else '')
    with _lock:
        ent = work.cache.get(key)
        if ent is None: ent = work.cache[key] = {'lock': threading.Lock()}
    with ent['lock']:
        if 'exe' in ent: return ent['exe'], ent.get('err')
        exe = os.path.join(work.dir, key)
        src = os.path.join(ROOT, 'harness', harness or q.harness)
        san = ['-fsanitize=address,undefined', '-fno-sanitize-recover=undefined', '-fno-omit-frame-pointer'] if sanitize else []
        cmd = [CLANG] + BASE_FLAGS + ['-O1'] + list(q.cflags) + san + defs_flags(defs) + ['-DVF_ENTRY=' + entry, src,
              os.path.join(Q2C, 'vf_native.cpp'), '-o', exe]
        rc, out, dt, to = _sh(cmd, timeout=300)
        ent['exe'] = exe
        if rc != 0: ent['err'] = out[-2000:]
        return exe, ent.get('err')


def build_genc_native(work, cfile, entry):
    exe = cfile[:-2] + '_' + entry + '_gen'
    main = cfile[:-2] + '_' + entry + '_main.c'
    open(main, 'w').write('#include "%s"\nint main(){ %s(); fflush(stdout); return 0; }\n' % (cfile, entry))
    rc, out, dt, to = _sh(['gcc', '-O1', '-w', '-I', Q2C, main, '-o', exe, '-lm', '-lstdc++'], timeout=300)
    return exe, (out[-2000:] if rc != 0 else None)


def run_native(exe, tape_path, timeout=20, leaks=False):
    env = dict(os.environ); env['VF_TAPE'] = tape_path
    env['ASAN_OPTIONS'] = 'detect_leaks=%d:' % (1 if leaks else 0) + 'abort_on_error=0:exitcode=99:allocator_may_return_null=1'
    env['UBSAN_OPTIONS'] = 'halt_on_error=1:exitcode=98:print_stacktrace=0'
    rc, out, dt, to = _sh([exe], timeout=timeout, env=env)
    return rc, out, to


def replay(work, q, defs, entry, tape, kind):
    """replay a counterexample tape on the native twin; returns (confirmed, how, excerpt)"""
    tp = os.path.join(work.dir, 'tape_%s_%s.txt' % (q.name.replace('/', '_'), kind))
    write_tape(tp, tape)
    if isinstance(q.replay, (tuple, list)):
        # modular (stubbed) harness: lift the unit-level counterexample to the public API (real code, no stubs)
        exe, err = build_native(work, q, {k: v for k, v in defs.items() if not k.startswith('KF_')}, q.replay[1], harness=q.replay[0])
    else:
        exe, err = build_native(work, q, defs, entry)
    if err: return False, 'native build failed', err[-500:], tp
    rc, out, to = run_native(exe, tp, leaks=q.leak)
    if to: return True, 'timeout(nontermination)', out[-400:], tp
    if rc == 3 or 'VF_ASSERT_FAIL' in out: return True, 'assertion', out[-400:], tp
    if rc in (99,) or 'AddressSanitizer' in out or 'LeakSanitizer' in out: return True, 'asan', out[:1500], tp
    if rc in (98,) or 'runtime error' in out: return True, 'ubsan', out[:1000], tp
    if rc < 0: return True, 'signal %d' % (-rc), out[-400:], tp
    if rc == 77: return False, 'assumption false on replay', out[-300:], tp
    return False, 'no failure on replay (rc=%d)' % rc, out[-300:], tp


def selfcheck(work, q, defs, entry, seed, ntapes=40):
    """translator validation: generated C (gcc) vs direct C++ build on shared pseudo-random tapes"""
    key, ent = compile_ir(work, q, defs)
    if 'err' in ent: return {'ok': False, 'why': ent['err'][-300:]}
    cfile, loops, err = translate(work, key, ent, {})
    if err: return {'ok': False, 'why': err}
    sk = 'self_' + entry
    with ent['lock']:
        if sk in ent: return ent[sk]
    gexe, gerr = build_genc_native(work, cfile, entry)
    nexe, nerr = build_native(work, q, defs, entry, sanitize=False)
    if gerr or nerr:
        r = {'ok': False, 'why': 'build: ' + (gerr or nerr)[-400:]}
    else:
        rnd = random.Random(seed * 7919 + hash(entry) % 1000)
        diffs = 0; ran = 0; informative = 0
        for t in range(ntapes):
            tape = []
            for i in range(64):
                w = 64
                c = rnd.random()
                if c < 0.45: v = rnd.randrange(0, 9)
                elif c < 0.7: v = rnd.choice([34, 38, 39, 60, 62, 92, 123, 125, 58, 91, 93, 44, 48, 49, 57, 45, 46, 101, 0x7f, 0xff, 0xd800, 0xdc00, 0xffff])
                else: v = rnd.getrandbits(rnd.choice([8, 16, 32, 64]))
                tape.append((w, v))
            tp = os.path.join(work.dir, 'sc_%s_%s_%d.txt' % (key, entry, t))
            write_tape(tp, tape)
            r1 = run_native(gexe, tp, timeout=10); r2 = run_native(nexe, tp, timeout=10)
            ran += 1
            if r1[2] or r2[2]:
                if r1[2] != r2[2]: diffs += 1
                continue
            if (r1[0], r1[1]) != (r2[0], r2[1]):
                # crashes from genuine UB may differ in text; compare only exit class + observation log
                if r1[0] < 0 and r2[0] < 0: continue
                diffs += 1
                r_bad = (tp, r1[0], r2[0], r1[1][-200:], r2[1][-200:])
            if 'W' in r1[1].split('\n') or 'A ' in r1[1]: informative += 1
            os.unlink(tp)
        r = {'ok': diffs == 0, 'tapes': ran, 'informative': informative, 'diffs': diffs}
        if diffs: r['example'] = repr(r_bad)
    with ent['lock']:
        ent[sk] = r
    return r


def run_query(work, q, kf_open, seed=0, do_selfcheck=True):
    """returns result dict with verdict in PROVED / CEX / UNDECIDED"""
    t0 = time.time()
    defs = dict(q.defs)
    for k in q.kf_excl:
        if k in kf_open: defs['KF_EXCL_' + k.replace('-', '_')] = 1
    if q.kf_only: defs['KF_ONLY_' + q.kf_only.replace('-', '_')] = 1
    r = {'query': q.name, 'harness': q.harness, 'entry': q.entry, 'defs': {k: str(v) for k, v in defs.items()}, 'mode': q.mode,
         'backend': q.backend, 'stubs': q.stubs, 'kf_only': q.kf_only, 'kf_excl': [k for k in q.kf_excl if k in kf_open],
         'note': q.note, 'cflags': list(q.cflags), 'replay_spec': (list(q.replay) if isinstance(q.replay, (tuple, list)) else q.replay), 'leak': q.leak}
    def done(verdict, why=''):
        r['verdict'] = verdict; r['why'] = why; r['wall_s'] = round(time.time() - t0, 2)
        return r
    key, ent = compile_ir(work, q, defs)
    if 'err' in ent: return done('UNDECIDED', ent['err'][-1500:])
    cfile, loops, err = translate(work, key, ent, q.stubs, q.self_stubs, q.stubs_optional)
    if err: return done('UNDECIDED', err)
    skey = hashlib.sha1(repr((sorted(q.stubs.items()), sorted(q.self_stubs.items()))).encode()).hexdigest()[:8]
    items, ldesc = unwindset(work, cfile, q.entry, loops, q, ent.get('rec_' + skey), ())
    r['loops'] = ldesc
    backends = q.backend if isinstance(q.backend, (list, tuple)) else [q.backend]
    attempt = 0
    scale = 1
    while True:
        attempt += 1
        out = None
        if len(backends) == 1:
            rc, out, dt, to, cmd = run_cbmc(work, q, cfile, q.entry, items, backends[0], q.timeout)
            used = backends[0]
        else:
            # portfolio: first verdict wins
            results = {}
            procs = []
            ev = threading.Event()
            def runb(b):
                x = run_cbmc(work, q, cfile, q.entry, items, b, q.timeout)
                results[b] = x
                if 'VERIFICATION SUCCESSFUL' in x[1] or 'VERIFICATION FAILED' in x[1]: ev.set()
            ths = [threading.Thread(target=runb, args=(b,)) for b in backends]
            for t in ths: t.start()
            tend = time.time() + q.timeout + 5
            while time.time() < tend and not ev.is_set() and any(t.is_alive() for t in ths): time.sleep(0.2)
            if ev.is_set():
                subprocess.call(['pkill', '-9', '-f', cfile], stdout=subprocess.DEVNULL, stderr=subprocess.DEVNULL)
            for t in ths: t.join()
            used = None
            for b in backends:
                x = results.get(b)
                if x and ('VERIFICATION SUCCESSFUL' in x[1] or 'VERIFICATION FAILED' in x[1]):
                    rc, out, dt, to, cmd = x; used = b; break
            if used is None:
                rc, out, dt, to, cmd = results[backends[0]]; used = backends[0]
        r['backend_used'] = used; r['solver_s'] = round(dt, 2); r['cmd'] = ' '.join(cmd[:6]) + ' ...'
        m = re.search(r'(\d+) variables, (\d+) clauses', out)
        if m: r['sat_vars'] = int(m.group(1)); r['sat_clauses'] = int(m.group(2))
        if 'no body for' in out:
            nb = re.findall(r'no body for (?:function|callee) (\S+)', out)
            return done('UNDECIDED', 'no body for callee(s): %s' % sorted(set(nb))[:5])
        if to:
            if not getattr(q, '_assume', False):
                # plain assertions timed out: retry once as assert-then-assume (a path is followed only to its first failing harness assertion), which
                # decides queries on broken code whose post-failure state blows the formula up; verdicts are the same in both modes
                q._assume = True; r['assume_retry'] = True
                attempt -= 1
                continue
            return done('UNDECIDED', 'timeout %ds (%s), also as assert-then-assume' % (q.timeout, used))
        if 'VERIFICATION SUCCESSFUL' not in out and 'VERIFICATION FAILED' not in out:
            return done('UNDECIDED', 'tool error rc=%s: %s' % (rc, out[-600:]))
        if '(error' in out: return done('UNDECIDED', 'solver error line: ' + out[-400:])
        res = parse_results(out)
        r['properties'] = len(res)
        # cbmc reports properties located after a failed check on the same path as UNKNOWN (assert-then-assume):
        # only FAILURE entries are counterexamples; UNKNOWN without any FAILURE is undecided
        fails = [x for x in res if x['status'] == 'FAILURE']
        unknown = [x for x in res if x['status'] not in ('SUCCESS', 'FAILURE')]
        r['unknown_status'] = len(unknown)
        if unknown and not [x for x in fails if x['kind'] != 'witness']:
            return done('UNDECIDED', '%d properties with status %s and no FAILURE' % (len(unknown), unknown[0]['status']))
        wit = [x for x in res if x['kind'] == 'witness']
        r['witness_reachable'] = any(x['status'] == 'FAILURE' for x in wit) if wit else None
        real = [x for x in fails if x['kind'] != 'witness']
        unw = [x for x in real if x['kind'] == 'unwind']
        hard = [x for x in real if x['kind'] not in ('unwind',)]
        if not real:
            if not wit: return done('UNDECIDED', 'harness has no reachability witness')
            if not r['witness_reachable']:
                if q.vacuous_ok: return done('PROVED', 'steering twin: the steered-for state is unreachable')
                return done('UNDECIDED', 'vacuous: witness unreachable')
            if do_selfcheck:
                sc = selfcheck(work, q, defs, q.entry, seed)
                r['selfcheck'] = sc
                if not sc.get('ok'): return done('UNDECIDED', 'translator self-check failed: %s' % sc)
            return done('PROVED')
        # counterexample(s): get a trace for the most relevant failing property
        order = {'assert': 0, 'safety': 1, 'unreachable': 1, 'leak': 2, 'ptrrel': 3, 'unwind': 4, 'ptrovf': 5}
        real.sort(key=lambda x: order.get(x['kind'], 9))
        r['failed'] = [{'prop': x['prop'], 'desc': x['desc'], 'kind': x['kind']} for x in real[:12]]
        confirmed = None
        for x in real[:4]:
            rc2, out2, dt2, to2, _ = run_cbmc(work, q, cfile, q.entry, items, used, q.timeout, trace_prop=x['prop'])
            if 'Invalid User Input' in out2:   # unwinding assertions have no id before symex: trace everything
                rc2, out2, dt2, to2, _ = run_cbmc(work, q, cfile, q.entry, items, used, q.timeout, trace_prop='*')
            tape = extract_tape(out2, x['prop'])
            ids = re.findall(r'harness assertion (\d+)', x['desc'])
            if q.replay == 'none':
                r['tape'] = tape
                confirmed = (x, 'not replayed (modular/stubbed harness)', '', None); break
            ok, how, excerpt, tp = replay(work, q, defs, q.entry, tape, x['kind'])
            r.setdefault('replays', []).append({'prop': x['prop'], 'kind': x['kind'], 'confirmed': ok, 'how': how, 'excerpt': excerpt[-300:]})
            if ok:
                r['tape'] = tape; r['tape_path'] = tp
                confirmed = (x, how, excerpt, tp); break
            r['last_unconfirmed_tape'] = tape
        if confirmed:
            x = confirmed[0]
            ex = confirmed[2] or ''
            key = [l.strip() for l in ex.split('\n') if 'ERROR: AddressSanitizer' in l or 'runtime error' in l or 'VF_ASSERT_FAIL' in l or 'LeakSanitizer' in l]
            r['cex'] = {'prop': x['prop'], 'desc': x['desc'], 'kind': x['kind'], 'how': confirmed[1], 'native': key[:2]}
            return done('CEX', '%s: %s [native replay: %s%s]' % (x['prop'], x['desc'], confirmed[1], (': ' + key[0][:160]) if key else ''))
        if unw and not hard and attempt < 3:
            # bound too small for this code: retry with doubled bounds (never reported as success or violation)
            # only the loops whose unwinding assertion failed are raised (doubled)
            bad = set()
            for x in unw:
                m = re.match(r'(.*)\.unwind\.(\d+)$', x['prop'])
                if m: bad.add('%s.%s' % (m.group(1), m.group(2)))
            items = ['%s:%d' % (it.rsplit(':', 1)[0], int(it.rsplit(':', 1)[1]) * (2 if it.rsplit(':', 1)[0] in bad else 1)) for it in items]
            r['unwind_retry'] = sorted(bad)
            continue
        kinds = sorted(set(x['kind'] for x in real))
        if kinds == ['ptrovf']:
            r['ub_only'] = [x['desc'] for x in real[:5]]
            return done('UNDECIDED', 'pointer-overflow-only failure (forming an out-of-range pointer); not reproducible under sanitizers: ' + real[0]['desc'])
        return done('UNDECIDED', 'counterexample not confirmed by native replay: %s' % [(x['prop'], x['desc']) for x in real[:3]])


def load_kf():
    p = os.path.join(ROOT, 'known_findings.json')
    if not os.path.exists(p): return {}
    d = json.load(open(p))
    return {e['id']: e for e in d.get('findings', [])}


def run_property(pid, queries, meta, tier, seed, jobs=None, evidence_name=None):
    t0 = time.time()
    work = Work()
    kf = load_kf()
    kf_open = {k for k, e in kf.items() if e.get('status') == 'open' and e.get('property') == pid}
    # queries restricted to a known finding run only while that finding is open
    qs = [q for q in queries if (q.kf_only is None or q.kf_only in kf_open)]
    _seen = set(); _uniq = []
    for q in qs:                      # a spec that generates the same query twice must not race on the scratch files
        if q.name in _seen: continue
        _seen.add(q.name); _uniq.append(q)
    qs = _uniq
    jobs = jobs or int(os.environ.get('VERIF_JOBS', '0')) or max(1, (os.cpu_count() or 4) - 2)
    results = []
    try:
        with ThreadPoolExecutor(max_workers=jobs) as ex:
            futs = [ex.submit(run_query, work, q, kf_open, seed) for q in qs]
            for q, f in zip(qs, futs):
                try: results.append(f.result())
                except Exception as e:
                    results.append({'query': q.name, 'verdict': 'UNDECIDED', 'why': 'engine exception: %r' % e, 'kf_only': q.kf_only, 'wall_s': 0})
        violations = []; known = []; undecided = []; proved = []
        replay_dir = os.path.join(ROOT, 'evidence', 'replay'); os.makedirs(replay_dir, exist_ok=True)
        for r in results:
            v = r['verdict']
            if r.get('kf_only'):
                e = kf[r['kf_only']]
                if v == 'CEX': known.append((r, e))
                elif v == 'PROVED': r['kf_note'] = 'listed finding no longer reproduces within the bound'
                else: undecided.append(r)
                continue
            if v == 'PROVED': proved.append(r)
            elif v == 'CEX': violations.append(r)
            else: undecided.append(r)
        for r, e in known:
            print('KNOWN-FINDING: property=%s %s (%s; query %s: %s)' % (pid, e['id'], e['what'], r['query'], r['why']))
        for r in violations:
            dst = os.path.join(replay_dir, '%s_%s.tape' % (pid, re.sub(r'[^A-Za-z0-9_.-]', '_', r['query'])))
            if r.get('tape') is not None:
                with open(dst, 'w') as f:
                    f.write('# property=%s query=%s harness=%s entry=%s defs=%s\n' % (pid, r['query'], r['harness'], r['entry'], json.dumps(r['defs'])))
                    f.write('# meta=%s\n' % json.dumps({'harness': r['harness'], 'entry': r['entry'], 'defs': r['defs'], 'cflags': r.get('cflags', []),
                                                       'replay': r.get('replay_spec'), 'leak': r.get('leak', False)}))
                    f.write('# failed: %s\n' % r['why'])
                    for w, v in r['tape']: f.write('%d %d\n' % (w, v))
            print('VIOLATION property=%s replay=%s' % (pid, dst))
            print('  query=%s: %s' % (r['query'], r['why']))
        for r in undecided:
            print('UNDECIDED property=%s query=%s: %s' % (pid, r['query'], (r.get('why') or '')[:300].replace('\n', ' | ')))
        wall = time.time() - t0
        nontriv = len([r for r in results if r.get('witness_reachable')])
        samples = []
        for r in results[:400]:
            samples.append({'query': r['query'], 'entry': r.get('entry'), 'defs': r.get('defs'), 'verdict': r['verdict'],
                            'backend': r.get('backend_used'), 'solver_s': r.get('solver_s'), 'properties_checked': r.get('properties'),
                            'loops': [(l['src'], l['unwind']) for l in r.get('loops', [])][:40],
                            'why': (r.get('why') or '')[:300], 'tape': r.get('tape', None) if r['verdict'] == 'CEX' else r.get('last_unconfirmed_tape'), 'replays': r.get('replays'),
                            'selfcheck': r.get('selfcheck'), 'stubs': r.get('stubs') or None})
        ev = {
            'property_id': pid, 'tier': tier, 'seed': seed, 'level': 'model_checking',
            'coverage': {
                'evaluations': len(results),
                'distinct_nontrivial': nontriv,
                'rule': 'one evaluation = one bounded symbolic query (harness x instantiation x bound vector) decided by CBMC/SMT over the C '
                        'obtained from clang IR of the real headers; distinct = distinct (harness, entry, defines); non-trivial = its '
                        'reachability witness came back violated (the assertions are reachable, the assumptions satisfiable)',
                'samples': samples,
                'queries_proved': len(proved), 'queries_cex_new': len(violations), 'queries_known_finding': len(known),
                'queries_undecided': len(undecided),
                'undecided': [{'query': r['query'], 'why': (r.get('why') or '')[:400]} for r in undecided],
                'properties_discharged': sum(r.get('properties') or 0 for r in proved),
                'solver_seconds': round(sum(r.get('solver_s') or 0 for r in results), 1),
                'functions_encoded': meta.get('functions', []),
                'bounds': meta.get('bounds', ''),
                'outside_bounds': meta.get('outside', ''),
                'exhaustive': False,
            },
            'assumptions': meta.get('assumptions', []) + [
                'clang-14 -O1 lowering of the real headers (mode F): reads whose value is unused may have been removed by the optimiser',
                'll2c IR->C translation (validated on every run by the gcc-vs-native self-check on shared tapes)',
                'operator new never fails (--no-malloc-may-fail)', 'x86-64 data layout'],
            'wall_s': round(wall, 2),
            'violations': len(violations),
        }
        os.makedirs(os.path.join(ROOT, 'evidence'), exist_ok=True)
        with open(os.path.join(ROOT, 'evidence', (evidence_name or pid) + '.json'), 'w') as f:
            json.dump(ev, f, indent=1)
        print('%s tier=%s: %d queries: %d proved, %d known-finding, %d violation, %d undecided; %.0fs' %
              (pid, tier, len(results), len(proved), len(known), len(violations), len(undecided), wall))
        return 1 if violations else 0
    finally:
        work.cleanup()


def replay_file(pid, path):
    """./check <prop> --replay <tape>: rebuild the native twin of the recorded harness from /repo's current tree and run the tape"""
    meta = None; tape = []
    for l in open(path):
        if l.startswith('# meta='): meta = json.loads(l[len('# meta='):])
        elif l.startswith('#') or not l.strip(): continue
        else:
            w, v = l.split(); tape.append((int(w), int(v)))
    if meta is None:
        print('tape has no meta header'); return 2
    work = Work()
    try:
        q = Query('replay', meta['harness'], meta['entry'], meta['defs'], cflags=meta.get('cflags', []), leak=meta.get('leak', False),
                  replay=tuple(meta['replay']) if isinstance(meta.get('replay'), list) else 'direct')
        ok, how, excerpt, tp = replay(work, q, dict(meta['defs']), meta['entry'], tape, 'replay')
        print('replay of %s: %s (%s)' % (path, 'VIOLATION REPRODUCED' if ok else 'no failure', how))
        print(excerpt[:1500])
        if ok: print('VIOLATION property=%s replay=%s' % (pid, path))
        return 1 if ok else 0
    finally:
        work.cleanup()

#!/usr/bin/env python3
"""ll2c: translate a (clang-14, typed-pointer) LLVM IR module into C for CBMC.
Prototype. Every iN is an unsigned C integer; signed ops are done through casts.
"""
import re, sys, struct

TOK = re.compile(r'''
   (?P<ws>\s+)
 | (?P<str>c"(?:[^"\\]|\\[0-9A-Fa-f]{2}|\\\\)*")
 | (?P<qname>[%@]"(?:[^"\\]|\\.)*")
 | (?P<name>[%@][-a-zA-Z$._0-9]+)
 | (?P<meta>![-a-zA-Z$._0-9]*|!"[^"]*"|!\{)
 | (?P<attr>\#[0-9]+)
 | (?P<hexf>0x[KLMHR]?[0-9A-Fa-f]+)
 | (?P<num>-?[0-9]+\.[0-9]+(?:[eE][-+]?[0-9]+)?|-?[0-9]+)
 | (?P<qstr>"(?:[^"\\]|\\.)*")
 | (?P<ident>[a-zA-Z_][a-zA-Z0-9_.]*)
 | (?P<vopen><\{)
 | (?P<vclose>\}>)
 | (?P<dots>\.\.\.)
 | (?P<punct>[(){}\[\]<>,=*:])
''', re.X)

def lex(s):
    out = []
    i = 0
    n = len(s)
    while i < n:
        m = TOK.match(s, i)
        if not m:
            raise SyntaxError("lex error at: " + s[i:i+40])
        i = m.end()
        k = m.lastgroup
        if k == 'ws':
            continue
        out.append((k, m.group()))
    return out

# ---------------- types ----------------
class T:
    pass
class TInt(T):
    def __init__(s, bits): s.bits = bits
    def __repr__(s): return 'i%d' % s.bits
class TFloat(T):
    def __init__(s, kind): s.kind = kind
    def __repr__(s): return s.kind
class TVoid(T):
    def __repr__(s): return 'void'
class TPtr(T):
    def __init__(s, to): s.to = to
    def __repr__(s): return repr(s.to) + '*'
class TArr(T):
    def __init__(s, n, el): s.n = n; s.el = el
    def __repr__(s): return '[%d x %r]' % (s.n, s.el)
class TVec(T):
    def __init__(s, n, el): s.n = n; s.el = el
    def __repr__(s): return '<%d x %r>' % (s.n, s.el)
class TStruct(T):
    def __init__(s, fields, packed=False): s.fields = fields; s.packed = packed
    def __repr__(s): return '{' + ','.join(map(repr, s.fields)) + '}'
class TNamed(T):
    def __init__(s, name): s.name = name
    def __repr__(s): return s.name
class TFunc(T):
    def __init__(s, ret, params, varargs): s.ret = ret; s.params = params; s.varargs = varargs
    def __repr__(s): return '%r(%s)' % (s.ret, ','.join(map(repr, s.params)))
class TOpaque(T):
    def __repr__(s): return 'opaque'
class TLabel(T):
    def __repr__(s): return 'label'
class TMeta(T):
    def __repr__(s): return 'metadata'

PARAM_ATTRS = {'noundef','nonnull','nocapture','readonly','readnone','writeonly','zeroext','signext','noalias',
               'returned','immarg','inreg','nest','nofree','swiftself','swifterror','inalloca'}
PARAM_ATTRS_ARG = {'align','dereferenceable','dereferenceable_or_null'}
PARAM_ATTRS_TY = {'byval','sret','byref','preallocated','elementtype'}

class P:
    """token cursor"""
    def __init__(s, toks, mod): s.t = toks; s.i = 0; s.mod = mod
    def peek(s, k=0):
        return s.t[s.i+k] if s.i+k < len(s.t) else ('eof','')
    def next(s):
        x = s.peek(); s.i += 1; return x
    def accept(s, val):
        if s.peek()[1] == val:
            s.i += 1; return True
        return False
    def expect(s, val):
        if not s.accept(val):
            raise SyntaxError('expected %r got %r (...%s)' % (val, s.peek(), ' '.join(x[1] for x in s.t[max(0,s.i-6):s.i+4])))
    def eof(s): return s.i >= len(s.t)

    def ptype(s):
        k, v = s.next()
        if k == 'ident':
            if v == 'void': t = TVoid()
            elif re.fullmatch(r'i[0-9]+', v): t = TInt(int(v[1:]))
            elif v in ('float','double','half','x86_fp80','fp128','bfloat'): t = TFloat(v)
            elif v == 'opaque': t = TOpaque()
            elif v == 'label': t = TLabel()
            elif v == 'metadata': t = TMeta()
            elif v == 'ptr': t = TPtr(TInt(8))
            else: raise SyntaxError('type? ' + v)
        elif k in ('name','qname') and v[0] == '%':
            t = TNamed(v)
        elif v == '{':
            fs = []
            if not s.accept('}'):
                while True:
                    fs.append(s.ptype())
                    if s.accept('}'): break
                    s.expect(',')
            t = TStruct(fs)
        elif k == 'vopen':
            fs = []
            if not s.accept('}>'):
                while True:
                    fs.append(s.ptype())
                    if s.accept('}>'): break
                    s.expect(',')
            t = TStruct(fs, True)
        elif v == '[':
            n = int(s.next()[1]); s.expect('x'); el = s.ptype(); s.expect(']')
            t = TArr(n, el)
        elif v == '<':
            n = int(s.next()[1]); s.expect('x'); el = s.ptype(); s.expect('>')
            t = TVec(n, el)
        else:
            raise SyntaxError('type? %r' % v)
        while True:
            if s.accept('*'):
                t = TPtr(t)
            elif s.peek()[1] == '(' :
                # function type
                s.next()
                ps = []; va = False
                if not s.accept(')'):
                    while True:
                        if s.accept('...'):
                            va = True
                        else:
                            ps.append(s.ptype())
                            s.skip_param_attrs()
                        if s.accept(')'): break
                        s.expect(',')
                t = TFunc(t, ps, va)
            elif s.peek()[1] == 'addrspace':
                s.next(); s.expect('('); s.next(); s.expect(')')
            else:
                break
        return t

    def skip_param_attrs(s):
        while True:
            k, v = s.peek()
            if k == 'ident' and v in PARAM_ATTRS:
                s.next()
            elif k == 'ident' and v in PARAM_ATTRS_ARG:
                s.next()
                if s.accept('('):
                    s.next(); s.expect(')')
                else:
                    s.next()
            elif k == 'ident' and v in PARAM_ATTRS_TY:
                s.next()
                if s.accept('('):
                    s.ptype(); s.expect(')')
            else:
                break

    # ---- values ----  returns ('kind', ...)
    def pvalue(s, ty):
        k, v = s.next()
        if k == 'name' or k == 'qname':
            return ('local' if v[0] == '%' else 'global', v)
        if k == 'num':
            if isinstance(ty, TFloat):
                return ('fconst', float(v))
            return ('int', int(v))
        if k == 'hexf':
            h = v[2:]
            if h[0] in 'KLMHR':
                raise SyntaxError('unsupported float const ' + v)
            bits = int(h, 16)
            d = struct.unpack('<d', struct.pack('<Q', bits))[0]
            return ('fbits', bits, d)
        if k == 'ident':
            if v == 'true': return ('int', 1)
            if v == 'false': return ('int', 0)
            if v == 'null': return ('null',)
            if v in ('undef', 'poison'): return ('undef',)
            if v == 'zeroinitializer': return ('zero',)
            if v in ('getelementptr',):
                inb = s.accept('inbounds')
                s.expect('(')
                bt = s.ptype(); s.expect(',')
                pt = s.ptype(); pv = s.pvalue(pt)
                idx = []
                while s.accept(','):
                    s.accept('inrange')
                    it = s.ptype(); iv = s.pvalue(it)
                    idx.append((it, iv))
                s.expect(')')
                return ('cgep', bt, pt, pv, idx)
            if v in ('bitcast','inttoptr','ptrtoint','trunc','zext','sext','addrspacecast'):
                s.expect('(')
                ft = s.ptype(); fv = s.pvalue(ft); s.expect('to'); tt = s.ptype(); s.expect(')')
                return ('ccast', v, ft, fv, tt)
            if v in ('add','sub','mul','and','or','xor','shl','lshr','ashr'):
                while s.peek()[1] in ('nuw','nsw','exact'): s.next()
                s.expect('(')
                t1 = s.ptype(); v1 = s.pvalue(t1); s.expect(',')
                t2 = s.ptype(); v2 = s.pvalue(t2); s.expect(')')
                return ('cbin', v, t1, v1, v2)
            raise SyntaxError('value? ' + v)
        if k == 'str':
            return ('cstr', decode_cstr(v))
        if v == '{' or k == 'vopen':
            close = '}' if v == '{' else '}>'
            items = []
            if not s.accept(close):
                while True:
                    it = s.ptype(); iv = s.pvalue(it); items.append((it, iv))
                    if s.accept(close): break
                    s.expect(',')
            return ('cagg', items)
        if v == '[':
            items = []
            if not s.accept(']'):
                while True:
                    it = s.ptype(); iv = s.pvalue(it); items.append((it, iv))
                    if s.accept(']'): break
                    s.expect(',')
            return ('cagg', items)
        if v == '<':
            items = []
            while True:
                it = s.ptype(); iv = s.pvalue(it); items.append((it, iv))
                if s.accept('>'): break
                s.expect(',')
            return ('cagg', items)
        raise SyntaxError('value? %r %r' % (k, v))

def decode_cstr(v):
    body = v[2:-1]
    out = bytearray()
    i = 0
    while i < len(body):
        c = body[i]
        if c == '\\':
            if body[i+1] == '\\':
                out.append(92); i += 2
            else:
                out.append(int(body[i+1:i+3], 16)); i += 3
        else:
            out.append(ord(c)); i += 1
    return bytes(out)

# ---------------- module ----------------
class Func:
    def __init__(s): s.name=None; s.ret=None; s.params=[]; s.blocks=[]; s.varargs=False; s.defined=False
class Global:
    def __init__(s): s.name=None; s.ty=None; s.init=None; s.const=False; s.external=False

class Module:
    def __init__(s):
        s.types = {}      # name -> T
        s.globals = {}
        s.funcs = {}
        s.order = []
        s.meta = {}

LINKAGE = {'private','internal','available_externally','linkonce','weak','common','appending','extern_weak',
           'linkonce_odr','weak_odr','external','dso_local','dso_preemptable','hidden','protected','default',
           'unnamed_addr','local_unnamed_addr','thread_local','externally_initialized'}

def strip_comment(line):
    # remove ; comments not inside quotes
    inq = False
    for i, ch in enumerate(line):
        if ch == '"': inq = not inq
        elif ch == ';' and not inq:
            return line[:i]
    return line

def parse_module(text):
    mod = Module()
    lines = text.split('\n')
    i = 0
    while i < len(lines):
        line = strip_comment(lines[i]).rstrip()
        i += 1
        if not line.strip():
            continue
        if line.startswith('!'):
            mm = re.match(r'^!(\d+) = (.*)$', line)
            if mm: mod.meta[int(mm.group(1))] = mm.group(2)
            continue
        if line.startswith(('source_filename', 'target ', 'attributes ', '$')):
            continue
        if line.startswith('%') and ' = type ' in line:
            toks = lex(line)
            p = P(toks, mod)
            name = p.next()[1]; p.expect('='); p.expect('type')
            mod.types[name] = p.ptype()
            continue
        if line.startswith('@'):
            parse_global(mod, line)
            continue
        if line.startswith('declare'):
            parse_func_header(mod, line, False)
            continue
        if line.startswith('define'):
            f = parse_func_header(mod, line, True)
            body = []
            while True:
                l = strip_comment(lines[i]).rstrip(); i += 1
                if l == '}':
                    break
                body.append(l)
            parse_body(mod, f, body)
            continue
        raise SyntaxError('toplevel? ' + line)
    return mod

def parse_global(mod, line):
    toks = lex(line)
    p = P(toks, mod)
    g = Global()
    g.name = p.next()[1]; p.expect('=')
    ext = False
    while p.peek()[0] == 'ident' and (p.peek()[1] in LINKAGE):
        if p.peek()[1] in ('external', 'extern_weak'): ext = True
        p.next()
        if p.peek()[1] == '(':  # thread_local(...)
            while p.next()[1] != ')': pass
    if p.peek()[1] == 'alias':
        raise SyntaxError('alias unsupported')
    kind = p.next()[1]
    assert kind in ('global', 'constant'), line
    g.const = (kind == 'constant')
    g.ty = p.ptype()
    g.external = ext
    if not ext:
        g.init = p.pvalue(g.ty)
    mod.globals[g.name] = g
    mod.order.append(('g', g.name))

FN_ATTR_WORDS = None
def parse_func_header(mod, line, defined):
    _fd = re.search(r'!dbg !(\d+)', line)
    line = re.sub(r'![A-Za-z_.]+ !\d+', '', line)
    toks = lex(line)
    p = P(toks, mod)
    p.next()  # define/declare
    while p.peek()[0] == 'ident' and (p.peek()[1] in LINKAGE or p.peek()[1] in PARAM_ATTRS or p.peek()[1] in ('fastcc','ccc','coldcc')):
        p.next()
    p.skip_param_attrs()
    f = Func()
    # return type: parse carefully since '(' follows the name not the type
    f.ret = parse_type_nofunc(p)
    f.name = p.next()[1]
    p.expect('(')
    if not p.accept(')'):
        while True:
            if p.accept('...'):
                f.varargs = True
            else:
                t = p.ptype()
                p.skip_param_attrs()
                nm = None
                if p.peek()[0] in ('name', 'qname') and p.peek()[1][0] == '%':
                    nm = p.next()[1]
                f.params.append((t, nm))
            if p.accept(')'): break
            p.expect(',')
    f.defined = defined
    f.dbg = int(_fd.group(1)) if _fd else None
    if f.name in mod.funcs and mod.funcs[f.name].defined:
        return mod.funcs[f.name]
    mod.funcs[f.name] = f
    if defined:
        mod.order.append(('f', f.name))
    return f

def parse_type_nofunc(p):
    """parse a type but stop before '@name(' (function header)."""
    # temporarily parse; function-pointer return types are rare; handle the common case
    save = p.i
    t = p.ptype_nf() if hasattr(p, 'ptype_nf') else None
    return t

def _ptype_nf(s):
    # like ptype but does not treat '(' as function type unless followed by ... ')' '*'
    k, v = s.peek()
    # parse base via ptype on a limited view: emulate by parsing and checking
    start = s.i
    t = None
    k, v = s.next()
    if k == 'ident':
        if v == 'void': t = TVoid()
        elif re.fullmatch(r'i[0-9]+', v): t = TInt(int(v[1:]))
        elif v in ('float','double','half','x86_fp80','fp128'): t = TFloat(v)
        else: raise SyntaxError('ret type? ' + v)
    elif k in ('name','qname'):
        t = TNamed(v)
    elif v == '{' or k == 'vopen' or v == '[' or v == '<':
        s.i = start
        # aggregates can't be followed by '(' directly in headers, safe to use ptype w/o suffix handling
        t = s.ptype()
        return t
    while s.accept('*'):
        t = TPtr(t)
    return t
P.ptype_nf = _ptype_nf

class Ins:
    def __init__(s, **kw): s.__dict__.update(kw)

def parse_body(mod, f, body):
    # number unnamed params
    cnt = 0
    newparams = []
    for (t, nm) in f.params:
        if nm is None:
            nm = '%' + str(cnt); cnt += 1
        elif re.fullmatch(r'%[0-9]+', nm):
            cnt = int(nm[1:]) + 1
        newparams.append((t, nm))
    f.params = newparams
    blocks = []
    cur = None
    first_label = '%' + str(cnt)
    joined = []
    acc = None
    for l in body:
        if acc is not None:
            acc += ' ' + l.strip()
            if l.strip().startswith(']'):
                joined.append(acc); acc = None
            continue
        if l.strip().startswith('switch ') and not l.rstrip().endswith(']'):
            acc = l
            continue
        joined.append(l)
    for l in joined:
        if not l.strip():
            continue
        m = re.match(r'^([-a-zA-Z$._0-9]+|"[^"]*"):', l)
        if m and not l.startswith(' '):
            cur = (('%' + m.group(1)), [])
            blocks.append(cur)
            continue
        if cur is None:
            cur = (first_label, [])
            blocks.append(cur)
        cur[1].append(parse_ins(mod, l.strip()))
    f.blocks = blocks

def drop_meta(toks):
    # cut trailing ', !tbaa !8' etc and ', align N' handled by parser
    out = []
    i = 0
    while i < len(toks):
        k, v = toks[i]
        if k == 'meta' and i > 0 and toks[i-1][1] == ',':
            out.pop()
            # skip meta name and its argument
            i += 2
            continue
        out.append(toks[i]); i += 1
    return out

BINOPS = {'add','sub','mul','udiv','sdiv','urem','srem','shl','lshr','ashr','and','or','xor','fadd','fsub','fmul','fdiv','frem'}
CASTS = {'trunc','zext','sext','fptrunc','fpext','fptoui','fptosi','uitofp','sitofp','ptrtoint','inttoptr','bitcast','addrspacecast'}
FMF = {'fast','nnan','ninf','nsz','arcp','contract','afn','reassoc'}

def parse_ins(mod, l):
    if 'llvm.experimental.noalias.scope.decl' in l or '@llvm.dbg.' in l:
        return Ins(op='nop', dst=None, dbg=None, loopmd=None)
    _dbg = re.search(r'!dbg !(\d+)', l); _lp = re.search(r'!llvm\.loop !(\d+)', l)
    ins = _parse_ins(mod, l)
    ins.dbg = int(_dbg.group(1)) if _dbg else None
    ins.loopmd = int(_lp.group(1)) if _lp else None
    return ins

def _parse_ins(mod, l):
    toks = drop_meta(lex(l))
    p = P(toks, mod)
    dst = None
    if p.peek(1)[1] == '=' and p.peek()[0] in ('name','qname'):
        dst = p.next()[1]; p.next()
    op = p.next()[1]
    if op in ('tail','musttail','notail'):
        op = p.next()[1]
    if op in BINOPS:
        while p.peek()[1] in ('nuw','nsw','exact') or p.peek()[1] in FMF:
            p.next()
        t = p.ptype(); a = p.pvalue(t); p.expect(','); b = p.pvalue(t)
        return Ins(op='bin', bop=op, dst=dst, ty=t, a=a, b=b)
    if op == 'fneg':
        while p.peek()[1] in FMF: p.next()
        t = p.ptype(); a = p.pvalue(t)
        return Ins(op='fneg', dst=dst, ty=t, a=a)
    if op in ('icmp','fcmp'):
        while p.peek()[1] in FMF: p.next()
        pred = p.next()[1]
        t = p.ptype(); a = p.pvalue(t); p.expect(','); b = p.pvalue(t)
        return Ins(op=op, pred=pred, dst=dst, ty=t, a=a, b=b)
    if op in CASTS:
        ft = p.ptype(); v = p.pvalue(ft); p.expect('to'); tt = p.ptype()
        return Ins(op='cast', cop=op, dst=dst, fty=ft, v=v, ty=tt)
    if op == 'select':
        while p.peek()[1] in FMF: p.next()
        ct = p.ptype(); c = p.pvalue(ct); p.expect(',')
        t = p.ptype(); a = p.pvalue(t); p.expect(',')
        t2 = p.ptype(); b = p.pvalue(t2)
        return Ins(op='select', dst=dst, cty=ct, c=c, ty=t, a=a, b=b)
    if op == 'freeze':
        t = p.ptype(); a = p.pvalue(t)
        return Ins(op='freeze', dst=dst, ty=t, a=a)
    if op == 'phi':
        while p.peek()[1] in FMF: p.next()
        t = p.ptype()
        inc = []
        while True:
            p.expect('['); v = p.pvalue(t); p.expect(','); lb = p.next()[1]; p.expect(']')
            inc.append((v, lb))
            if not p.accept(','): break
        return Ins(op='phi', dst=dst, ty=t, inc=inc)
    if op == 'alloca':
        p.accept('inalloca')
        t = p.ptype()
        n = None
        while p.accept(','):
            if p.accept('align'):
                p.next()
            else:
                nt = p.ptype(); n = (nt, p.pvalue(nt))
        return Ins(op='alloca', dst=dst, aty=t, n=n, ty=TPtr(t))
    if op == 'load':
        p.accept('volatile'); p.accept('atomic')
        t = p.ptype(); p.expect(','); pt = p.ptype(); pv = p.pvalue(pt)
        return Ins(op='load', dst=dst, ty=t, pty=pt, p=pv)
    if op == 'store':
        p.accept('volatile'); p.accept('atomic')
        t = p.ptype(); v = p.pvalue(t); p.expect(','); pt = p.ptype(); pv = p.pvalue(pt)
        return Ins(op='store', dst=None, ty=t, v=v, pty=pt, p=pv)
    if op == 'getelementptr':
        p.accept('inbounds')
        bt = p.ptype(); p.expect(',')
        pt = p.ptype(); pv = p.pvalue(pt)
        idx = []
        while p.accept(','):
            it = p.ptype(); iv = p.pvalue(it); idx.append((it, iv))
        return Ins(op='gep', dst=dst, bty=bt, pty=pt, p=pv, idx=idx)
    if op == 'extractvalue':
        t = p.ptype(); a = p.pvalue(t); idx = []
        while p.accept(','):
            idx.append(int(p.next()[1]))
        return Ins(op='extractvalue', dst=dst, aty=t, a=a, idx=idx)
    if op == 'insertvalue':
        t = p.ptype(); a = p.pvalue(t); p.expect(',')
        et = p.ptype(); e = p.pvalue(et); idx = []
        while p.accept(','):
            idx.append(int(p.next()[1]))
        return Ins(op='insertvalue', dst=dst, ty=t, a=a, ety=et, e=e, idx=idx)
    if op in ('extractelement',):
        t = p.ptype(); a = p.pvalue(t); p.expect(','); it = p.ptype(); iv = p.pvalue(it)
        return Ins(op='extractelement', dst=dst, aty=t, a=a, i=iv)
    if op in ('insertelement',):
        t = p.ptype(); a = p.pvalue(t); p.expect(','); et = p.ptype(); e = p.pvalue(et); p.expect(','); it = p.ptype(); iv = p.pvalue(it)
        return Ins(op='insertelement', dst=dst, ty=t, a=a, e=e, i=iv)
    if op == 'call':
        while p.peek()[1] in FMF or p.peek()[1] in ('fastcc','ccc'): p.next()
        p.skip_param_attrs()
        rt = p.ptype()   # may be a function type for varargs: T (...)*
        callee = p.pvalue(rt)
        p.expect('(')
        args = []
        if not p.accept(')'):
            while True:
                at = p.ptype(); p.skip_param_attrs(); av = p.pvalue(at)
                args.append((at, av))
                if p.accept(')'): break
                p.expect(',')
        fty = None
        if isinstance(rt, TPtr) and isinstance(rt.to, TFunc):
            fty = rt.to; rt = fty.ret
        return Ins(op='call', dst=dst, ty=rt, callee=callee, args=args, fty=fty)
    if op == 'ret':
        t = p.ptype()
        if isinstance(t, TVoid):
            return Ins(op='ret', dst=None, ty=t, v=None)
        return Ins(op='ret', dst=None, ty=t, v=p.pvalue(t))
    if op == 'br':
        if p.accept('label'):
            return Ins(op='br', dst=None, c=None, t=p.next()[1], f=None)
        ct = p.ptype(); c = p.pvalue(ct); p.expect(','); p.expect('label'); t = p.next()[1]; p.expect(','); p.expect('label'); fl = p.next()[1]
        return Ins(op='br', dst=None, c=c, t=t, f=fl)
    if op == 'switch':
        t = p.ptype(); v = p.pvalue(t); p.expect(','); p.expect('label'); d = p.next()[1]; p.expect('[')
        cases = []
        while not p.accept(']'):
            ct = p.ptype(); cv = p.pvalue(ct); p.expect(','); p.expect('label'); lb = p.next()[1]
            cases.append((cv, lb))
        return Ins(op='switch', dst=None, ty=t, v=v, d=d, cases=cases)
    if op == 'unreachable':
        return Ins(op='unreachable', dst=None)
    raise SyntaxError('instruction? ' + l)

# ---------------- C emission ----------------
class Emitter:
    def __init__(s, mod, opts=None):
        s.mod = mod
        s.opts = opts or {}
        s.typedefs = []      # C text in order
        s.tnames = {}        # key -> C name
        s.struct_done = set()
        s.helpers = set()
        s.out = []
        s.loops = []

    def resolve(s, t):
        while isinstance(t, TNamed):
            t = s.mod.types[t.name]
        return t

    # ---- layout (x86-64) ----
    def sizeof(s, t):
        t = s.resolve(t)
        if isinstance(t, TInt):
            b = (t.bits + 7)//8
            p = 1
            while p < b: p *= 2
            return p
        if isinstance(t, TFloat): return {'float':4,'double':8,'half':2,'x86_fp80':16,'fp128':16}[t.kind]
        if isinstance(t, TPtr): return 8
        if isinstance(t, TArr): return t.n * s.sizeof(t.el)
        if isinstance(t, TVec): return t.n * s.sizeof(t.el)
        if isinstance(t, TStruct):
            off = 0; al = 1
            for f in t.fields:
                a = 1 if t.packed else s.alignof(f)
                al = max(al, a)
                off = (off + a - 1)//a*a
                off += s.sizeof(f)
            return (off + al - 1)//al*al
        raise Exception('sizeof ' + repr(t))
    def alignof(s, t):
        t = s.resolve(t)
        if isinstance(t, TInt): return min(s.sizeof(t), 8) if t.bits <= 64 else 16
        if isinstance(t, TFloat): return s.sizeof(t)
        if isinstance(t, TPtr): return 8
        if isinstance(t, TArr): return s.alignof(t.el)
        if isinstance(t, TVec): return s.sizeof(t)
        if isinstance(t, TStruct):
            if t.packed: return 1
            return max([s.alignof(f) for f in t.fields] + [1])
        raise Exception('alignof ' + repr(t))

    def mangle(s, name):
        n = name[1:]
        if n.startswith('"'): n = n[1:-1]
        return re.sub(r'[^A-Za-z0-9_]', lambda m: '_%02x' % ord(m.group()), n)

    def ctype(s, t):
        """C type name for an LLVM type (first-class)."""
        if isinstance(t, TNamed):
            rt = s.mod.types[t.name]
            if isinstance(rt, TOpaque):
                return 'struct S_' + s.mangle(t.name)
            key = 'named:' + t.name
            if key not in s.tnames:
                cn = 'struct S_' + s.mangle(t.name)
                s.tnames[key] = cn
                s.typedefs.append(('fwd', cn))
                s.emit_struct(cn, rt, union=s.is_union(t))
            return s.tnames[key]
        if isinstance(t, TInt):
            if t.bits == 1: return 'u1'
            if t.bits <= 8: return 'u8'
            if t.bits <= 16: return 'u16'
            if t.bits <= 32: return 'u32'
            if t.bits <= 64: return 'u64'
            if t.bits <= 128: return 'u128'
            raise Exception('int width %d' % t.bits)
        if isinstance(t, TFloat):
            return {'float':'float','double':'double'}[t.kind]
        if isinstance(t, TVoid): return 'void'
        if isinstance(t, TPtr):
            to = t.to
            if isinstance(s.resolve(to) if not isinstance(to, TNamed) else to, TFunc) or isinstance(to, TFunc):
                return s.fptr_type(to)
            if isinstance(to, TVoid): return 'void*'
            return s.ctype(to) + '*'
        if isinstance(t, (TArr, TVec, TStruct)):
            key = repr(t) + ('P' if isinstance(t, TStruct) and t.packed else '')
            if key not in s.tnames:
                cn = 'struct A%d' % len(s.tnames)
                s.tnames[key] = cn
                s.typedefs.append(('fwd', cn))
                s.emit_struct(cn, t)
            return s.tnames[key]
        if isinstance(t, TFunc):
            return s.fptr_type(t)
        raise Exception('ctype ' + repr(t))

    def fptr_type(s, ft):
        key = 'fn:' + repr(ft)
        if key not in s.tnames:
            cn = 'FN%d' % len(s.tnames)
            s.tnames[key] = cn
            ps = ', '.join(s.ctype(p) for p in ft.params) or 'void'
            if ft.varargs: ps += ', ...'
            s.typedefs.append(('raw', 'typedef %s (*%s)(%s);' % (s.ctype(ft.ret), cn, ps)))
        return s.tnames[key]

    def is_union(s, t):
        return isinstance(t, TNamed) and ('union.' in t.name) and isinstance(s.mod.types.get(t.name), TStruct)

    def field_offset(s, st, i):
        off = 0
        for k, f in enumerate(st.fields):
            a = 1 if st.packed else s.alignof(f)
            off = (off + a - 1)//a*a
            if k == i: return off
            off += s.sizeof(f)
        raise Exception('field_offset')

    def emit_struct(s, cn, t, union=False):
        t = s.resolve(t)
        if union:
            # C++ unions: LLVM types them by one member (often a pointer-carrying struct) and reaches the others through
            # bitcasts.  cbmc 6.11's simplifier mis-evaluates integer constants that travel through pointer-typed storage
            # (sign tests fold to true), so union storage is emitted as an untyped word blob and every access is a cast.
            # a BYTE array: cbmc folds byte_extract over byte-array storage back to the stored constants, whereas two u32 halves written
            # into a never fully assigned u64 word stay symbolic (index_/capacity_ of a moved container became symbolic and exploded)
            al = s.alignof(t); sz = s.sizeof(t)
            s.typedefs.append(('def', cn, '%s { u8 w[%d]; } __attribute__((aligned(%d)));' % (cn, max(sz, 1), al)))
            return
        if isinstance(t, (TArr, TVec)):
            # make sure element type is complete first
            el = s.ctype(t.el)
            s.complete(t.el)
            s.typedefs.append(('def', cn, '%s { %s a[%d]; }%s;' % (cn, el, max(t.n, 1), '')))
        elif isinstance(t, TStruct):
            fs = []
            for i, f in enumerate(t.fields):
                ct = s.ctype(f)
                s.complete(f)
                fs.append('%s f%d;' % (ct, i))
            if not fs: fs = ['u8 empty_;']
            attr = ' __attribute__((packed))' if t.packed else ''
            s.typedefs.append(('def', cn, '%s { %s }%s;' % (cn, ' '.join(fs), attr)))
        else:
            raise Exception('emit_struct ' + repr(t))

    def complete(s, t):
        # force definition emission of by-value members (already done by ctype recursion order)
        pass

    # ---- values ----
    def cval(s, v, t, fn=None):
        k = v[0]
        if k == 'local':
            return fn.lname(v[1])
        if k == 'global':
            if v[1] in s.mod.funcs:
                return '(&' + s.gname(v[1]) + ')' if False else s.gname(v[1])
            return '(&' + s.gname(v[1]) + ')'
        if k == 'int':
            rt = s.resolve(t)
            bits = rt.bits
            val = v[1] & ((1 << bits) - 1)
            if bits > 64:
                hi = val >> 64; lo = val & ((1<<64)-1)
                return '((((u128)%dULL)<<64)|%dULL)' % (hi, lo)
            return '((%s)%dULL)' % (s.ctype(rt), val)
        if k == 'null':
            return '((%s)0)' % s.ctype(t)
        if k == 'undef' or k == 'zero':
            rt = s.resolve(t)
            if isinstance(rt, (TInt,)): return '((%s)0)' % s.ctype(rt)
            if isinstance(rt, TFloat): return '0.0'
            if isinstance(rt, TPtr): return '((%s)0)' % s.ctype(t)
            return '((%s){0})' % s.ctype(t)
        if k == 'fconst':
            return repr(v[1]) if s.resolve(t).kind == 'double' else repr(v[1]) + 'f'
        if k == 'fbits':
            d = v[2]
            if d != d: return '(0.0/0.0)'
            if d in (float('inf'), float('-inf')): return '(%s1.0/0.0)' % ('-' if d < 0 else '')
            x = d.hex()
            return '(%s)' % x if s.resolve(t).kind == 'double' else '((float)%s)' % x
        if k == 'cgep':
            _, bt, pt, pv, idx = v
            return s.gep_expr(bt, pt, s.cval(pv, pt, fn), [(it, s.cval(iv, it, fn), iv) for it, iv in idx])[0]
        if k == 'ccast':
            _, cop, ft, fv, tt = v
            return s.cast_expr(cop, ft, s.cval(fv, ft, fn), tt)
        if k == 'cbin':
            _, bop, t1, v1, v2 = v
            return s.bin_expr(bop, t1, s.cval(v1, t1, fn), s.cval(v2, t1, fn))
        if k == 'cstr' or k == 'cagg':
            return '((%s)%s)' % (s.ctype(t), s.cinit(v, t))
        raise Exception('cval ' + repr(v))

    def cinit(s, v, t):
        """C initializer (brace form) for constant v of type t."""
        rt = s.resolve(t)
        k = v[0]
        if k == 'cstr':
            bs = v[1]
            return '{{' + ','.join(str(b) for b in bs) + '}}'
        if k == 'zero' or k == 'undef':
            if isinstance(rt, (TInt, TFloat, TPtr)): return '0'
            return '{0}'
        if k == 'cagg':
            items = v[1]
            if isinstance(rt, (TArr, TVec)):
                return '{{' + ','.join(s.cinit(iv, it) for it, iv in items) + '}}'
            return '{' + ','.join(s.cinit(iv, it) for it, iv in items) + '}'
        return s.cval(v, t, None)

    def gname(s, name):
        n = name[1:]
        if n.startswith('"'): n = n[1:-1]
        if n.startswith('llvm.'):
            return 'llvm_' + re.sub(r'[^A-Za-z0-9_]', '_', n[5:])
        if re.fullmatch(r'[A-Za-z_][A-Za-z0-9_]*', n):
            return n
        return 'g_' + s.mangle(name)

    def gep_expr(s, bt, pt, base, idx):
        """returns (expr, resulting pointee type)"""
        # first index: pointer arithmetic on bt
        cur = bt
        i0t, i0, i0v = idx[0]
        e = base
        if not (i0v[0] == 'int' and i0v[1] == 0):
            e = '(%s + (i64)%s)' % (e, s.sx(i0, i0t))
        path = ''
        for (it, ie, iv) in idx[1:]:
            rc = s.resolve(cur)
            if s.is_union(cur):
                assert iv[0] == 'int'
                if path:
                    e = '(&(*%s)%s)' % (e, path); path = ''
                ft = rc.fields[iv[1]]
                e = '((%s*)((u8*)%s + %d))' % (s.ctype(ft), e, s.field_offset(rc, iv[1]))
                cur = ft
                continue
            if isinstance(rc, TStruct):
                assert iv[0] == 'int'
                path += '.f%d' % iv[1]
                cur = rc.fields[iv[1]]
            elif isinstance(rc, (TArr, TVec)):
                path += '.a[(i64)%s]' % s.sx(ie, it)
                cur = rc.el
            else:
                raise Exception('gep into ' + repr(rc))
        if path:
            e = '(&(*%s)%s)' % (e, path)
        return e, cur

    def sx(s, e, t):
        """sign-extended (as C signed 64) view of integer expr e of LLVM type t"""
        rt = s.resolve(t)
        b = rt.bits
        if b == 64: return '(i64)%s' % e
        if b == 32: return '(i64)(i32)%s' % e
        if b == 16: return '(i64)(i16)%s' % e
        if b == 8: return '(i64)(i8)%s' % e
        if b == 1: return '(i64)(-(i64)%s)' % e
        if b < 64: return '((i64)((i64)((u64)%s << %d) >> %d))' % (e, 64 - b, 64 - b)
        raise Exception('sx width %d' % b)

    def signed(s, e, t):
        rt = s.resolve(t)
        b = rt.bits
        if b == 1: return '(i8)(-(i8)%s)' % e
        return '(%s)%s' % ({8:'i8',16:'i16',32:'i32',64:'i64',128:'i128'}[s.cbits(b)], s.sext_to_c(e, b))

    def cbits(s, b):
        for w in (8,16,32,64,128):
            if b <= w: return w
        raise Exception('bits')

    def sext_to_c(s, e, b):
        w = s.cbits(b)
        if w == b: return e
        # odd width: shift up and arithmetic shift down
        return '((i%d)((i%d)((u%d)%s << %d) >> %d))' % (w, w, w, e, w - b, w - b)

    def mask(s, e, t):
        rt = s.resolve(t)
        if isinstance(rt, TInt):
            b = rt.bits
            if b == 1: return '((u1)((%s)&1))' % e
            w = s.cbits(b)
            if w != b:
                return '((%s)((%s) & ((((%s)1)<<%d)-1)))' % (s.ctype(rt), e, s.ctype(rt), b)
            return '((%s)(%s))' % (s.ctype(rt), e)
        return e

    def bin_expr(s, bop, t, a, b):
        rt = s.resolve(t)
        if isinstance(rt, TVec):
            raise Exception('vector binop unsupported')
        if isinstance(rt, TFloat):
            o = {'fadd':'+','fsub':'-','fmul':'*','fdiv':'/'}.get(bop)
            if o: return '(%s %s %s)' % (a, o, b)
            if bop == 'frem':
                return 'fmod(%s,%s)' % (a, b)
        ct = s.ctype(rt)
        big = 'u64' if rt.bits <= 64 else 'u128'
        if bop in ('add','sub','mul','and','or','xor'):
            o = {'add':'+','sub':'-','mul':'*','and':'&','or':'|','xor':'^'}[bop]
            return s.mask('((%s)%s %s (%s)%s)' % (big, a, o, big, b), t)
        if bop in ('udiv','urem'):
            o = '/' if bop == 'udiv' else '%'
            return s.mask('((%s)%s %s (%s)%s)' % (big, a, o, big, b), t)
        if bop in ('sdiv','srem'):
            o = '/' if bop == 'sdiv' else '%'
            fn = 'vf_sdiv' if bop == 'sdiv' else 'vf_srem'
            # CBMC flags INT_MIN/-1 as overflow; keep it in signed C arithmetic at 64 bits
            if rt.bits > 64:
                return s.mask('((u128)((i128)%s %s (i128)%s))' % (a, o, b), t)
            return s.mask('((u64)(%s %s %s))' % (s.sx(a, t), o, s.sx(b, t)), t)
        if bop == 'shl':
            return s.mask('((%s)%s << %s)' % (ct, a, b), t) if s.cbits(rt.bits) >= 32 else s.mask('vf_shl%d(%s,%s)' % (s.cbits(rt.bits), a, b), t)
        if bop == 'lshr' and re.fullmatch(r'\(\((u\d+|u1)\)\d+ULL\)', a):
            # constant >> x: clang's switch lowering to a bit-mask test executes the shift speculatively (the result is unused when
            # x is out of range; poison in LLVM, not UB), so the C form is made total instead of tripping --undefined-shift-check
            w = s.cbits(rt.bits)
            return s.mask('((u64)%s < %d ? ((%s)%s >> %s) : (%s)0)' % (b, rt.bits, ct if w >= 32 else 'u32', a, b, ct if w >= 32 else 'u32'), t)
        if bop == 'lshr':
            return s.mask('((%s)%s >> %s)' % (ct, a, b), t) if s.cbits(rt.bits) >= 32 else s.mask('vf_lshr%d(%s,%s)' % (s.cbits(rt.bits), a, b), t)
        if bop == 'ashr':
            if s.cbits(rt.bits) >= 32:
                return s.mask('((%s)(%s >> %s))' % (ct, s.signed(a, t), b), t)
            return s.mask('vf_ashr%d(%s,%s)' % (s.cbits(rt.bits), a, b), t)
        raise Exception('binop ' + bop)

    def cast_expr(s, cop, ft, v, tt):
        rf = s.resolve(ft); rt = s.resolve(tt)
        ctt = s.ctype(tt)
        if cop in ('bitcast', 'addrspacecast'):
            if isinstance(rf, TPtr) and isinstance(rt, TPtr):
                return '((%s)%s)' % (ctt, v)
            if isinstance(rf, TFloat) and isinstance(rt, TInt):
                s.helpers.add('fbits')
                return 'vf_%s_bits(%s)' % (rf.kind, v)
            if isinstance(rf, TInt) and isinstance(rt, TFloat):
                s.helpers.add('fbits')
                return 'vf_bits_%s(%s)' % (rt.kind, v)
            if s.sizeof(rf) == s.sizeof(rt):
                return '(*(%s*)&(%s){%s})' % (ctt, s.ctype(ft), v) if False else 'VF_PUN(%s,%s,%s)' % (ctt, s.ctype(ft), v)
            raise Exception('bitcast %r -> %r' % (rf, rt))
        if cop == 'trunc':
            return s.mask('(%s)' % v, tt)
        if cop == 'zext':
            return '((%s)%s)' % (ctt, v)
        if cop == 'sext':
            if rf.bits == 1:
                return s.mask('((%s)(-(i64)%s))' % (ctt, v), tt)
            return s.mask('((%s)%s)' % (ctt if rt.bits > 64 else 'u64', ('(i128)' if rt.bits>64 else '') + s.sx(v, ft)), tt)
        if cop == 'ptrtoint':
            return s.mask('((u64)%s)' % v, tt)
        if cop == 'inttoptr':
            return '((%s)(u64)%s)' % (ctt, v)
        if cop in ('fptrunc', 'fpext'):
            return '((%s)%s)' % (ctt, v)
        if cop == 'fptoui':
            return s.mask('((u64)%s)' % v, tt)
        if cop == 'fptosi':
            return s.mask('((u64)(i64)%s)' % v, tt)
        if cop == 'uitofp':
            return '((%s)%s)' % (ctt, v)
        if cop == 'sitofp':
            return '((%s)%s)' % (ctt, s.signed(v, ft))
        raise Exception('cast ' + cop)

class FnCtx:
    def __init__(s, em, f):
        s.em = em; s.f = f
        s.names = {}
    def lname(s, n):
        if n not in s.names:
            b = n[1:]
            if b.startswith('"'): b = b[1:-1]
            s.names[n] = 'v_' + re.sub(r'[^A-Za-z0-9_]', '_', b)
        return s.names[n]
    def label(s, n):
        b = n[1:]
        if b.startswith('"'): b = b[1:-1]
        return 'L_' + re.sub(r'[^A-Za-z0-9_]', '_', b)

def md_scope_sub(mod, n, depth=0):
    """follow scope chain of metadata node n to its DISubprogram; returns (name, file, line)"""
    t = mod.meta.get(n)
    if t is None or depth > 50: return None
    if 'DISubprogram(' in t:
        nm = re.search(r'name: "([^"]*)"', t); fl = re.search(r'file: !(\d+)', t); ln = re.search(r'line: (\d+)', t)
        fn = None
        if fl:
            ft = mod.meta.get(int(fl.group(1)), '')
            m2 = re.search(r'filename: "([^"]*)"', ft); fn = m2.group(1).split('/')[-1] if m2 else None
        return (nm.group(1) if nm else '?', fn, int(ln.group(1)) if ln else 0)
    m = re.search(r'scope: !(\d+)', t)
    if m: return md_scope_sub(mod, int(m.group(1)), depth+1)
    return None

def loop_source(mod, ins, f=None, latch=None, header=None):
    r = _loop_source(mod, ins)
    if r[0] == '?' and f is not None:
        # back-edge without location (created by the optimiser): use the locations inside the latch, then the header
        blocks = dict(f.blocks)
        for lb, rev in ((latch, True), (header, False)):
            inss = blocks.get(lb, [])
            for x in (reversed(inss) if rev else inss):
                if getattr(x, 'dbg', None) is not None:
                    t = mod.meta.get(x.dbg, '')
                    sub = md_scope_sub(mod, x.dbg)
                    ln = re.search(r'line: (\d+)', t)
                    if sub: return (sub[0], sub[1], int(ln.group(1)) if ln else 0)
    if r[0] == '?' and f is not None and getattr(f, 'dbg', None) is not None:
        sub = md_scope_sub(mod, f.dbg)
        if sub: return (sub[0], sub[1], sub[2])
    return r

def _loop_source(mod, ins):
    """(subprogram, file, line) of the source loop a back-edge belongs to"""
    cands = []
    if getattr(ins, 'loopmd', None) is not None:
        t = mod.meta.get(ins.loopmd, '')
        for r in re.findall(r'!(\d+)', t):
            tt = mod.meta.get(int(r), '')
            if 'DILocation(' in tt: cands.append(int(r)); break
    if getattr(ins, 'dbg', None) is not None: cands.append(ins.dbg)
    for c in cands:
        t = mod.meta.get(c, '')
        ln = re.search(r'line: (\d+)', t)
        sub = md_scope_sub(mod, c)
        if sub: return (sub[0], sub[1], int(ln.group(1)) if ln else 0)
    return ('?', None, 0)

INTRINSIC_SKIP = ('llvm.lifetime.', 'llvm.dbg.', 'llvm.assume', 'llvm.experimental.noalias', 'llvm.invariant.')

def emit_function(em, f, lines):
    fc = FnCtx(em, f)
    ret = em.ctype(f.ret)
    ps = ', '.join('%s %s' % (em.ctype(t), fc.lname(n)) for t, n in f.params) or 'void'
    lines.append('%s %s(%s) {' % (ret, em.gname(f.name), ps))
    stubs = em.opts.get('stubs', {})
    key = f.name[1:].strip('"')
    if key in stubs:
        args = ', '.join(fc.lname(n) for t, n in f.params)
        lines.append('  %s%s(%s);' % ('' if ret == 'void' else 'return ', stubs[key], args))
        lines.append('}')
        return
    # collect defs
    decls = []
    phis = {}   # block -> list of phi ins
    for (lb, inss) in f.blocks:
        for ins in inss:
            if ins.dst is not None:
                ty = result_type(em, ins)
                if isinstance(ty, TVoid):
                    ins.dst = None
                    continue
                decls.append('%s %s;' % (em.ctype(ty), fc.lname(ins.dst)))
                if ins.op == 'phi':
                    decls.append('%s %s_phi;' % (em.ctype(ty), fc.lname(ins.dst)))
            if ins.op == 'phi':
                phis.setdefault(lb, []).append(ins)
    for d in decls:
        lines.append('  ' + d)
    def phi_moves(frm, to):
        out = []
        for ph in phis.get(to, []):
            for (v, lb) in ph.inc:
                if lb == frm:
                    out.append('%s_phi = %s;' % (fc.lname(ph.dst), em.cval(v, ph.ty, fc)))
                    break
            else:
                raise Exception('phi: no incoming from %s in %s' % (frm, to))
        return ' '.join(out)
    # emit blocks in reverse post-order: for the (reducible) CFGs clang produces, the only backward gotos in the
    # C text are then the natural-loop back-edges, which is what CBMC's loop unwinding and path merging want
    succ = {}
    for (lb, inss) in f.blocks:
        t = inss[-1] if inss else None
        out = []
        if t is not None and t.op == 'br': out = [t.t] + ([t.f] if t.f else [])
        elif t is not None and t.op == 'switch': out = [t.d] + [l2 for _, l2 in t.cases]
        succ[lb] = out
    seen = set(); post = []
    stack = [(f.blocks[0][0], iter(succ[f.blocks[0][0]]))]; seen.add(f.blocks[0][0])
    while stack:
        node, it = stack[-1]
        adv = False
        for nx in it:
            if nx not in seen:
                seen.add(nx); stack.append((nx, iter(succ.get(nx, [])))); adv = True; break
        if not adv:
            post.append(node); stack.pop()
    order = list(reversed(post))
    bmap = dict(f.blocks)
    f.blocks = [(lb, bmap[lb]) for lb in order]
    fc.bindex = {lb: i for i, (lb, _) in enumerate(f.blocks)}
    fc.cname = em.gname(f.name)
    for (lb, inss) in f.blocks:
        lines.append(' %s: ;' % fc.label(lb))
        for ph in phis.get(lb, []):
            lines.append('  %s = %s_phi;' % (fc.lname(ph.dst), fc.lname(ph.dst)))
        for ins in inss:
            if ins.op == 'phi':
                continue
            emit_ins(em, fc, lb, ins, lines, phi_moves)
    lines.append('}')

def result_type(em, ins):
    if ins.op in ('bin', 'select', 'phi', 'freeze', 'load', 'cast', 'fneg', 'insertvalue', 'insertelement'):
        return ins.ty
    if ins.op in ('icmp', 'fcmp'):
        return TInt(1)
    if ins.op == 'alloca':
        return ins.ty
    if ins.op == 'gep':
        # compute result pointee
        cur = ins.bty
        for (it, iv) in ins.idx[1:]:
            rc = em.resolve(cur)
            if isinstance(rc, TStruct): cur = rc.fields[iv[1]]
            else: cur = rc.el
        return TPtr(cur)
    if ins.op == 'call':
        return ins.ty
    if ins.op == 'extractvalue':
        cur = ins.aty
        for i in ins.idx:
            rc = em.resolve(cur)
            cur = rc.fields[i] if isinstance(rc, TStruct) else rc.el
        return cur
    if ins.op == 'extractelement':
        return em.resolve(ins.aty).el
    raise Exception('result_type ' + ins.op)

ICMP = {'eq':'==','ne':'!=','ugt':'>','uge':'>=','ult':'<','ule':'<='}
ICMPS = {'sgt':'>','sge':'>=','slt':'<','sle':'<='}
FCMP_O = {'oeq':'==','ogt':'>','oge':'>=','olt':'<','ole':'<=','one':'!='}
FCMP_U = {'ueq':'==','ugt':'>','uge':'>=','ult':'<','ule':'<=','une':'!='}

def emit_ins(em, fc, lb, ins, L, phi_moves):
    cv = lambda v, t: em.cval(v, t, fc)
    d = fc.lname(ins.dst) if ins.dst else None
    op = ins.op
    if op == 'bin':
        L.append('  %s = %s;' % (d, em.bin_expr(ins.bop, ins.ty, cv(ins.a, ins.ty), cv(ins.b, ins.ty))))
    elif op == 'fneg':
        L.append('  %s = -%s;' % (d, cv(ins.a, ins.ty)))
    elif op == 'icmp':
        rt = em.resolve(ins.ty)
        a = cv(ins.a, ins.ty); b = cv(ins.b, ins.ty)
        if isinstance(rt, TPtr):
            if ins.pred in ('eq','ne'):
                L.append('  %s = (u1)((void*)%s %s (void*)%s);' % (d, a, ICMP[ins.pred], b))
            else:
                # LLVM pointer relational compare = address compare without UB (null < null is simply false)
                o = ICMP.get(ins.pred) or ICMPS[ins.pred]
                L.append('  %s = (u1)VF_PCMP(%s, %s, %s);' % (d, a, o, b))
        elif ins.pred in ICMP:
            L.append('  %s = (u1)(%s %s %s);' % (d, a, ICMP[ins.pred], b))
        else:
            L.append('  %s = (u1)(%s %s %s);' % (d, em.signed(a, ins.ty), ICMPS[ins.pred], em.signed(b, ins.ty)))
    elif op == 'fcmp':
        a = cv(ins.a, ins.ty); b = cv(ins.b, ins.ty)
        p = ins.pred
        if p in FCMP_O:
            if p == 'one':
                L.append('  %s = (u1)((%s < %s) || (%s > %s));' % (d, a, b, a, b))
            else:
                L.append('  %s = (u1)(%s %s %s);' % (d, a, FCMP_O[p], b))
        elif p in FCMP_U:
            if p == 'une':
                L.append('  %s = (u1)(%s != %s);' % (d, a, b))
            else:
                L.append('  %s = (u1)(!(%s == %s || %s != %s) ? 1 : (%s %s %s));' % (d, a, a, a, a, a, FCMP_U[p], b) if False else
                         '  %s = (u1)((%s != %s) || (%s != %s) || (%s %s %s));' % (d, a, a, b, b, a, FCMP_U[p], b))
        elif p == 'ord':
            L.append('  %s = (u1)((%s == %s) && (%s == %s));' % (d, a, a, b, b))
        elif p == 'uno':
            L.append('  %s = (u1)((%s != %s) || (%s != %s));' % (d, a, a, b, b))
        elif p == 'true': L.append('  %s = 1;' % d)
        elif p == 'false': L.append('  %s = 0;' % d)
        else: raise Exception('fcmp ' + p)
    elif op == 'cast':
        L.append('  %s = %s;' % (d, em.cast_expr(ins.cop, ins.fty, cv(ins.v, ins.fty), ins.ty)))
    elif op == 'select':
        L.append('  %s = %s ? %s : %s;' % (d, cv(ins.c, ins.cty), cv(ins.a, ins.ty), cv(ins.b, ins.ty)))
    elif op == 'freeze':
        L.append('  %s = %s;' % (d, cv(ins.a, ins.ty)))
    elif op == 'alloca':
        ct = em.ctype(ins.aty)
        if ins.n is not None and not (ins.n[1][0] == 'int' and ins.n[1][1] == 1):
            L.append('  %s = (%s*)__builtin_alloca(sizeof(%s) * %s);' % (d, ct, ct, cv(ins.n[1], ins.n[0])))
        else:
            L.append('  %s %s_mem; %s = &%s_mem;' % (ct, d, d, d))
    elif op == 'load':
        L.append('  %s = *%s;' % (d, cv(ins.p, ins.pty)))
    elif op == 'store':
        L.append('  *%s = %s;' % (cv(ins.p, ins.pty), cv(ins.v, ins.ty)))
    elif op == 'gep':
        e, _ = em.gep_expr(ins.bty, ins.pty, cv(ins.p, ins.pty), [(it, cv(iv, it), iv) for it, iv in ins.idx])
        L.append('  %s = %s;' % (d, e))
    elif op == 'extractvalue':
        path = ''
        cur = ins.aty
        for i in ins.idx:
            rc = em.resolve(cur)
            if isinstance(rc, TStruct): path += '.f%d' % i; cur = rc.fields[i]
            else: path += '.a[%d]' % i; cur = rc.el
        L.append('  %s = (%s)%s;' % (d, cv(ins.a, ins.aty), path))
    elif op == 'insertvalue':
        path = ''
        cur = ins.ty
        for i in ins.idx:
            rc = em.resolve(cur)
            if isinstance(rc, TStruct): path += '.f%d' % i; cur = rc.fields[i]
            else: path += '.a[%d]' % i; cur = rc.el
        L.append('  %s = %s; %s%s = %s;' % (d, cv(ins.a, ins.ty), d, path, cv(ins.e, ins.ety)))
    elif op == 'extractelement':
        L.append('  %s = (%s).a[%s];' % (d, cv(ins.a, ins.aty), cv(ins.i, TInt(64))))
    elif op == 'insertelement':
        L.append('  %s = %s; %s.a[%s] = %s;' % (d, cv(ins.a, ins.ty), d, cv(ins.i, TInt(64)), cv(ins.e, em.resolve(ins.ty).el)))
    elif op == 'call':
        cal = ins.callee
        if cal[0] == 'global':
            nm = cal[1][1:].strip('"')
            if nm.startswith(INTRINSIC_SKIP):
                return
            fnm = em.gname(cal[1])
            ss = em.opts.get('self_stubs', {})
            if nm in ss and cal[1] == fc.f.name:
                fnm = ss[nm]     # self-recursive call inside F's own body goes to the contract stub
            if nm.startswith('llvm.'):
                fnm = intrinsic(em, nm, ins)
                if nm_is_mem(cal) and ins.args[2][1][0] == 'int':
                    fnm += '_c'   # constant size
        else:
            fnm = '(%s)' % cv(cal, TPtr(ins.fty) if ins.fty else TPtr(TFunc(ins.ty, [a[0] for a in ins.args], False)))
            if ins.fty is None:
                fnm = '((%s)%s)' % (em.fptr_type(TFunc(ins.ty, [a[0] for a in ins.args], False)), fnm)
        args = ', '.join(cv(av, at) for at, av in ins.args)
        if cal[0] == 'global' and cal[1] == '@vf_assert' and ins.args[1][1][0] == 'int':
            L.append('  VF_ASSERT_AT(%s, %d);' % (cv(ins.args[0][1], ins.args[0][0]), ins.args[1][1][1])); return
        if cal[0] == 'global' and cal[1] == '@vf_witness':
            L.append('  VF_WITNESS();'); return
        if nm_is_mem(cal):
            args = ', '.join(cv(av, at) for at, av in ins.args[:3])
        if d:
            L.append('  %s = %s(%s);' % (d, fnm, args))
        else:
            L.append('  %s(%s);' % (fnm, args))
    elif op == 'ret':
        if ins.v is None: L.append('  return;')
        else: L.append('  return %s;' % cv(ins.v, ins.ty))
    elif op == 'br':
        def go(t):
            mark = ''
            if fc.bindex[t] <= fc.bindex[lb]:
                src = loop_source(em.mod, ins, fc.f, lb, t)
                em.loops.append({'cfunc': fc.cname, 'src': src[0], 'file': src[1], 'line': src[2]})
                mark = ' /*@LOOP:%d*/' % (len(em.loops) - 1)
            return 'goto %s;%s' % (fc.label(t), mark)
        if ins.c is None:
            L.append('  %s' % phi_moves(lb, ins.t)); L.append('  %s' % go(ins.t))
        else:
            L.append('  if (%s) { %s' % (cv(ins.c, TInt(1)), phi_moves(lb, ins.t)))
            L.append('    %s' % go(ins.t))
            L.append('  } else { %s' % phi_moves(lb, ins.f))
            L.append('    %s' % go(ins.f))
            L.append('  }')
    elif op == 'switch':
        def go(t):
            mark = ''
            if fc.bindex[t] <= fc.bindex[lb]:
                src = loop_source(em.mod, ins, fc.f, lb, t)
                em.loops.append({'cfunc': fc.cname, 'src': src[0], 'file': src[1], 'line': src[2]})
                mark = ' /*@LOOP:%d*/' % (len(em.loops) - 1)
            return 'goto %s;%s' % (fc.label(t), mark)
        L.append('  switch (%s) {' % cv(ins.v, ins.ty))
        for (cvv, l2) in ins.cases:
            L.append('    case %s: { %s' % (cv(cvv, ins.ty), phi_moves(lb, l2)))
            L.append('      %s' % go(l2)); L.append('    }')
        L.append('    default: { %s' % phi_moves(lb, ins.d))
        L.append('      %s' % go(ins.d)); L.append('    }')
        L.append('  }')
    elif op == 'nop':
        pass
    elif op == 'unreachable':
        L.append('  vf_unreachable();')
    else:
        raise Exception('emit ' + op)

def recursive_functions(mod, em):
    """functions on a call-graph cycle (direct calls between defined functions): [{'cfunc','src'}]"""
    g = {}
    for n, f in mod.funcs.items():
        if not f.defined: continue
        cs = set()
        for lb, inss in f.blocks:
            for i in inss:
                if i.op == 'call' and i.callee[0] == 'global' and i.callee[1] in mod.funcs and mod.funcs[i.callee[1]].defined:
                    cs.add(i.callee[1])
        g[n] = cs
    idx = {}; low = {}; st = []; on = set(); out = []; c = [0]
    def sc(v0):
        work = [(v0, iter(g[v0]))]
        idx[v0] = low[v0] = c[0]; c[0] += 1; st.append(v0); on.add(v0)
        while work:
            v, it = work[-1]
            adv = False
            for w in it:
                if w not in idx:
                    idx[w] = low[w] = c[0]; c[0] += 1; st.append(w); on.add(w)
                    work.append((w, iter(g[w]))); adv = True; break
                elif w in on:
                    low[v] = min(low[v], idx[w])
            if adv: continue
            work.pop()
            if work: low[work[-1][0]] = min(low[work[-1][0]], low[v])
            if low[v] == idx[v]:
                comp = []
                while True:
                    w = st.pop(); on.discard(w); comp.append(w)
                    if w == v: break
                if len(comp) > 1 or comp[0] in g[comp[0]]:
                    for x in comp:
                        f = mod.funcs[x]
                        sub = md_scope_sub(mod, f.dbg) if getattr(f, 'dbg', None) is not None else None
                        out.append({'cfunc': em.gname(x), 'src': (sub[0] if sub else em.gname(x)), 'group': em.gname(comp[0])})
    for v in g:
        if v not in idx: sc(v)
    return out

def nm_is_mem(cal):
    if cal[0] != 'global': return False
    nm = cal[1][1:].strip('"')
    return nm.startswith(('llvm.memcpy.', 'llvm.memset.', 'llvm.memmove.'))

def intrinsic(em, nm, ins):
    if nm.startswith('llvm.memcpy.'): return 'vf_memcpy'
    if nm.startswith('llvm.memmove.'): return 'vf_memmove'
    if nm.startswith('llvm.memset.'): return 'vf_memset'
    m = re.match(r'llvm\.(umin|umax|smin|smax|ctlz|cttz|ctpop|abs|bswap|fshl|fshr|uadd\.sat|usub\.sat)\.i(\d+)$', nm)
    if m:
        return 'vf_%s%s' % (m.group(1).replace('.', '_'), m.group(2))
    m = re.match(r'llvm\.(fabs|floor|ceil|trunc|sqrt|fmuladd|copysign|round|rint|nearbyint)\.(f64|f32)$', nm)
    if m:
        return 'vf_%s_%s' % (m.group(1), m.group(2))
    m = re.match(r'llvm\.(umul|uadd|usub|smul|sadd|ssub)\.with\.overflow\.i(\d+)$', nm)
    if m:
        return 'vf_%s_ov%s' % (m.group(1), m.group(2))
    raise Exception('intrinsic ' + nm)

PRELUDE = r'''
#include <stdint.h>
#include <stddef.h>
#include <string.h>
#include <stdlib.h>
typedef uint8_t u1; typedef uint8_t u8; typedef uint16_t u16; typedef uint32_t u32; typedef uint64_t u64;
typedef int8_t i8; typedef int16_t i16; typedef int32_t i32; typedef int64_t i64;
typedef unsigned __int128 u128; typedef __int128 i128;
#define VF_PUN(TT,FT,v) (((union { FT f; TT t; }){ .f = (v) }).t)
'''

def translate(text, opts=None):
    mod = parse_module(text)
    for k in (opts or {}).get('stubs', {}):
        if (opts or {}).get('stubs_optional'): continue
        if ('@' + k) not in mod.funcs or not mod.funcs['@' + k].defined:
            raise Exception('stub target %s is not a function defined in the module (inlined away or renamed)' % k)
    em = Emitter(mod, opts)
    body = []
    # function prototypes
    protos = []
    for name, f in mod.funcs.items():
        nm = name[1:].strip('"')
        if nm.startswith('llvm.'):
            continue
        if any(isinstance(t, TMeta) for t, n in f.params):
            continue
        ps = ', '.join(em.ctype(t) for t, n in f.params) or 'void'
        if f.varargs: ps += ', ...'
        protos.append('%s %s(%s);' % (em.ctype(f.ret), em.gname(name), ps))
    # globals
    gl = []
    for kind, name in mod.order:
        if kind == 'g':
            g = mod.globals[name]
            ct = em.ctype(g.ty)
            if g.external:
                gl.append('extern %s %s;' % (ct, em.gname(name)))
            else:
                gl.append(('GDECL', ct, name, g))
    gdecl = []; gdef = []
    for x in gl:
        if isinstance(x, str): gdecl.append(x); continue
        _, ct, name, g = x
        rt = em.resolve(g.ty)
        gdecl.append('%s%s %s;' % ('static ' , ct, em.gname(name)))
        init = em.cinit(g.init, g.ty)
        gdef.append('static %s %s = %s;' % (ct, em.gname(name), init))
    for kind, name in mod.order:
        if kind == 'f':
            emit_function(em, mod.funcs[name], body)
            body.append('')
    out = [PRELUDE]
    # typedefs: forward decls then defs in dependency order (already in creation order, but nested need care)
    for td in em.typedefs:
        if td[0] == 'fwd': out.append(td[1] + ';')
    # order defs so that by-value members come first
    defs = [td for td in em.typedefs if td[0] == 'def']
    emitted = set(); names = {td[1] for td in defs}
    def emit_def(td):
        if td[1] in emitted: return
        emitted.add(td[1])
        for other in defs:
            if other[1] != td[1] and re.search(r'(?<![A-Za-z0-9_])' + re.escape(other[1]) + r' f\d+;|(?<![A-Za-z0-9_])' + re.escape(other[1]) + r' a\[', td[2]):
                emit_def(other)
        out.append(td[2])
    raws = [td for td in em.typedefs if td[0] == 'raw']
    for td in defs: emit_def(td)
    for td in raws: out.append(td[1])
    out.append('#include "vf_rt.h"')
    out += protos
    out.append('#include "vf_env.h"')
    out += gdecl
    out += gdef
    out += body
    text = '\n'.join(out) + '\n'
    if opts is not None and 'rec_out' in opts:
        opts['rec_out'].extend(recursive_functions(mod, em))
    if opts is not None and 'loops_out' in opts:
        for i, ln in enumerate(text.split('\n'), 1):
            m = re.search(r'/\*@LOOP:(\d+)\*/', ln)
            if m: em.loops[int(m.group(1))]['cline'] = i
        opts['loops_out'].extend(em.loops)
    return text

if __name__ == '__main__':
    import os
    src = open(sys.argv[1]).read()
    st = {}
    for kv in filter(None, os.environ.get('LL2C_STUBS', '').split(',')):
        k, v = kv.split('='); st[k] = v
    loops = []
    sys.stdout.write(translate(src, {'stubs': st, 'loops_out': loops}))
    if len(sys.argv) > 2:
        import json
        json.dump(loops, open(sys.argv[2], 'w'), indent=0)

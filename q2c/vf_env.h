/* C-side environment for ll2c output: CBMC (nondeterministic) or native (tape) */
#ifndef VF_ENV_H
#define VF_ENV_H
#ifdef __CPROVER__
u8 nondet_u8(void); u16 nondet_u16(void); u32 nondet_u32(void); u64 nondet_u64(void);
u8 vf_u8(void){ u8 vf_tape_v8 = nondet_u8(); return vf_tape_v8; }
u16 vf_u16(void){ u16 vf_tape_v16 = nondet_u16(); return vf_tape_v16; }
u32 vf_u32(void){ u32 vf_tape_v32 = nondet_u32(); return vf_tape_v32; }
u64 vf_u64(void){ u64 vf_tape_v64 = nondet_u64(); return vf_tape_v64; }
void vf_assume(u1 c){ __CPROVER_assume(c); }
#ifdef VF_ASSUME_AFTER_ASSERT   /* second attempt after a timeout (engine.py) */
#define VF_AFTER_ASSERT(c) __CPROVER_assume(c)
#else
#define VF_AFTER_ASSERT(c) ((void)0)
#endif
void vf_assert(u1 c, u32 id){ __CPROVER_assert(c, "harness assertion (dynamic id)"); VF_AFTER_ASSERT(c); }
/* assert-then-assume (only with -DVF_ASSUME_AFTER_ASSERT, the engine's retry after a timeout): a path is followed only up to its FIRST failing
   harness assertion (same verdicts; keeps the state after a failure - wild pointers, broken invariants - out of the formula, which is what made
   queries on broken code time out instead of reporting).  Not the default: it made one C14 query go from 1 s to > 300 s. */
#define VF_ASSERT_AT(c,id) do { __CPROVER_assert(c, "harness assertion " #id); VF_AFTER_ASSERT(c); } while (0)
#define VF_WITNESS() __CPROVER_assert(0, "reachability witness")
void vf_witness(void){ __CPROVER_assert(0, "reachability witness"); }
void vf_obs(u64 v){ }
#define VF_BUF(W) u8* vf_buf##W(u32 n){ u##W* p = (u##W*)malloc((u64)n * (W/8)); __CPROVER_assume(p != 0); \
  for (u32 i = 0; i < n; i++) p[i] = vf_u##W(); return (u8*)p; }
VF_BUF(8) VF_BUF(16) VF_BUF(32) VF_BUF(64)
void vf_free(u8* p){ free(p); }
u8* vf_alloc(u32 n){ u8* p = (u8*)malloc(n); __CPROVER_assume(p != 0); return p; }
#else
#include <stdio.h>
static FILE *vf_tape;
static u64 vf_next(int w){
  unsigned ww = 0; unsigned long long v = 0;
  if (!vf_tape) { const char *p = getenv("VF_TAPE"); vf_tape = p ? fopen(p, "r") : 0; if (!vf_tape) vf_tape = stdin; }
  if (fscanf(vf_tape, "%u %llu", &ww, &v) != 2) return 0;
  if (w < 64) v &= ((1ULL << w) - 1);
  return v;
}
u8 vf_u8(void){ return (u8)vf_next(8); } u16 vf_u16(void){ return (u16)vf_next(16); }
u32 vf_u32(void){ return (u32)vf_next(32); } u64 vf_u64(void){ return vf_next(64); }
void vf_assume(u1 c){ if(!c){ printf("ASSUME-FALSE\n"); fflush(stdout); _Exit(77); } }
void vf_assert(u1 c, u32 id){ printf("A %u %u\n", id, (unsigned)c); if(!c){ printf("VF_ASSERT_FAIL %u\n", id); fflush(stdout); _Exit(3); } }
#define VF_ASSERT_AT(c,id) vf_assert(c,id)
#define VF_WITNESS() vf_witness()
void vf_witness(void){ printf("W\n"); }
void vf_obs(u64 v){ printf("O %llu\n", (unsigned long long)v); }
#define VF_BUF(W) u8* vf_buf##W(u32 n){ u##W* p = (u##W*)malloc((u64)n * (W/8)); \
  for (u32 i = 0; i < n; i++) p[i] = vf_u##W(); return (u8*)p; }
VF_BUF(8) VF_BUF(16) VF_BUF(32) VF_BUF(64)
void vf_free(u8* p){ free(p); }
u8* vf_alloc(u32 n){ return (u8*)malloc(n); }
#endif
#endif

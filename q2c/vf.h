// Harness-side environment API (C++).  Under CBMC every vf_uN() is a nondeterministic value; in the
// native twin they are read from a tape file, so a counterexample is a tape.
#pragma once
extern "C" {
unsigned char vf_u8(void); unsigned short vf_u16(void); unsigned vf_u32(void); unsigned long long vf_u64(void);
void vf_assume(bool c);
void vf_assert(bool c, unsigned id);
void vf_witness(void);                 // reachability witness: must come back *violated* under CBMC
void vf_obs(unsigned long long v);     // observation for the translator self-check (no-op under CBMC)
void *vf_buf8(unsigned n); void *vf_buf16(unsigned n); void *vf_buf32(unsigned n); void *vf_buf64(unsigned n);
void vf_free(void *p);
void *vf_alloc(unsigned nbytes);          // exact-size uninitialised heap block
}
inline void *operator new(unsigned long, void *p) noexcept { return p; }
template <typename T> inline T *vf_buf(unsigned n) {   // exact-size heap buffer, arbitrary contents
    if (sizeof(T) == 1) return (T *)vf_buf8(n);
    if (sizeof(T) == 2) return (T *)vf_buf16(n);
    if (sizeof(T) == 4) return (T *)vf_buf32(n);
    return (T *)vf_buf64(n);
}
template <typename T> inline T vf_any() {
    if (sizeof(T) == 1) return (T)vf_u8();
    if (sizeof(T) == 2) return (T)vf_u16();
    if (sizeof(T) == 4) return (T)vf_u32();
    return (T)vf_u64();
}

// Native tape environment for the direct C++ twin of a harness (real headers, ASan/UBSan).
#include <stdio.h>
#include <stdlib.h>
#include <stdint.h>
typedef uint8_t u8; typedef uint16_t u16; typedef uint32_t u32; typedef uint64_t u64;
static FILE *vf_tape;
static u64 vf_next(int w){
  unsigned ww = 0; unsigned long long v = 0;
  if (!vf_tape) { const char *p = getenv("VF_TAPE"); vf_tape = p ? fopen(p, "r") : 0; if (!vf_tape) vf_tape = stdin; }
  if (fscanf(vf_tape, "%u %llu", &ww, &v) != 2) return 0;
  if (w < 64) v &= ((1ULL << w) - 1);
  return v;
}
extern "C" {
u8 vf_u8(void){ return (u8)vf_next(8); } u16 vf_u16(void){ return (u16)vf_next(16); }
u32 vf_u32(void){ return (u32)vf_next(32); } u64 vf_u64(void){ return vf_next(64); }
void vf_assume(bool c){ if(!c){ printf("ASSUME-FALSE\n"); fflush(stdout); _Exit(77); } }
void vf_assert(bool c, unsigned id){ printf("A %u %u\n", id, (unsigned)c); if(!c){ printf("VF_ASSERT_FAIL %u\n", id); fflush(stdout); _Exit(3); } }
void vf_witness(void){ printf("W\n"); }
void vf_obs(unsigned long long v){ printf("O %llu\n", v); }
#define VF_BUF(W) void* vf_buf##W(unsigned n){ u##W* p = (u##W*)malloc((u64)n * (W/8)); \
  for (u32 i = 0; i < n; i++) p[i] = vf_u##W(); return p; }
VF_BUF(8) VF_BUF(16) VF_BUF(32) VF_BUF(64)
void vf_free(void* p){ free(p); }
void* vf_alloc(unsigned n){ return malloc(n); }
void VF_ENTRY(void);
}
int main(){ VF_ENTRY(); fflush(stdout); return 0; }

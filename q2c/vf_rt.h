/* runtime helpers for ll2c output */
#ifndef VF_RT_H
#define VF_RT_H
#ifdef __CPROVER__
/* LLVM pointer relational compare = address compare.  Inside one object compare the offsets (folds to a constant during
   symbolic execution for &obj+c1 vs &obj+c2, which keeps `while (item < end)` loops over heap storage decidable);
   across objects compare the numeric addresses. */
#define VF_PCMP(p, op, q) (__CPROVER_same_object((p), (q)) ? (__CPROVER_POINTER_OFFSET(p) op __CPROVER_POINTER_OFFSET(q)) : ((u64)(p) op (u64)(q)))
#define VF_ASSUME(c) __CPROVER_assume(c)
#else
#include <stdio.h>
#define VF_PCMP(p, op, q) ((u64)(p) op (u64)(q))
#define VF_ASSUME(c) do { if(!(c)) { exit(77); } } while(0)
#endif
static inline u8 vf_shl8(u8 a, u32 b){ return (u8)((u32)a << b); }
static inline u16 vf_shl16(u16 a, u32 b){ return (u16)((u32)a << b); }
static inline u8 vf_lshr8(u8 a, u32 b){ return (u8)((u32)a >> b); }
static inline u16 vf_lshr16(u16 a, u32 b){ return (u16)((u32)a >> b); }
static inline u8 vf_ashr8(u8 a, u32 b){ return (u8)((i32)(i8)a >> b); }
static inline u16 vf_ashr16(u16 a, u32 b){ return (u16)((i32)(i16)a >> b); }
#define VF_MM(W) \
static inline u##W vf_umin##W(u##W a,u##W b){return a<b?a:b;} \
static inline u##W vf_umax##W(u##W a,u##W b){return a>b?a:b;} \
static inline u##W vf_smin##W(u##W a,u##W b){return (i##W)a<(i##W)b?a:b;} \
static inline u##W vf_smax##W(u##W a,u##W b){return (i##W)a>(i##W)b?a:b;} \
static inline u##W vf_abs##W(u##W a,u1 p){return (i##W)a<0?(u##W)(0-a):a;} \
static inline u##W vf_usub_sat##W(u##W a,u##W b){return a>b?(u##W)(a-b):0;}
VF_MM(8) VF_MM(16) VF_MM(32) VF_MM(64) VF_MM(128)
static inline u64 vf_ctlz64(u64 a, u1 zp){ return a==0 ? 64 : (u64)__builtin_clzll(a); }
static inline u32 vf_ctlz32(u32 a, u1 zp){ return a==0 ? 32 : (u32)__builtin_clz(a); }
static inline u64 vf_cttz64(u64 a, u1 zp){ return a==0 ? 64 : (u64)__builtin_ctzll(a); }
static inline u32 vf_cttz32(u32 a, u1 zp){ return a==0 ? 32 : (u32)__builtin_ctz(a); }
static inline u8 vf_cttz8(u8 a, u1 zp){ return a==0 ? 8 : (u8)__builtin_ctz((u32)a); }
static inline u16 vf_cttz16(u16 a, u1 zp){ return a==0 ? 16 : (u16)__builtin_ctz((u32)a); }
/* funnel shifts: concat(a,b) shifted, amount taken modulo the width */
#define VF_FSH(W, D) \
static inline u##W vf_fshl##W(u##W a, u##W b, u##W c){ u32 s = (u32)(c % W); return s ? (u##W)(((D)a << s) | ((D)b >> (W - s))) : a; } \
static inline u##W vf_fshr##W(u##W a, u##W b, u##W c){ u32 s = (u32)(c % W); return s ? (u##W)(((D)a << (W - s)) | ((D)b >> s)) : b; }
VF_FSH(8, u32) VF_FSH(16, u32) VF_FSH(32, u64) VF_FSH(64, u128)
static inline u8 vf_ctlz8(u8 a, u1 zp){ u8 n=0; if(a==0) return 8; for(int i=7;i>=0;i--){ if((a>>i)&1) break; n++; } return n; }
static inline u16 vf_ctlz16(u16 a, u1 zp){ u16 n=0; if(a==0) return 16; for(int i=15;i>=0;i--){ if((a>>i)&1) break; n++; } return n; }
/* constant-size block operations (aggregate copies): the built-in models are exact for a constant size */
/* llvm.memcpy is defined for src == dst (self move-assignment of aggregates); C memcpy is not */
static inline void vf_memcpy_c(void*d,const void*s,u64 n){ if (d != s) memcpy(d,s,n); }
static inline void vf_memmove_c(void*d,const void*s,u64 n){ memmove(d,s,n); }
static inline void vf_memset_c(void*d,u8 c,u64 n){ memset(d,c,n); }
/* symbolic-size block operations: cbmc 6.11's memcpy/memmove/memset models silently drop part of the write when the
   size is symbolic (observed on heap arrays of structs), so these are explicit byte loops with ordinary unwind bounds
   (match them in a spec with the regex 'vf_mem.*') */
static inline void vf_memcpy(void*d,const void*s,u64 n){ u8*dd=(u8*)d; const u8*ss=(const u8*)s; for(u64 i=0;i<n;i++) dd[i]=ss[i]; }
static inline void vf_memmove(void*d,const void*s,u64 n){ u8*dd=(u8*)d; const u8*ss=(const u8*)s;
  if ((const u8*)dd <= ss) { for(u64 i=0;i<n;i++) dd[i]=ss[i]; } else { for(u64 i=n;i>0;i--) dd[i-1]=ss[i-1]; } }
static inline void vf_memset(void*d,u8 c,u64 n){ u8*dd=(u8*)d; for(u64 i=0;i<n;i++) dd[i]=c; }
static inline void vf_unreachable(void){
#ifdef __CPROVER__
 __CPROVER_assert(0,"llvm unreachable reached");
#else
 abort();
#endif
}
static inline u64 vf_double_bits(double d){ u64 r; memcpy(&r,&d,8); return r; }
static inline double vf_bits_double(u64 b){ double r; memcpy(&r,&b,8); return r; }
static inline u32 vf_float_bits(float d){ u32 r; memcpy(&r,&d,4); return r; }
static inline float vf_bits_float(u32 b){ float r; memcpy(&r,&b,4); return r; }
static inline double vf_fabs_f64(double d){ return d<0?-d:d; }
static inline double vf_fmuladd_f64(double a,double b,double c){ return a*b+c; }
u8* _Znwm(u64 n){ u8* p = (u8*)malloc(n); VF_ASSUME(p != 0); return p; }
u8* _Znam(u64 n){ u8* p = (u8*)malloc(n); VF_ASSUME(p != 0); return p; }
void _ZdlPv(u8* p){ free(p); }
void _ZdaPv(u8* p){ free(p); }
#endif

#!/usr/bin/env python3
"""debug one query:  python3 q2c/dbg.py <prop> <query-name> [tier] [timeout_s] [--trace]
prints the per-loop unwind table, runs cbmc once, writes /tmp/q2c_dbg/{out.txt,h.c,h.ll}"""
import sys, os, shutil, importlib.util
sys.path.insert(0, os.path.dirname(os.path.abspath(__file__)))
from engine import *
pid, qname = sys.argv[1], sys.argv[2]
tier = sys.argv[3] if len(sys.argv) > 3 else 'quick'
sp = importlib.util.spec_from_file_location('s', os.path.join(ROOT, 'specs', pid + '.py')); mod = importlib.util.module_from_spec(sp); sp.loader.exec_module(mod)
q = [q for q in mod.queries(tier) if q.name == qname][0]
to = int(sys.argv[4]) if len(sys.argv) > 4 else q.timeout
w = Work()
defs = dict(q.defs)
for k in q.kf_excl:
    if k in {i for i, e in load_kf().items() if e.get('status') == 'open'}: defs['KF_EXCL_' + k.replace('-', '_')] = 1
if q.kf_only: defs['KF_ONLY_' + q.kf_only.replace('-', '_')] = 1
key, ent = compile_ir(w, q, defs)
if ent.get('err'): print(ent['err']); sys.exit(1)
c, loops, err = translate(w, key, ent, q.stubs, q.self_stubs, q.stubs_optional)
if err: print(err); sys.exit(1)
import hashlib
skey = hashlib.sha1(repr((sorted(q.stubs.items()), sorted(q.self_stubs.items()))).encode()).hexdigest()[:8]
items, d = unwindset(w, c, q.entry, loops, q, ent.get('rec_' + skey), ())
for x in d: print('%-60s %-28s %s:%s unwind=%s' % (x['loop'][-60:], x['src'], x['file'], x['line'], x['unwind']))
rc, out, dt, tmo, cmd = run_cbmc(w, q, c, q.entry, items, q.backend if isinstance(q.backend, str) else q.backend[0], to, trace_prop='*' if '--trace' in sys.argv else None)
os.makedirs(os.environ.get('Q2C_DBG', '/tmp/q2c_dbg'), exist_ok=True)
open(os.environ.get('Q2C_DBG', '/tmp/q2c_dbg') + '/out.txt', 'w').write(out); shutil.copy(c, os.environ.get('Q2C_DBG', '/tmp/q2c_dbg') + '/h.c'); shutil.copy(ent['ll'], os.environ.get('Q2C_DBG', '/tmp/q2c_dbg') + '/h.ll')
print(' '.join(cmd).replace(c, os.environ.get('Q2C_DBG', '/tmp/q2c_dbg') + '/h.c'))
print('rc=%s time=%.1fs timeout=%s' % (rc, dt, tmo))
for l in out.split('\n'):
    if l.startswith('[') and not l.endswith('SUCCESS'): print(l)
print([l for l in out.split('\n') if 'VERIFICATION' in l or ' failed (' in l])
w.cleanup()

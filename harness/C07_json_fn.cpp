// C06(c) / C07: each grammar production of the REAL JSON parser verified functionally and modularly.
// For a fully symbolic exact-size buffer of length L and an arbitrary cursor, the function under test runs with its
// callees replaced by LOGGING contract stubs: a stub asserts the callee's precondition, picks an arbitrary outcome
// (defined with a symbolic identity, or Undefined) and an arbitrary new cursor satisfying only the callee's
// postcondition, and records (cursor in, cursor out, outcome).  Afterwards an oracle written directly from the RFC 8259
// production (array / object / value / JSON-text) recomputes from the buffer and the log whether the production
// matches, what it must contain and where it must end, and the harness asserts that the real function agrees:
//   defined  <=> the production matches (all-or-nothing: soundness AND completeness),
//   the members are exactly the callee results in order (identity, key length / first unit), cursor = end of match,
//   Undefined => cursor >= length (failure sentinel, which is also every callee's postcondition).
// Contracts:  pre(parseValue): offset < length;  pre(parseObject/parseArray): offset <= length;
//             post(parseValue): offset' > offset; post(containers): offset' >= offset; defined => offset' <= length; Undefined => offset' >= length
//             pre(UnEscape(p,n)): [p,p+n) inside the buffer;  post: r <= n (0 = malformed string)
//             pre(stringToNumber): offset < end;  post: offset <= offset' <= end; offset' > offset unless NotANumber
// By induction on nesting depth: Parse accepts exactly the texts of the grammar (relative to the string and number
// token recognisers, which C20/C08/C09 cover) and builds the denoted tree, for buffers up to L units.
#define private public
#include "json_stub_value.hpp"
#include "fixed_stream.hpp"
#include "JSON.hpp"
using namespace Qentem;
#ifndef L
#define L 4
#endif
#ifndef CHAR
#define CHAR char
#endif
typedef CHAR C; typedef Value<C> V; typedef FixedStream<C, 16> SS; typedef JSON::JSONParser<C, SS> PR;
static const C *g_buf;
struct Call { unsigned in, out, id; bool def; };
static Call vcalls[L + 2]; static unsigned nv;            // value / container stub calls
struct UCall { unsigned in, n, r, slen; unsigned first; };
static UCall ucalls[L + 2]; static unsigned nu;           // un-escaper stub calls
static unsigned num_in, num_out, num_type; static unsigned long long num_val; static unsigned nn;

static void value_stub(V *out, const C *c, unsigned *off, unsigned len, bool strict) {
    vf_assert(c == g_buf && len == L, 20);
    vf_assert(strict ? (*off < len) : (*off <= len), 21);
    unsigned k = nv; vf_assert(k < L + 2, 22);
    bool def = vf_u8() & 1; unsigned id = vf_u8();
    unsigned o = vf_u32(); vf_assume((strict ? (o > *off) : (o >= *off)) && o < 0xFFFFFF00u);
    vf_assume(def ? (o <= len && o > *off) : (o >= len));
#ifdef STEER   /* steering: every callee result is a REAL one-digit number, so the counterexample text is real JSON material */
#if STEER == 4   /* ... or (top-level twin) the real empty array  []  : a valid CONTAINER document, as in the property's quantifier */
    vf_assume(def && o == *off + 2 && o <= len && c[*off] == C('[') && c[*off + 1] == C(']'));
#else
    vf_assume(def && o == *off + 1 && c[*off] >= C('1') && c[*off] <= C('9'));
#endif
#endif
    new (out) V{};
    if (def) { out->type_ = ValueType::UIntLong; out->payload_ = id; }
    vcalls[k].in = *off; vcalls[k].out = o; vcalls[k].def = def; vcalls[k].id = id; nv = k + 1;
    *off = o;
}
extern "C" void fn_parseValue(V *out, SS *s, const C *c, unsigned *off, unsigned len) { value_stub(out, c, off, len, true); }
extern "C" void fn_container(V *out, SS *s, const C *c, unsigned *off, unsigned len) { value_stub(out, c, off, len, false); }
extern "C" unsigned fn_unescape(const C *content, unsigned length, SS *stream) {
    vf_assert(content >= g_buf && content <= g_buf + L, 30);
    unsigned in = unsigned(content - g_buf);
    vf_assert(length <= L - in, 31);
    unsigned k = nu; vf_assert(k < L + 2, 32);
    unsigned r = vf_u32(); vf_assume(r <= length);
    unsigned sl = vf_u32(); vf_assume(sl <= 2); C f = vf_any<C>();
    if (r == 0) sl = 0;                               // on failure the scratch stream content is irrelevant; keep it empty
#ifdef STEER   /* steering: every key is the real string  k"  or the empty string */
    vf_assume(sl == 0 && ((r == 2 && length >= 2 && content[0] == C('k') && content[1] == C('"')) || (r == 1 && length >= 1 && content[0] == C('"'))));   // key  k"  or the empty key  "
#endif
    stream->len = sl; stream->buf[0] = f;
    ucalls[k].in = in; ucalls[k].n = length; ucalls[k].r = r; ucalls[k].slen = sl; ucalls[k].first = unsigned(f); nu = k + 1;
    return r;
}
extern "C" unsigned char fn_strtonum(QNumber64 *num, const C *content, unsigned *off, unsigned end) {
    vf_assert(content == g_buf && end == L, 40);
    vf_assert(*off < end, 41);
    unsigned char t = (unsigned char)(vf_u8() % 4);
    unsigned o = vf_u32(); vf_assume(o >= *off && o <= end); vf_assume(t == 0 || o > *off);
    num->Natural = vf_u64();
    num_in = *off; num_out = o; num_type = t; num_val = num->Natural; nn = nn + 1;
    *off = o;
    return t;
}
static bool is_ws(C c) { return c == C(' ') || c == C('\n') || c == C('\t') || c == C('\r'); }
static unsigned skip_ws(const C *b, unsigned p) { while (p < L && is_ws(b[p])) ++p; return p; }
static const C *mkbuf() { const C *b = vf_buf<C>(L); g_buf = b; nv = 0; nu = 0; nn = 0; return b; }

extern "C" void h_array_fn() {     // array = ws ( ']' | value *( ws ',' ws value ) ws ']' )      ('[' already consumed)
    const C *b = mkbuf(); SS stream;
    unsigned off = vf_u32(); vf_assume(off <= L); unsigned pos = off;
    V v = PR::parseArray(stream, b, off, SizeT(L));
#if defined(STEER) && STEER == 2   /* counterexample steering only: look for a broken failure sentinel that an enclosing container would resume from */
    vf_assume(v.IsUndefined() && off < L && (b[off] == C('}') || b[off] == C(']') || b[off] == C(',')));
#endif
    bool ok = false; unsigned end = 0, cnt = 0, i = 0; bool shape = true;
    pos = skip_ws(b, pos);
    if (pos < L && b[pos] == C(']')) { ok = true; end = pos + 1; }
    else {
        while (pos < L) {
            if (!(i < nv && vcalls[i].in == pos)) { shape = false; break; }
            if (!vcalls[i].def) { ++i; break; }
            pos = vcalls[i].out; ++i; ++cnt;
            pos = skip_ws(b, pos);
            if (pos < L && b[pos] == C(',')) { ++pos; pos = skip_ws(b, pos); continue; }
            if (pos < L && b[pos] == C(']')) { ok = true; end = pos + 1; }
            break;
        }
    }
    vf_assert(shape, 1);                                      // the callee was invoked exactly at the production's value positions
    vf_assert(i == nv, 2);                                    // and never more often
    vf_assert((!v.IsUndefined()) == ok, 3);                   // all-or-nothing
    if (ok) {
        vf_assert(v.type_ == ValueType::Array && v.arr_.n == cnt && off == end, 4);
        unsigned j = vf_u32(); vf_assume(j < cnt && j < 3);
        vf_assert(v.arr_.c[j].type == unsigned(ValueType::UIntLong) && v.arr_.c[j].payload == vcalls[j].id, 5);   // elements in order
    } else vf_assert(off >= L, 6);
    vf_assert(off > (ok ? 0u : 0u) && !stream.overflow, 7);
    vf_witness();
}

extern "C" void h_object_fn() {    // object = ws ( '}' | member *( ws ',' ws member ) ws '}' ) ; member = '"' string ws ':' ws value
    const C *b = mkbuf(); SS stream;
    unsigned off = vf_u32(); vf_assume(off <= L); unsigned pos = off;
#if defined(STEER) && STEER == 3   /* steering: the text at the cursor is the strictly valid member list  "":D}  (empty key, one digit) padded with legal whitespace */
    {
        vf_assume(off == 0);
        unsigned q = 0; while (q + 5 < L) { vf_assume(is_ws(b[q])); ++q; }
        vf_assume(L >= 5 && b[q] == C('"') && b[q + 1] == C('"') && b[q + 2] == C(':') && b[q + 3] >= C('1') && b[q + 3] <= C('9') && b[q + 4] == C('}'));
    }
#endif
    V v = PR::parseObject(stream, b, off, SizeT(L));
#if defined(STEER) && STEER == 2
    vf_assume(v.IsUndefined() && off < L && (b[off] == C('}') || b[off] == C(']') || b[off] == C(',')));
#endif
    bool ok = false; unsigned end = 0, cnt = 0, i = 0, u = 0; bool shape = true;
    unsigned klen[L + 2]; unsigned kfirst[L + 2];
    pos = skip_ws(b, pos);
    if (pos < L && b[pos] == C('}')) { ok = true; end = pos + 1; }
    else {
        while (pos < L && b[pos] == C('"')) {
            ++pos;
            if (!(u < nu && ucalls[u].in == pos && ucalls[u].n == L - pos)) { shape = false; break; }
            unsigned r = ucalls[u].r; unsigned kl = ucalls[u].slen ? ucalls[u].slen : (r ? r - 1 : 0);
            unsigned kf = ucalls[u].slen ? ucalls[u].first : ((r > 1) ? unsigned(b[pos]) : 0u);
            ++u;
            if (r == 0) break;
            pos += r; pos = skip_ws(b, pos);
            if (!(pos < L && b[pos] == C(':'))) break;
            ++pos; pos = skip_ws(b, pos);
            if (pos >= L) break;
            if (!(i < nv && vcalls[i].in == pos)) { shape = false; break; }
            if (!vcalls[i].def) { ++i; break; }
            klen[cnt] = kl; kfirst[cnt] = kf;
            pos = vcalls[i].out; ++i; ++cnt;
            pos = skip_ws(b, pos);
            if (pos < L && b[pos] == C(',')) { ++pos; pos = skip_ws(b, pos); continue; }
            if (pos < L && b[pos] == C('}')) { ok = true; end = pos + 1; }
            break;
        }
    }
    vf_assert(shape, 1);
    vf_assert(i == nv && u == nu, 2);
    vf_assert((!v.IsUndefined()) == ok, 3);
    if (ok) {
        vf_assert(v.type_ == ValueType::Object && v.obj_.n == cnt && off == end, 4);
        unsigned j = vf_u32(); vf_assume(j < cnt && j < 3);
        vf_assert(v.obj_.c[j].type == unsigned(ValueType::UIntLong) && v.obj_.c[j].payload == vcalls[j].id, 5);   // members in order
        vf_assert(v.obj_.c[j].keylen == klen[j] && (klen[j] == 0 || v.obj_.c[j].key[0] == kfirst[j]), 8);          // with their keys
    } else vf_assert(off >= L, 6);
    vf_assert(!stream.overflow, 7);
    vf_witness();
}

static bool lit(const C *b, unsigned p, const char *w, unsigned n) {   // b[p..p+n) == w, inside the buffer
    if (p + n > L) return false;
    for (unsigned k = 0; k < n; k++) if (b[p + k] != C(w[k])) return false;
    return true;
}
extern "C" void h_value_fn() {     // value = object / array / string / true / false / null / number
    const C *b = mkbuf(); SS stream;
    unsigned off = vf_u32(); vf_assume(off < L); unsigned in = off;
    V v = PR::parseValue(stream, b, off, SizeT(L));
    C c = b[in];
    bool def = !v.IsUndefined();
    if (c == C('{') || c == C('[')) {
        vf_assert(nv == 1 && nu == 0 && nn == 0 && vcalls[0].in == in + 1, 1);
        vf_assert(def == vcalls[0].def && off == vcalls[0].out, 2);
        if (def) vf_assert(v.payload_ == vcalls[0].id, 3);
    } else if (c == C('"')) {
        vf_assert(nv == 0 && nu == 1 && nn == 0 && ucalls[0].in == in + 1 && ucalls[0].n == L - in - 1, 4);
        vf_assert(def == (ucalls[0].r != 0), 5);
        if (def) {
            unsigned r = ucalls[0].r; unsigned sl = ucalls[0].slen ? ucalls[0].slen : r - 1;
            vf_assert(v.type_ == ValueType::String && v.payload_ == sl && off == in + 1 + r, 6);
            if (sl) vf_assert(v.sv_[0] == (ucalls[0].slen ? ucalls[0].first : unsigned(b[in + 1])), 7);
            vf_assert(stream.len == 0, 8);                     // scratch stream cleared after every string
        }
    } else if (c == C('t') || c == C('f') || c == C('n')) {
        bool m = (c == C('t')) ? lit(b, in, "true", 4) : ((c == C('f')) ? lit(b, in, "false", 5) : lit(b, in, "null", 4));
        vf_assert(nv == 0 && nu == 0 && nn == 0, 9);
        vf_assert(def == m, 10);
        if (def) vf_assert(v.type_ == ((c == C('t')) ? ValueType::True : ((c == C('f')) ? ValueType::False : ValueType::Null)) && off == in + ((c == C('f')) ? 5u : 4u), 11);
    } else {
        vf_assert(nv == 0 && nu == 0 && nn == 1 && num_in == in, 12);
        vf_assert(def == (num_type != 0), 13);
        if (def) {
            vf_assert(off == num_out && v.payload_ == num_val, 14);
            vf_assert(v.type_ == ((num_type == 2) ? ValueType::UIntLong : ((num_type == 3) ? ValueType::IntLong : ValueType::Double)), 15);
        }
    }
    if (!def) vf_assert(off >= L, 16);
    vf_assert(off > in, 17);
    vf_witness();
}

extern "C" void h_top_fn() {       // JSON-text = ws value ws   and nothing else
    const C *b = mkbuf(); SS stream;
    V v = PR::Parse(stream, b, SizeT(L));
    unsigned pos = skip_ws(b, 0);
    bool ok = false;
    if (pos < L) {
        vf_assert(nv == 1 && vcalls[0].in == pos, 1);
        if (vcalls[0].def) { unsigned e = skip_ws(b, vcalls[0].out); ok = (e == L); }
    } else vf_assert(nv == 0, 2);
    vf_assert((!v.IsUndefined()) == ok, 3);                    // whitespace-only, trailing garbage, failed value => Undefined
    if (ok) vf_assert(v.payload_ == vcalls[0].id, 4);
    vf_witness();
}

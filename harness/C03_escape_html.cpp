// C03 (string level): StringUtils::EscapeHTMLSpecialChars on every string of L code units (L concrete per query)
//   h_safe   : no < > " ' at an arbitrary output position; every & of the output starts one of the five entities;
//              stream did not overflow (CAP = 6*L+1), the unit already in the stream is preserved
//   h_decode : decode(escape(s)) == decode(s) for the single-pass reference decoder below
//   h_idem   : escape(escape(s)) == escape(s)
// Reads outside [str, str+L) are caught by CBMC on the exact-size vf_buf.
#include "fixed_stream.hpp"
#include "StringUtils.hpp"
#include "vf.h"
using namespace Qentem;
#ifndef L
#define L 4
#endif
#ifndef CHAR
#define CHAR char
#endif
typedef CHAR C;
enum { CAP = 6 * L + 1 };
typedef FixedStream<C, CAP> FS;
// destination of the second escape in h_idem: stores nothing, compares what it receives with the expected text in lockstep.
// Harness-local type => the second escaper is a separate instantiation and its Write loop lives in this file (own unwind bounds).
struct CmpStream {
    using CharType = C;
    const C *expect; unsigned n; unsigned pos{0}; bool ok{true};
    CmpStream(const C *e, unsigned len) : expect(e), n(len) {}
    void operator+=(C c) { if (pos >= n || expect[pos] != c) ok = false; ++pos; }
    void Write(const C *s, SizeT len) { SizeT i = 0; while (i < len) { *this += s[i]; ++i; } }
};

// reference: number of units of the entity that starts at s[i] (0 = none), *d = the character it denotes.
// Written independently of the implementation (no shared tables, exact unit-by-unit comparison).
static inline unsigned ent(const C *s, unsigned n, unsigned i, C *d) {
    const unsigned r = n - i;
    if (r < 4 || s[i] != C('&')) return 0;
    if (s[i + 1] == C('l') && s[i + 2] == C('t') && s[i + 3] == C(';')) { *d = C('<'); return 4; }
    if (s[i + 1] == C('g') && s[i + 2] == C('t') && s[i + 3] == C(';')) { *d = C('>'); return 4; }
    if (r < 5) return 0;
    if (s[i + 1] == C('a') && s[i + 2] == C('m') && s[i + 3] == C('p') && s[i + 4] == C(';')) { *d = C('&'); return 5; }
    if (r < 6 || s[i + 5] != C(';')) return 0;
    if (s[i + 1] == C('q') && s[i + 2] == C('u') && s[i + 3] == C('o') && s[i + 4] == C('t')) { *d = C('"'); return 6; }
    if (s[i + 1] == C('a') && s[i + 2] == C('p') && s[i + 3] == C('o') && s[i + 4] == C('s')) { *d = C('\''); return 6; }
    return 0;
}
// single left-to-right pass: an entity becomes its character, everything else (a lone '&' included) is copied
#define DECODER(name)                                                   \
    static unsigned name(const C *s, unsigned n, C *o) {                \
        unsigned i = 0, k = 0;                                          \
        while (i < n) {                                                 \
            C d = s[i];                                                 \
            unsigned e = ent(s, n, i, &d);                              \
            o[k] = d; ++k;                                              \
            i += (e ? e : 1);                                           \
        }                                                               \
        return k;                                                       \
    }
DECODER(dec_in)    // over the L input units
DECODER(dec_out)   // over the <= 6*L output units

extern "C" void h_safe() {
    const C *s = vf_buf<C>(L);
    FS out; C pre = vf_any<C>(); out += pre;                 // non-empty destination
    StringUtils::EscapeHTMLSpecialChars(out, s, SizeT(L));
    vf_assert(!out.overflow, 1);
    vf_assert(out.Length() >= 1 + L && out.First()[0] == pre, 2);
    const C *o = out.First() + 1; const unsigned n = out.Length() - 1;
    unsigned i = vf_u32();
    if (i < n) {                                             // arbitrary output position
        const C c = o[i];                                    // one assertion per character: a combined test is lowered
        vf_assert(c != C('<'), 3);                           // to an i29 bit-mask shift the translator has no helper for
        vf_assert(c != C('>'), 4);
        vf_assert(c != C('"'), 5);
        vf_assert(c != C('\''), 6);
        if (c == C('&')) { C d; vf_assert(ent(o, n, i, &d) != 0, 7); }
    }
    vf_witness();
}

extern "C" void h_decode() {
    const C *s = vf_buf<C>(L);
    FS out;
    StringUtils::EscapeHTMLSpecialChars(out, s, SizeT(L));
    vf_assert(!out.overflow, 1);
    C a[L + 1], b[CAP];
    const unsigned na = dec_in(s, L, a), nb = dec_out(out.First(), out.Length(), b);
    vf_assert(na == nb, 2);
    unsigned i = vf_u32();
    if (i < na && i < nb) vf_assert(a[i] == b[i], 3);
    vf_witness();
}

__attribute__((noinline)) static void esc2(CmpStream &o, const C *s, SizeT n) { StringUtils::EscapeHTMLSpecialChars(o, s, n); }

extern "C" void h_idem() {
    const C *s = vf_buf<C>(L);
    FS o1;
    StringUtils::EscapeHTMLSpecialChars(o1, s, SizeT(L));
    vf_assert(!o1.overflow, 1);
    CmpStream o2(o1.First(), o1.Length());
    esc2(o2, o1.First(), o1.Length());
    vf_assert(o2.ok, 2);                       // every unit of the second output equals the first output at the same position
    vf_assert(o2.pos == o1.Length(), 3);       // and the lengths agree
    vf_witness();
}

// C03 (string level): StringUtils::EscapeHTMLSpecialChars on every string of L code units (L concrete per query,
// contents fully symbolic).  Reads outside [str, str+L) are caught by CBMC on the exact-size vf_buf in every harness.
//
// A. the real stream protocol with the FixedStream stand-in (buffer read back through First()/Length()); small L
//   h_safe   : no < > " ' at an arbitrary (symbolic index) output position; every & of the output starts one of the
//              five entities; no overflow with CAP = 6*L+1; the unit already in the stream is preserved
//   h_decode : decode(escape(s)) == decode(s), single-pass reference decoder on both sides
//   h_idem   : escape(escape(s)) == escape(s)
// B. the same clauses stated on the sequence of units the escaper hands to the stream (the escaper only ever calls
//    Stream::Write; a stream appends).  The observers keep O(1) state, which is what lets the solver reach L = 8.
//   h_lang   : the emitted sequence is in (plain | &amp; | &lt; | &gt; | &quot; | &apos;)*, plain = any unit but & < > " '
//              (<=> no special anywhere and every & starts an entity)
//   h_dec    : entity-decoding the emitted sequence on the fly gives decode(s) (reference decoder on the input)
//   h_len    : L <= number of emitted units <= 6*L   (=> CAP = 6*L+1 never overflows behind a one-unit prefix)
//   h_fix    : every t in the language of h_lang with |t| = L is a fixed point: escape(t) == t
//              (with h_lang: escape(escape(s)) == escape(s) whenever escape(s) has at most L units)
//   h_obs    : (no escaper) the LangStream observer agrees with the reference on EVERY word t of L units: it accepts t iff the
//              ent()-based scan finds no special unit and no '&' that does not start an entity, and then decodes t like dec_in
#include "fixed_stream.hpp"
#include "StringUtils.hpp"
#include "vf.h"
using namespace Qentem;
#ifndef L
#define L 4
#endif
#ifndef CHAR
#define CHAR char
#endif
typedef CHAR C;
enum { CAP = 6 * L + 1 };
typedef FixedStream<C, CAP> FS;

// ---------------------------------------------------------------------------------------------------------------
// reference: number of units of the entity that starts at s[i] (0 = none), *d = the character it denotes.
// Written independently of the implementation (no shared tables, exact unit-by-unit comparison).
static inline unsigned ent(const C *s, unsigned n, unsigned i, C *d) {
    const unsigned r = n - i;
    if (r < 4 || s[i] != C('&')) return 0;
    if (s[i + 1] == C('l') && s[i + 2] == C('t') && s[i + 3] == C(';')) { *d = C('<'); return 4; }
    if (s[i + 1] == C('g') && s[i + 2] == C('t') && s[i + 3] == C(';')) { *d = C('>'); return 4; }
    if (r < 5) return 0;
    if (s[i + 1] == C('a') && s[i + 2] == C('m') && s[i + 3] == C('p') && s[i + 4] == C(';')) { *d = C('&'); return 5; }
    if (r < 6 || s[i + 5] != C(';')) return 0;
    if (s[i + 1] == C('q') && s[i + 2] == C('u') && s[i + 3] == C('o') && s[i + 4] == C('t')) { *d = C('"'); return 6; }
    if (s[i + 1] == C('a') && s[i + 2] == C('p') && s[i + 3] == C('o') && s[i + 4] == C('s')) { *d = C('\''); return 6; }
    return 0;
}
// single left-to-right pass: an entity becomes its character, everything else (a lone '&' included) is copied
#define DECODER(name)                                                   \
    static unsigned name(const C *s, unsigned n, C *o) {                \
        unsigned i = 0, k = 0;                                          \
        while (i < n) {                                                 \
            C d = s[i];                                                 \
            unsigned e = ent(s, n, i, &d);                              \
            o[k] = d; ++k;                                              \
            i += (e ? e : 1);                                           \
        }                                                               \
        return k;                                                       \
    }
DECODER(dec_in)    // over the L input units
DECODER(dec_out)   // over the <= 6*L output units

// ---------------------------------------------------------------------------------------------------------------
// Observer streams (harness types for the Stream_T parameter).

// Recogniser of (plain | entity)* over the emitted units; optionally decodes on the fly and compares with decode(in).
//   states: 0 idle | 1 "&" | 2 "&a" | 3 "&am" | 5 "&ap" | 6 "&apo" | 8 "&l","&g" | 9 entity body complete, ';' due
//           12 "&q" | 13 "&qu" | 14 "&quo" | 16 reject (sticky)
struct LangStream {
    using CharType = C;
    unsigned st{0};
    C pend{0};                                        // character denoted by the entity being read
    const C *expect{nullptr}; unsigned n{0}, k{0}; bool same{true};   // decode(in), compared in lockstep
    void emit(C d) { if (expect != nullptr) { if (k >= n || expect[k] != d) same = false; ++k; } }
    void operator+=(C c) {
        unsigned nx = 16;
        if (st == 0) {
            if (c == C('&')) nx = 1;
            else if (c == C('<')) nx = 16;
            else if (c == C('>')) nx = 16;
            else if (c == C('"')) nx = 16;
            else if (c == C('\'')) nx = 16;
            else { nx = 0; emit(c); }
        } else if (st == 1) {
            if (c == C('a')) nx = 2;
            else if (c == C('l')) { nx = 8; pend = C('<'); }
            else if (c == C('g')) { nx = 8; pend = C('>'); }
            else if (c == C('q')) { nx = 12; pend = C('"'); }
        } else if (st == 2) {
            if (c == C('m')) { nx = 3; pend = C('&'); }
            else if (c == C('p')) { nx = 5; pend = C('\''); }
        } else if (st == 3)  { if (c == C('p')) nx = 9; }
        else if (st == 5)    { if (c == C('o')) nx = 6; }
        else if (st == 6)    { if (c == C('s')) nx = 9; }
        else if (st == 8)    { if (c == C('t')) nx = 9; }
        else if (st == 12)   { if (c == C('u')) nx = 13; }
        else if (st == 13)   { if (c == C('o')) nx = 14; }
        else if (st == 14)   { if (c == C('t')) nx = 9; }
        else if (st == 9)    { if (c == C(';')) { nx = 0; emit(pend); } }
        st = nx;
    }
    void Write(const C *s, SizeT len) { SizeT i = 0; while (i < len) { *this += s[i]; ++i; } }
};
// counts, stores nothing
struct CountStream {
    using CharType = C;
    unsigned n{0};
    void operator+=(C) { ++n; }
    void Write(const C *, SizeT len) { n += len; }
};
// stores nothing, compares what it receives with the expected text in lockstep
struct CmpStream {
    using CharType = C;
    const C *expect; unsigned n; unsigned pos{0}; bool ok{true};
    CmpStream(const C *e, unsigned len) : expect(e), n(len) {}
    void operator+=(C c) { if (pos >= n || expect[pos] != c) ok = false; ++pos; }
    void Write(const C *s, SizeT len) { SizeT i = 0; while (i < len) { *this += s[i]; ++i; } }
};

// ---------------------------------------------------------------------------------------------------------------
// A. FixedStream

extern "C" void h_safe() {
    const C *s = vf_buf<C>(L);
    FS out; C pre = vf_any<C>(); out += pre;                 // non-empty destination
    StringUtils::EscapeHTMLSpecialChars(out, s, SizeT(L));
    vf_assert(!out.overflow, 1);
    vf_assert(out.Length() >= 1 + L && out.First()[0] == pre, 2);
    const C *o = out.First() + 1; const unsigned n = out.Length() - 1;
    unsigned i = vf_u32();
    if (i < n) {                                             // arbitrary output position
        const C c = o[i];                                    // one assertion per character: a combined test is lowered
        vf_assert(c != C('<'), 3);                           // to an i29 bit-mask shift the translator has no helper for
        vf_assert(c != C('>'), 4);
        vf_assert(c != C('"'), 5);
        vf_assert(c != C('\''), 6);
        if (c == C('&')) { C d; vf_assert(ent(o, n, i, &d) != 0, 7); }
    }
    vf_witness();
}

extern "C" void h_decode() {
    const C *s = vf_buf<C>(L);
    FS out;
    StringUtils::EscapeHTMLSpecialChars(out, s, SizeT(L));
    vf_assert(!out.overflow, 1);
    C a[L + 1], b[CAP];
    const unsigned na = dec_in(s, L, a), nb = dec_out(out.First(), out.Length(), b);
    vf_assert(na == nb, 2);
    unsigned i = vf_u32();
    if (i < na && i < nb) vf_assert(a[i] == b[i], 3);
    vf_witness();
}

__attribute__((noinline)) static void esc2(CmpStream &o, const C *s, SizeT n) { StringUtils::EscapeHTMLSpecialChars(o, s, n); }

extern "C" void h_idem() {
    const C *s = vf_buf<C>(L);
    FS o1;
    StringUtils::EscapeHTMLSpecialChars(o1, s, SizeT(L));
    vf_assert(!o1.overflow, 1);
    CmpStream o2(o1.First(), o1.Length());
    esc2(o2, o1.First(), o1.Length());
    vf_assert(o2.ok, 2);                       // every unit of the second output equals the first output at the same position
    vf_assert(o2.pos == o1.Length(), 3);       // and the lengths agree
    vf_witness();
}

// ---------------------------------------------------------------------------------------------------------------
// B. observers

extern "C" void h_lang() {
    const C *s = vf_buf<C>(L);
    LangStream out;
    StringUtils::EscapeHTMLSpecialChars(out, s, SizeT(L));
    vf_assert(out.st == 0, 1);
    vf_witness();
}

extern "C" void h_dec() {
    const C *s = vf_buf<C>(L);
    C a[L + 1];
    const unsigned na = dec_in(s, L, a);       // reference decoding of the original string
    LangStream out; out.expect = a; out.n = na;
    StringUtils::EscapeHTMLSpecialChars(out, s, SizeT(L));
    vf_assert(out.st == 0, 1);                 // (decoding is only defined by the observer on its own language)
    vf_assert(out.same, 2);                    // decode(out) is a prefix of decode(in), character by character
    vf_assert(out.k == na, 3);                 // and has the same length
    vf_witness();
}

extern "C" void h_len() {
    const C *s = vf_buf<C>(L);
    CountStream out;
    StringUtils::EscapeHTMLSpecialChars(out, s, SizeT(L));
    vf_assert(out.n >= L, 1);
    vf_assert(out.n <= 6 * L, 2);
    vf_witness();
}

extern "C" void h_fix() {
    const C *t = vf_buf<C>(L);
    LangStream v; v.Write(t, SizeT(L));
    vf_assume(v.st == 0);                      // t is an arbitrary word of the output language
    CmpStream out(t, L);
    StringUtils::EscapeHTMLSpecialChars(out, t, SizeT(L));
    vf_assert(out.ok, 1);
    vf_assert(out.pos == L, 2);
    vf_witness();
}

// the observer itself against the reference, on arbitrary words
extern "C" void h_obs() {
    const C *t = vf_buf<C>(L);
    bool valid = true;                          // reference: no < > " ' and every & starts an entity
    unsigned i = 0;
    while (i < L) {
        const C c = t[i];
        if (c == C('&')) {
            C d; const unsigned e = ent(t, L, i, &d);
            if (e == 0) { valid = false; i += 1; } else i += e;
        } else {
            if (c == C('<')) valid = false;
            if (c == C('>')) valid = false;
            if (c == C('"')) valid = false;
            if (c == C('\'')) valid = false;
            i += 1;
        }
    }
    C a[L + 1];
    const unsigned na = dec_in(t, L, a);
    LangStream v; v.expect = a; v.n = na;
    v.Write(t, SizeT(L));
    vf_assert((v.st == 0) == valid, 1);
    if (valid) { vf_assert(v.same, 2); vf_assert(v.k == na, 3); }
    vf_witness();
}

// C18: Value::GroupBy on the REAL Value<char>: an array of NOBJ objects built through the public API; each object has the
// grouping key "y" and one other member "ym" (its name has the grouping key as a proper prefix) in an order that is concrete per query (ORD bit i = 1: "ym" first in object i);
// the grouping-key values follow a concrete pattern per query (which objects share a key); the other members are symbolic.  Oracle: the reference partition computed in the harness.
#include "Value.hpp"
#include "vf.h"
using namespace Qentem;
typedef Value<char> V;
#ifndef NOBJ
#define NOBJ 2
#endif
#ifndef ORD
#define ORD 0
#endif
#ifndef PAT
#define PAT 0
#endif
#ifndef MKIND
#define MKIND 0   /* other member: 0 symbolic 64-bit number, 3 the LAST object has "x" instead of the grouping key (GroupBy must return false), 2 the same as 0 plus a further member "n" in object 0 ONLY (heterogeneous records: nothing of an earlier record may show up in a later one), 1 concrete one-unit string 'p'+i (keeps a mis-grouped result's shape concrete, so a key-position defect is decided instead of timing out) */
#endif
#ifndef KIND
#define KIND 0     /* 0: one-unit string keys, 1: boolean keys, 2: null / string mix, 3: one-digit unsigned keys */
#endif

// No string -> number coercion is part of grouping; the scanner (and the big-integer kernels behind it) is cut out and asserted unreachable.
extern "C" unsigned char stub_no_strtonum(QNumber64 *, const char *, unsigned *, unsigned) { vf_assert(false, 99); return 0; }
extern "C" void stub_no_real(void *, unsigned long long, unsigned long long) { vf_assert(false, 98); }   // no real-number formatting either
struct KeyVal { unsigned kind; char s; bool b; unsigned d; };     // model of a grouping-key value
static void set_key(V &o, const KeyVal &k) {
#if KIND == 0
    o["y"] = V{&k.s, SizeT{1}};
#elif KIND == 1
    o["y"] = k.b;
#elif KIND == 2
    if (k.b) o["y"] = nullptr; else o["y"] = V{&k.s, SizeT{1}};
#else
    o["y"] = SizeT64(k.d);
#endif
}
// textual form of a key value: length and units
static unsigned key_text(const KeyVal &k, char *t) {
#if KIND == 0
    t[0] = k.s; return 1;
#elif KIND == 1
    if (k.b) { t[0] = 't'; t[1] = 'r'; t[2] = 'u'; t[3] = 'e'; return 4; }
    t[0] = 'f'; t[1] = 'a'; t[2] = 'l'; t[3] = 's'; t[4] = 'e'; return 5;
#elif KIND == 2
    if (k.b) { t[0] = 'n'; t[1] = 'u'; t[2] = 'l'; t[3] = 'l'; return 4; }
    t[0] = k.s; return 1;
#else
    t[0] = char('0' + k.d); return 1;
#endif
}
static bool same_text(const char *a, unsigned la, const char *b, unsigned lb) {
    if (la != lb) return false;
    for (unsigned i = 0; i < la; i++) if (a[i] != b[i]) return false;
    return true;
}

extern "C" void h_group() {
    KeyVal k[NOBJ]; unsigned long long m[NOBJ]; unsigned long long extra = vf_u64(); (void)extra;
    // grouping-key values: CONCRETE per query (PAT gives the group id of every object, base 3), because a symbolic key text makes the
    // hash-table shape symbolic and every ~Value/reset on it explodes (measured: no verdict in 300 s); the other members stay symbolic
    for (unsigned i = 0; i < NOBJ; i++) {
        unsigned gsel = (PAT / (i == 0 ? 1 : (i == 1 ? 3 : 9))) % 3;
        k[i].s = char('a' + gsel); k[i].b = (gsel & 1) != 0; k[i].d = 1 + gsel; m[i] = vf_u64();
    }
    // the source array and the result live in raw storage and are never destroyed: the symbolic SHAPE of the result would make
    // the mutually recursive ~Value group explode, and release-exactly-once is C16's subject, not this property's
    alignas(V) static char raw[3 * sizeof(V)];
    V &arr = *new (&raw[0]) V;
    for (unsigned i = 0; i < NOBJ; i++) {
        V o;
#if MKIND == 3   /* the LAST record lacks the grouping key (it has "x" instead): GroupBy must fail */
        // (members are concrete one-unit strings: if a broken GroupBy took one of them for the key, its text must not be a symbolic number - no verdict then)
        char ms3 = char('p' + i), xs3 = 'q';
        if (i == NOBJ - 1) { if ((ORD >> i) & 1) { o["ym"] = V{&ms3, SizeT{1}}; o["x"] = V{&xs3, SizeT{1}}; } else { o["x"] = V{&xs3, SizeT{1}}; o["ym"] = V{&ms3, SizeT{1}}; } }
        else if ((ORD >> i) & 1) { o["ym"] = V{&ms3, SizeT{1}}; set_key(o, k[i]); }
        else                { set_key(o, k[i]); o["ym"] = V{&ms3, SizeT{1}}; }
#elif MKIND == 0 || MKIND == 2
        if ((ORD >> i) & 1) { o["ym"] = SizeT64(m[i]); set_key(o, k[i]); }
        else                { set_key(o, k[i]); o["ym"] = SizeT64(m[i]); }
#if MKIND == 2
        if (i == 0) o["n"] = SizeT64(extra);
#endif
#else
        char ms = char('p' + i);
        if ((ORD >> i) & 1) { o["ym"] = V{&ms, SizeT{1}}; set_key(o, k[i]); }
        else                { set_key(o, k[i]); o["ym"] = V{&ms, SizeT{1}}; }
#endif
        arr += static_cast<V &&>(o);
    }
    vf_assert(arr.IsArray() && arr.Size() == NOBJ, 1);
    V &g = *new (&raw[sizeof(V)]) V;
    bool ok = arr.GroupBy(g, "y", SizeT{1});
#if MKIND == 3
    vf_assert(!ok, 12);                                              // a record without the key: no partition
    { const V *src = arr.GetValue(SizeT(NOBJ - 1)); vf_assert(src != nullptr && src->IsObject() && src->Size() == 2, 13); }   // source untouched
    vf_witness();
    return;
#endif
    vf_assert(ok && g.IsObject(), 2);
    // reference partition: group of object i = index of the first object with the same key text
    char txt[NOBJ][8]; unsigned tl[NOBJ]; unsigned first[NOBJ]; unsigned ngroups = 0; unsigned gid[NOBJ];
    for (unsigned i = 0; i < NOBJ; i++) {
        tl[i] = key_text(k[i], txt[i]);
        first[i] = i;
        for (unsigned j = 0; j < i; j++) if (same_text(txt[i], tl[i], txt[j], tl[j])) { first[i] = j; break; }
        if (first[i] == i) { gid[i] = ngroups; ++ngroups; } else gid[i] = gid[first[i]];
    }
    vf_assert(g.Size() == ngroups, 3);                               // one member per distinct key text
    unsigned i = vf_u32(); vf_assume(i < NOBJ);                      // an arbitrary input object ...
    const V *grp = g.GetValue(&txt[i][0], SizeT(tl[i]));             // ... lands in the group named by ITS key value
    vf_assert(grp != nullptr && grp->IsArray(), 4);
    unsigned pos = 0, gsize = 0;                                     // position inside its group = number of earlier objects of the same group
    for (unsigned j = 0; j < NOBJ; j++) { if (gid[j] == gid[i]) { if (j < i) ++pos; ++gsize; } }
    vf_assert(grp->Size() == gsize, 5);                              // every input object in exactly one group
    const V *e = grp->GetValue(SizeT(pos));
#if MKIND == 2
    vf_assert(e != nullptr && e->IsObject() && e->Size() == (i == 0 ? 2u : 1u), 6);
    { const V *nv = (e != nullptr) ? e->GetValue("n", SizeT{1}) : nullptr;
      vf_assert((i == 0) ? (nv != nullptr && nv->IsUInt64() && nv->GetUInt64() == extra) : (nv == nullptr), 11); }   // members of one record never leak into another
#else
    vf_assert(e != nullptr && e->IsObject() && e->Size() == 1, 6);   // grouping key removed, nothing else
#endif
    const V *mv = (e != nullptr) ? e->GetValue("ym", SizeT{2}) : nullptr;
#if MKIND == 0 || MKIND == 2
    vf_assert(mv != nullptr && mv->IsUInt64() && mv->GetUInt64() == m[i], 7);   // other members unchanged
#else
    vf_assert(mv != nullptr && mv->IsString() && mv->Length() == 1 && mv->StringStorage()[0] == char('p' + i), 7);
#endif
    const String<char> *gk = g.GetKey(SizeT(gid[i]));                // group names in order of first appearance
    vf_assert(gk != nullptr && gk->IsEqual(&txt[i][0], SizeT(tl[i])), 8);
    // the source array is unchanged
    const V *src = arr.GetValue(SizeT(i));
    vf_assert(src != nullptr && src->IsObject() && src->Size() == ((MKIND == 2 && i == 0) ? 3u : 2u), 9);
    const V *sm = src->GetValue("ym", SizeT{2});
#if MKIND == 0 || MKIND == 2
    vf_assert(sm != nullptr && sm->GetUInt64() == m[i], 10);
#else
    vf_assert(sm != nullptr && sm->IsString() && sm->Length() == 1, 10);
#endif
    vf_witness();
}

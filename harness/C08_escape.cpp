// C08 (escape part): JSONUtils::Escape on every string of L code units (L concrete per query, contents symbolic)
//   h_valid : the escaped text is a legal RFC 8259 string body: no raw unit < 0x20, no unescaped '"', every '\' starts
//             \" \\ \/ \b \f \n \r \t or \uXXXX; no overflow; the unit already in the stream is preserved
//   h_round : UnEscape(escaped + '"') consumes everything and, with the caller's convention of JSON.hpp:193-205
//             (stream left empty = "no escape seen, use the raw slice"), gives back the original string
// Known finding C08-ctrl-raw: units < 0x20 other than \b \t \n \f \r are copied raw by Escape.
#include "fixed_stream.hpp"
#include "JSONUtils.hpp"
#include "vf.h"
using namespace Qentem;
#ifndef L
#define L 3
#endif
#ifndef CHAR
#define CHAR char
#endif
typedef CHAR C;
enum { CAPE = 6 * L + 2, CAPD = L + 1 };   // escaped: prefix/closing quote + at most \uXXXX per unit; decoded: L (+1 to see an excess)
typedef FixedStream<C, CAPE> FSE;
typedef FixedStream<C, CAPD> FSD;

static inline unsigned u(C c) { return sizeof(C) == 1 ? (unsigned)(unsigned char)c : (unsigned)c; }   // code unit as unsigned

// predicate of C08-ctrl-raw: some unit is a control character that has no two-character escape
static bool kf_ctrl(const C *s, unsigned n) {
    bool r = false;
    unsigned i = 0;
    while (i < n) {
        const unsigned c = u(s[i]);
        if (c < 0x20U) { if (c < 8U) r = true; if (c == 11U) r = true; if (c > 13U) r = true; }
        ++i;
    }
    return r;
}
static inline bool hexd(C ch) {
    const unsigned c = u(ch);
    if (c >= '0' && c <= '9') return true;
    if (c >= 'a' && c <= 'f') return true;
    return (c >= 'A' && c <= 'F');
}

extern "C" void h_valid() {
    const C *s = vf_buf<C>(L);
#ifdef KF_EXCL_C08_ctrl_raw
    vf_assume(!kf_ctrl(s, L));
#endif
#ifdef KF_ONLY_C08_ctrl_raw
    vf_assume(kf_ctrl(s, L));
#endif
    FSE e; C pre = vf_any<C>(); e += pre;                    // non-empty destination
    JSONUtils::Escape(s, SizeT(L), e);
    vf_assert(!e.overflow, 1);
    vf_assert(e.Length() >= 1 + L && e.First()[0] == pre, 2);
    const C *o = e.First() + 1; const unsigned n = e.Length() - 1;
    unsigned i = 0;
    while (i < n) {                                          // reference scanner for the body of a JSON string
        const unsigned c = u(o[i]);
        if (c == '\\') {
            if (i + 1 >= n) { vf_assert(false, 3); break; }  // dangling backslash
            const unsigned c2 = u(o[i + 1]);
            if (c2 == 'u') {
                if (i + 5 >= n) { vf_assert(false, 4); break; }
                vf_assert(hexd(o[i + 2]) && hexd(o[i + 3]) && hexd(o[i + 4]) && hexd(o[i + 5]), 5);
                i += 6;
            } else {
                bool ok = false;
                if (c2 == '"') ok = true;  if (c2 == '\\') ok = true; if (c2 == '/') ok = true; if (c2 == 'b') ok = true;
                if (c2 == 'f') ok = true;  if (c2 == 'n') ok = true;  if (c2 == 'r') ok = true; if (c2 == 't') ok = true;
                vf_assert(ok, 6);                            // not a JSON escape
                i += 2;
            }
        } else {
            vf_assert(c >= 0x20U, 7);                        // raw control character
            vf_assert(c != '"', 8);                          // unescaped quote
            i += 1;
        }
    }
    vf_witness();
}

extern "C" void h_round() {
    const C *s = vf_buf<C>(L);
    FSE e;
    JSONUtils::Escape(s, SizeT(L), e);
    e += C('"');                                             // closing quote, as Stringify writes it
    FSD d;                                                   // the parser's scratch stream: empty on entry
    const SizeT ret = JSONUtils::UnEscape(e.First(), e.Length(), d);
    vf_assert(!e.overflow && !d.overflow, 1);
    vf_assert(ret == e.Length(), 2);                         // consumed up to and including the closing quote
    if (ret != 0) {
        const C *r = e.First(); unsigned rn = ret - 1;       // JSON.hpp: raw slice unless the stream received something
        if (d.IsNotEmpty()) { r = d.First(); rn = d.Length(); }
        vf_assert(rn == L, 3);
        unsigned i = vf_u32();
        if (i < L && i < rn) vf_assert(r[i] == s[i], 4);
    }
    vf_witness();
}

// C05/C07 replay lifting: a unit-level counterexample (buffer + cursor) is turned into a public-API input by dropping
// the bytes before the construct's opening bracket (the parser functions never read below the cursor) and run through
// the REAL JSON::Parse with the real Value on an exact-size heap buffer under ASan/UBSan.  Tape order = harness order:
// L buffer units, then (except for the top-level harness) the 32-bit cursor.
#include "JSON.hpp"
#include "vf.h"
using namespace Qentem;
#ifndef L
#define L 4
#endif
#ifndef CHAR
#define CHAR char
#endif
typedef CHAR C;
static void run(const C *b, unsigned off, int prefix) {
    unsigned n = (L - off) + (prefix ? 1 : 0);
    C *e = (C *)vf_alloc(n * sizeof(C));          // exact-size copy (n may be 0)
    unsigned k = 0;
    if (prefix) { e[k] = C(prefix); ++k; }
    for (unsigned i = off; i < L; i++) { e[k] = b[i]; ++k; }
    Value<C> v = JSON::Parse(e, SizeT(n));
    vf_obs(v.IsUndefined());
    vf_free(e);
}
extern "C" void lift_top()    { const C *b = vf_buf<C>(L); run(b, 0, 0); }
extern "C" void lift_value()  { const C *b = vf_buf<C>(L); unsigned off = vf_u32(); if (off > L) off = L; run(b, off, 0); }
extern "C" void lift_array()  { const C *b = vf_buf<C>(L); unsigned off = vf_u32(); if (off > L) off = L; run(b, off, '['); }
extern "C" void lift_object() { const C *b = vf_buf<C>(L); unsigned off = vf_u32(); if (off > L) off = L; run(b, off, '{'); }
extern "C" void lift_string() { const C *b = vf_buf<C>(L); unsigned off = vf_u32(); if (off > L) off = L; run(b, off, '"'); }

// C05/C07 replay lifting: a unit-level counterexample (buffer + cursor) is turned into a public-API input by dropping
// the bytes before the construct's opening bracket (the parser functions never read below the cursor) and run through
// the REAL JSON::Parse with the real Value on an exact-size heap buffer under ASan/UBSan.  Tape order = harness order:
// L buffer units, then (except for the top-level harness) the 32-bit cursor.
#include "JSON.hpp"
#include "vf.h"
using namespace Qentem;
#ifndef L
#define L 4
#endif
#ifndef CHAR
#define CHAR char
#endif
typedef CHAR C;
static void run(const C *b, unsigned off, int prefix) {
    unsigned n = (L - off) + (prefix ? 1 : 0);
    C *e = (C *)vf_alloc(n * sizeof(C));          // exact-size copy (n may be 0)
    unsigned k = 0;
    if (prefix) { e[k] = C(prefix); ++k; }
    for (unsigned i = off; i < L; i++) { e[k] = b[i]; ++k; }
    Value<C> v = JSON::Parse(e, SizeT(n));
    vf_obs(v.IsUndefined());
    vf_free(e);
}
extern "C" void lift_top()    { const C *b = vf_buf<C>(L); run(b, 0, 0); }
extern "C" void lift_value()  { const C *b = vf_buf<C>(L); unsigned off = vf_u32(); if (off > L) off = L; run(b, off, 0); }
extern "C" void lift_array()  { const C *b = vf_buf<C>(L); unsigned off = vf_u32(); if (off > L) off = L; run(b, off, '['); }
extern "C" void lift_object() { const C *b = vf_buf<C>(L); unsigned off = vf_u32(); if (off > L) off = L; run(b, off, '{'); }
extern "C" void lift_string() { const C *b = vf_buf<C>(L); unsigned off = vf_u32(); if (off > L) off = L; run(b, off, '"'); }

// ---- C06/C07 lifting: functional counterexamples of a production are embedded in enclosing contexts and the REAL
// JSON::Parse result is compared with a LIBERAL structural recogniser (brackets, commas, colons and string quoting must
// be right; any run of other units is accepted as a scalar token).  Liberal leaves can only make the recogniser accept
// more, so "recogniser rejects but Parse returns a defined value" is a definite all-or-nothing violation.
static bool lws(C c) { return c == C(' ') || c == C('\n') || c == C('\t') || c == C('\r'); }
static bool lval(const C *t, unsigned n, unsigned &p, unsigned depth);
static void lskip(const C *t, unsigned n, unsigned &p) { while (p < n && lws(t[p])) ++p; }
static bool lstr(const C *t, unsigned n, unsigned &p) {      // at the opening quote
    ++p;
    while (p < n) { if (t[p] == C('\\')) { p += 2; continue; } if (t[p] == C('"')) { ++p; return true; } ++p; }
    return false;
}
static bool lval(const C *t, unsigned n, unsigned &p, unsigned depth) {
    if (depth > 40 || p >= n) return false;
    if (t[p] == C('[')) {
        ++p; lskip(t, n, p);
        if (p < n && t[p] == C(']')) { ++p; return true; }
        while (true) {
            if (!lval(t, n, p, depth + 1)) return false;
            lskip(t, n, p);
            if (p < n && t[p] == C(',')) { ++p; lskip(t, n, p); continue; }
            if (p < n && t[p] == C(']')) { ++p; return true; }
            return false;
        }
    }
    if (t[p] == C('{')) {
        ++p; lskip(t, n, p);
        if (p < n && t[p] == C('}')) { ++p; return true; }
        while (true) {
            if (!(p < n && t[p] == C('"'))) return false;
            if (!lstr(t, n, p)) return false;
            lskip(t, n, p);
            if (!(p < n && t[p] == C(':'))) return false;
            ++p; lskip(t, n, p);
            if (!lval(t, n, p, depth + 1)) return false;
            lskip(t, n, p);
            if (p < n && t[p] == C(',')) { ++p; lskip(t, n, p); continue; }
            if (p < n && t[p] == C('}')) { ++p; return true; }
            return false;
        }
    }
    if (t[p] == C('"')) return lstr(t, n, p);
    unsigned s = p;
    while (p < n && !lws(t[p]) && t[p] != C(',') && t[p] != C(']') && t[p] != C('}') && t[p] != C(':') && t[p] != C('[') && t[p] != C('{') && t[p] != C('"')) ++p;
    return p > s;
}
static bool liberal_valid(const C *t, unsigned n) {
    unsigned p = 0; lskip(t, n, p);
    if (!lval(t, n, p, 0)) return false;
    lskip(t, n, p);
    return p == n;
}
// STRICT RFC 8259 recogniser (returns 1 valid, 0 invalid, 2 "do not know": numerals whose range the library may legitimately
// reject, i.e. an exponent of more than two digits or more than 15 significant digits).  "Strictly valid but Parse returns
// Undefined" is a definite completeness violation.
static int sval(const C *t, unsigned n, unsigned &p, unsigned depth);
static bool shex(C c) { return (c >= C('0') && c <= C('9')) || (c >= C('a') && c <= C('f')) || (c >= C('A') && c <= C('F')); }
static int sstr(const C *t, unsigned n, unsigned &p) {
    ++p;
    while (p < n) {
        C c = t[p];
        if (c == C('"')) { ++p; return 1; }
        if (c >= 0 && unsigned(c) < 0x20u) return 0;
        if (c == C('\\')) {
            if (p + 1 >= n) return 0;
            C e = t[p + 1];
            if (e == C('u')) { if (p + 5 >= n) return 0; for (unsigned k = 2; k < 6; k++) if (!shex(t[p + k])) return 0; p += 6; continue; }
            if (e == C('"') || e == C('\\') || e == C('/') || e == C('b') || e == C('f') || e == C('n') || e == C('r') || e == C('t')) { p += 2; continue; }
            return 0;
        }
        ++p;
    }
    return 0;
}
static int snum(const C *t, unsigned n, unsigned &p) {
    unsigned digits = 0;
    if (p < n && t[p] == C('-')) ++p;
    if (p >= n) return 0;
    if (t[p] == C('0')) { ++p; }
    else if (t[p] >= C('1') && t[p] <= C('9')) { while (p < n && t[p] >= C('0') && t[p] <= C('9')) { ++p; ++digits; } }
    else return 0;
    if (p < n && t[p] == C('.')) { ++p; unsigned s = p; while (p < n && t[p] >= C('0') && t[p] <= C('9')) { ++p; ++digits; } if (p == s) return 0; }
    unsigned ed = 0;
    if (p < n && (t[p] == C('e') || t[p] == C('E'))) { ++p; if (p < n && (t[p] == C('+') || t[p] == C('-'))) ++p; unsigned s = p; while (p < n && t[p] >= C('0') && t[p] <= C('9')) { ++p; ++ed; } if (p == s) return 0; }
    return (ed > 2 || digits > 15) ? 2 : 1;
}
static bool slit(const C *t, unsigned n, unsigned &p, const char *w) { unsigned k = 0; while (w[k]) { if (p + k >= n || t[p + k] != C(w[k])) return false; ++k; } p += k; return true; }
static int sval(const C *t, unsigned n, unsigned &p, unsigned depth) {
    if (depth > 40 || p >= n) return 0;
    int unk = 1;
    if (t[p] == C('[')) {
        ++p; lskip(t, n, p);
        if (p < n && t[p] == C(']')) { ++p; return 1; }
        while (true) {
            int r = sval(t, n, p, depth + 1); if (r == 0) return 0; if (r == 2) unk = 2;
            lskip(t, n, p);
            if (p < n && t[p] == C(',')) { ++p; lskip(t, n, p); continue; }
            if (p < n && t[p] == C(']')) { ++p; return unk; }
            return 0;
        }
    }
    if (t[p] == C('{')) {
        ++p; lskip(t, n, p);
        if (p < n && t[p] == C('}')) { ++p; return 1; }
        while (true) {
            if (!(p < n && t[p] == C('"'))) return 0;
            if (sstr(t, n, p) == 0) return 0;
            lskip(t, n, p);
            if (!(p < n && t[p] == C(':'))) return 0;
            ++p; lskip(t, n, p);
            int r = sval(t, n, p, depth + 1); if (r == 0) return 0; if (r == 2) unk = 2;
            lskip(t, n, p);
            if (p < n && t[p] == C(',')) { ++p; lskip(t, n, p); continue; }
            if (p < n && t[p] == C('}')) { ++p; return unk; }
            return 0;
        }
    }
    if (t[p] == C('"')) return sstr(t, n, p);
    if (t[p] == C('t')) return slit(t, n, p, "true") ? 1 : 0;
    if (t[p] == C('f')) return slit(t, n, p, "false") ? 1 : 0;
    if (t[p] == C('n')) return slit(t, n, p, "null") ? 1 : 0;
    return snum(t, n, p);
}
static int strict_valid(const C *t, unsigned n) {
    unsigned p = 0; lskip(t, n, p);
    int r = sval(t, n, p, 0); if (r == 0) return 0;
    lskip(t, n, p);
    return (p == n) ? r : 0;
}
static void run_ctx(const C *b, unsigned off, const char *pre, const char *post) {
    unsigned np = 0; while (pre[np]) ++np; unsigned nq = 0; while (post[nq]) ++nq;
    unsigned n = np + (L - off) + nq;
    C *e = (C *)vf_alloc(n * sizeof(C));
    unsigned k = 0;
    for (unsigned i = 0; i < np; i++) { e[k] = C(pre[i]); ++k; }
    for (unsigned i = off; i < L; i++) { e[k] = b[i]; ++k; }
    for (unsigned i = 0; i < nq; i++) { e[k] = C(post[i]); ++k; }
    Value<C> v = JSON::Parse(e, SizeT(n));
    bool ref = liberal_valid(e, n);
    vf_assert(ref || v.IsUndefined(), 77);       // structurally invalid text must be rejected
    vf_assert(strict_valid(e, n) != 1 || !v.IsUndefined(), 78);   // a strictly RFC 8259-valid text must be accepted
    { unsigned p = 0; lskip(e, n, p);                                // a strictly valid CONTAINER document followed by a non-whitespace unit must be rejected
      if (p < n && (e[p] == C('[') || e[p] == C('{')) && sval(e, n, p, 0) == 1) { lskip(e, n, p); vf_assert(p == n || v.IsUndefined(), 79); } }
    vf_free(e);
}
static void run_all(const C *b, unsigned off, const char *open) {
    char p1[16], p2[16], p3[16]; unsigned k;
    const char *c1 = "", *c2 = "[", *c3 = "{\"a\":";
    k = 0; for (const char *s = c1; *s; ++s) p1[k++] = *s; for (const char *s = open; *s; ++s) p1[k++] = *s; p1[k] = 0;
    k = 0; for (const char *s = c2; *s; ++s) p2[k++] = *s; for (const char *s = open; *s; ++s) p2[k++] = *s; p2[k] = 0;
    k = 0; for (const char *s = c3; *s; ++s) p3[k++] = *s; for (const char *s = open; *s; ++s) p3[k++] = *s; p3[k] = 0;
    run_ctx(b, off, p1, "");
    run_ctx(b, off, p2, "]");  run_ctx(b, off, p2, ",1]"); run_ctx(b, off, p2, "");
    run_ctx(b, off, p3, "}");  run_ctx(b, off, p3, ",\"b\":1}"); run_ctx(b, off, p3, "");
}
extern "C" void lift_top_fn()    { const C *b = vf_buf<C>(L); run_all(b, 0, ""); }
extern "C" void lift_value_fn()  { const C *b = vf_buf<C>(L); unsigned off = vf_u32(); if (off > L) off = L; run_all(b, off, ""); }
extern "C" void lift_array_fn()  { const C *b = vf_buf<C>(L); unsigned off = vf_u32(); if (off > L) off = L; run_all(b, off, "["); }
extern "C" void lift_object_fn() { const C *b = vf_buf<C>(L); unsigned off = vf_u32(); if (off > L) off = L; run_all(b, off, "{"); }

// C05/C07 replay lifting: a unit-level counterexample (buffer + cursor) is turned into a public-API input by dropping
// the bytes before the construct's opening bracket (the parser functions never read below the cursor) and run through
// the REAL JSON::Parse with the real Value on an exact-size heap buffer under ASan/UBSan.  Tape order = harness order:
// L buffer units, then (except for the top-level harness) the 32-bit cursor.
#include "JSON.hpp"
#include "vf.h"
using namespace Qentem;
#ifndef L
#define L 4
#endif
#ifndef CHAR
#define CHAR char
#endif
typedef CHAR C;
static void run(const C *b, unsigned off, int prefix) {
    unsigned n = (L - off) + (prefix ? 1 : 0);
    C *e = (C *)vf_alloc(n * sizeof(C));          // exact-size copy (n may be 0)
    unsigned k = 0;
    if (prefix) { e[k] = C(prefix); ++k; }
    for (unsigned i = off; i < L; i++) { e[k] = b[i]; ++k; }
    Value<C> v = JSON::Parse(e, SizeT(n));
    vf_obs(v.IsUndefined());
    vf_free(e);
}
extern "C" void lift_top()    { const C *b = vf_buf<C>(L); run(b, 0, 0); }
extern "C" void lift_value()  { const C *b = vf_buf<C>(L); unsigned off = vf_u32(); if (off > L) off = L; run(b, off, 0); }
extern "C" void lift_array()  { const C *b = vf_buf<C>(L); unsigned off = vf_u32(); if (off > L) off = L; run(b, off, '['); }
extern "C" void lift_object() { const C *b = vf_buf<C>(L); unsigned off = vf_u32(); if (off > L) off = L; run(b, off, '{'); }
extern "C" void lift_string() { const C *b = vf_buf<C>(L); unsigned off = vf_u32(); if (off > L) off = L; run(b, off, '"'); }

// ---- C06/C07 lifting: functional counterexamples of a production are embedded in enclosing contexts and the REAL
// JSON::Parse result is compared with a LIBERAL structural recogniser (brackets, commas, colons and string quoting must
// be right; any run of other units is accepted as a scalar token).  Liberal leaves can only make the recogniser accept
// more, so "recogniser rejects but Parse returns a defined value" is a definite all-or-nothing violation.
static bool lws(C c) { return c == C(' ') || c == C('\n') || c == C('\t') || c == C('\r'); }
static bool lval(const C *t, unsigned n, unsigned &p, unsigned depth);
static void lskip(const C *t, unsigned n, unsigned &p) { while (p < n && lws(t[p])) ++p; }
static bool lstr(const C *t, unsigned n, unsigned &p) {      // at the opening quote
    ++p;
    while (p < n) { if (t[p] == C('\\')) { p += 2; continue; } if (t[p] == C('"')) { ++p; return true; } ++p; }
    return false;
}
static bool lval(const C *t, unsigned n, unsigned &p, unsigned depth) {
    if (depth > 40 || p >= n) return false;
    if (t[p] == C('[')) {
        ++p; lskip(t, n, p);
        if (p < n && t[p] == C(']')) { ++p; return true; }
        while (true) {
            if (!lval(t, n, p, depth + 1)) return false;
            lskip(t, n, p);
            if (p < n && t[p] == C(',')) { ++p; lskip(t, n, p); continue; }
            if (p < n && t[p] == C(']')) { ++p; return true; }
            return false;
        }
    }
    if (t[p] == C('{')) {
        ++p; lskip(t, n, p);
        if (p < n && t[p] == C('}')) { ++p; return true; }
        while (true) {
            if (!(p < n && t[p] == C('"'))) return false;
            if (!lstr(t, n, p)) return false;
            lskip(t, n, p);
            if (!(p < n && t[p] == C(':'))) return false;
            ++p; lskip(t, n, p);
            if (!lval(t, n, p, depth + 1)) return false;
            lskip(t, n, p);
            if (p < n && t[p] == C(',')) { ++p; lskip(t, n, p); continue; }
            if (p < n && t[p] == C('}')) { ++p; return true; }
            return false;
        }
    }
    if (t[p] == C('"')) return lstr(t, n, p);
    unsigned s = p;
    while (p < n && !lws(t[p]) && t[p] != C(',') && t[p] != C(']') && t[p] != C('}') && t[p] != C(':') && t[p] != C('[') && t[p] != C('{') && t[p] != C('"')) ++p;
    return p > s;
}
static bool liberal_valid(const C *t, unsigned n) {
    unsigned p = 0; lskip(t, n, p);
    if (!lval(t, n, p, 0)) return false;
    lskip(t, n, p);
    return p == n;
}
static void run_ctx(const C *b, unsigned off, const char *pre, const char *post) {
    unsigned np = 0; while (pre[np]) ++np; unsigned nq = 0; while (post[nq]) ++nq;
    unsigned n = np + (L - off) + nq;
    C *e = (C *)vf_alloc(n * sizeof(C));
    unsigned k = 0;
    for (unsigned i = 0; i < np; i++) { e[k] = C(pre[i]); ++k; }
    for (unsigned i = off; i < L; i++) { e[k] = b[i]; ++k; }
    for (unsigned i = 0; i < nq; i++) { e[k] = C(post[i]); ++k; }
    Value<C> v = JSON::Parse(e, SizeT(n));
    bool ref = liberal_valid(e, n);
    vf_assert(ref || v.IsUndefined(), 77);       // structurally invalid text must be rejected
    vf_free(e);
}
static void run_all(const C *b, unsigned off, const char *open) {
    char p1[16], p2[16], p3[16]; unsigned k;
    const char *c1 = "", *c2 = "[", *c3 = "{\"a\":";
    k = 0; for (const char *s = c1; *s; ++s) p1[k++] = *s; for (const char *s = open; *s; ++s) p1[k++] = *s; p1[k] = 0;
    k = 0; for (const char *s = c2; *s; ++s) p2[k++] = *s; for (const char *s = open; *s; ++s) p2[k++] = *s; p2[k] = 0;
    k = 0; for (const char *s = c3; *s; ++s) p3[k++] = *s; for (const char *s = open; *s; ++s) p3[k++] = *s; p3[k] = 0;
    run_ctx(b, off, p1, "");
    run_ctx(b, off, p2, "]");  run_ctx(b, off, p2, ",1]"); run_ctx(b, off, p2, "");
    run_ctx(b, off, p3, "}");  run_ctx(b, off, p3, ",\"b\":1}"); run_ctx(b, off, p3, "");
}
extern "C" void lift_top_fn()    { const C *b = vf_buf<C>(L); run_all(b, 0, ""); }
extern "C" void lift_value_fn()  { const C *b = vf_buf<C>(L); unsigned off = vf_u32(); if (off > L) off = L; run_all(b, off, ""); }
extern "C" void lift_array_fn()  { const C *b = vf_buf<C>(L); unsigned off = vf_u32(); if (off > L) off = L; run_all(b, off, "["); }
extern "C" void lift_object_fn() { const C *b = vf_buf<C>(L); unsigned off = vf_u32(); if (off > L) off = L; run_all(b, off, "{"); }

// C01 (c): TemplateCore::Parse + Render end to end on a FULLY SYMBOLIC template text of L units (exact-size buffer)
// against a symbolic value tree (SymValue) into a FixedStream.  Small L only: the driver forks on every symbolic unit.
#define private public
#include "fixed_stream.hpp"
#include "tpl_value.hpp"
#include "Template.hpp"
using namespace Qentem;
#ifndef CHAR
#define CHAR char
#endif
#ifndef L
#define L 3
#endif
typedef CHAR C; typedef SymValue<C> V; typedef FixedStream<C, 48> SS; typedef TemplateCore<C, V, SS> TC;
extern "C" void h_small() {
    const C *b = vf_buf<C>(L);
#ifdef TAGLESS
    for (unsigned i = 0; i < L; i++) vf_assume(b[i] != C('{') && b[i] != C('<') && b[i] != C('}'));
#endif
    V nodes[4]; sym_tree(nodes);
    SS stream; C pre = vf_any<C>(); stream += pre;
    Array<Tags::TagBit> tags;
    TC::Parse(b, SizeT(L), tags);
    TC tc{b, SizeT(L)};
    tc.Render(tags, nodes[0], stream);
    vf_assert(stream.Length() >= 1 && stream.First()[0] == pre, 1);
#ifdef TAGLESS
    vf_assert(tags.Size() == 0 && stream.Length() == L + 1, 2);          // text without tags renders to itself
    unsigned i = vf_u32(); vf_assume(i < L);
    vf_assert(stream.First()[1 + i] == b[i], 3);
#endif
    vf_witness();
}

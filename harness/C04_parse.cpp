// C04 (c): text -> operator list.  The REAL scanners of TemplateCore (Template.hpp:1785-2065) on a fully symbolic text of
// concrete length L held in an exact-size heap buffer (CBMC checks every read):
//   h_getop   getOperation(content, offset, L) from an arbitrary cursor vs a reference tokenizer: which operator comes next
//             and where (two-character operators, unary sign, parenthesis / brace skipping, malformed "=" "!" groups)
//   h_isexpr  isExpression(content, offset): "the sign at offset is binary" iff the previous non-space unit is a digit, ')' or '}'
//   h_driver  parseExpressions(content, 0, L) with parseValue replaced by a logging contract stub: the operands handed to
//             parseValue are exactly the stretches between the reference tokenizer's operators, each with its following and
//             preceding operator; the list is accepted iff every operand was and the text ends with an operand
//   h_value   parseValue on one operand stretch with the number scanner and the nested parseExpressions replaced by logging
//             stubs: trimming, "( ... )" -> nested list on the inner stretch, "{var:...}" -> variable, number -> typed number,
//             anything else -> text only next to == / !=
// Defines: L, CHAR, KF_EXCL_* / KF_ONLY_*.
#include "sym_value.hpp"
#include "fixed_stream.hpp"
#include "Template.hpp"
#include "vf.h"
using namespace Qentem;
#ifndef CHAR
#define CHAR char
#endif
#ifndef L
#define L 4
#endif
typedef CHAR C;
typedef TemplateCore<C, SymValue<C>, FixedStream<C, 8>> TC;
typedef QExpression QE; typedef QExpression::ExpressionType ET; typedef QExpression::QOperation OP;
typedef unsigned long long u64;
enum { O_NoOp = 0, O_Or, O_And, O_Eq, O_Ne, O_Ge, O_Le, O_Gt, O_Lt, O_BOr, O_BAnd, O_Add, O_Sub, O_Mul, O_Div, O_Rem, O_Exp, O_Err };

// ---------------------------------------------------------------- reference tokenizer
static bool is_digit(C c) { return c >= C('0') && c <= C('9'); }
// a '+' / '-' at p is a binary operator iff the nearest unit before it that is not a space is a digit, ')' or '}'
static bool ref_binary(const C *s, unsigned p) {
    while (p != 0) { --p; if (s[p] != C(' ')) return is_digit(s[p]) || s[p] == C(')') || s[p] == C('}'); }
    return false;
}
struct Tok { unsigned op; unsigned pos; unsigned reads_next; };
// first operator at or after `from` inside [from, end): its code and position (NoOp: pos == end; unclosed bracket: Error)
static Tok ref_next(const C *s, unsigned from, unsigned end) {
    Tok t; t.op = O_NoOp; t.pos = end; t.reads_next = false;
    unsigned p = from;
    while (p < end) {
        C c = s[p];
        unsigned one = 0, two = 0; C second = 0;
        if (c == C('|')) { one = O_BOr; two = O_Or; second = C('|'); }
        else if (c == C('&')) { one = O_BAnd; two = O_And; second = C('&'); }
        else if (c == C('>')) { one = O_Gt; two = O_Ge; second = C('='); }
        else if (c == C('<')) { one = O_Lt; two = O_Le; second = C('='); }
        else if (c == C('!')) { one = O_Err; two = O_Ne; second = C('='); }
        else if (c == C('=')) { one = O_Err; two = O_Eq; second = C('='); }
        if (one != 0) {                                   // the unit after it decides; at the very end of the buffer there is none
            t.pos = p; t.reads_next = true;
            bool has2 = (p + 1 < L) && (s[p + 1] == second);
            t.op = has2 ? two : one;
            return t;
        }
        if (c == C('/')) { t.op = O_Div; t.pos = p; return t; }
        if (c == C('*')) { t.op = O_Mul; t.pos = p; return t; }
        if (c == C('%')) { t.op = O_Rem; t.pos = p; return t; }
        if (c == C('^')) { t.op = O_Exp; t.pos = p; return t; }
        if (c == C('-') || c == C('+')) {
            if (ref_binary(s, p)) { t.op = (c == C('-')) ? O_Sub : O_Add; t.pos = p; return t; }
        } else if (c == C('(')) {                         // skip to the matching ')'
            unsigned depth = 0; ++p;
            while (p < end) {
                if (s[p] == C(')')) { if (depth == 0) break; --depth; }
                else if (s[p] == C('(')) ++depth;
                ++p;
            }
            if (p >= end) { t.op = O_Err; t.pos = end; return t; }
            continue;                                     // s[p] == ')' is looked at again (it is no operator)
        } else if (c == C('{')) {                         // skip to the next '}'
            ++p;
            while (p < end && s[p] != C('}')) ++p;
            if (p >= end) { t.op = O_Err; t.pos = end; return t; }
            continue;
        }
        ++p;
    }
    return t;
}

// ---------------------------------------------------------------- getOperation
extern "C" void h_getop() {
    const C *s = vf_buf<C>(L);
    unsigned from = vf_u32(); vf_assume(from <= L);
    Tok t = ref_next(s, from, L);
    bool at_end = t.reads_next && (t.pos + 1 == L);      // a | & < > ! = as the very last unit: the scanner looks one unit further
#ifdef KF_EXCL_C04_getop_oob
    vf_assume(!at_end);
#endif
#ifdef KF_ONLY_C04_getop_oob
    vf_assume(at_end);
#endif
    SizeT off = from;
    OP op = TC::getOperation(s, off, SizeT(L));
    vf_assert(unsigned(op) == t.op, 1);
    if (t.op != O_Err || t.reads_next) vf_assert(off == t.pos, 2);
    else vf_assert(off >= from && off <= L, 3);           // unclosed bracket: cursor somewhere inside, result Error
    vf_witness();
}

// ---------------------------------------------------------------- isExpression
extern "C" void h_isexpr() {
    const C *s = vf_buf<C>(L);
    unsigned p = vf_u32(); vf_assume(p <= L);
    vf_assert(TC::isExpression(s, SizeT(p)) == ref_binary(s, p), 1);
    vf_witness();
}

static unsigned op_len(unsigned op) { return (op >= O_Or && op <= O_Le) ? 2u : 1u; }
// ---------------------------------------------------------------- parseExpressions with parseValue stubbed
struct VCall { unsigned oper, last, start, end; bool ret; };
static VCall g_vc[L + 2]; static unsigned g_nv; static const C *g_buf;
extern "C" bool fn_parse_value(Array<QE> *exprs, unsigned char oper, unsigned char last_oper, const C *content, unsigned offset, unsigned end_offset,
                               const void *loop_tag) {
    vf_assert(content == g_buf && loop_tag == nullptr, 20);
    vf_assert(offset <= end_offset && end_offset <= L, 21);          // pre: a stretch of the text
    unsigned k = g_nv; vf_assert(k < L + 2, 22);
    bool r = vf_u8() & 1;
    g_vc[k].oper = oper; g_vc[k].last = last_oper; g_vc[k].start = offset; g_vc[k].end = end_offset; g_vc[k].ret = r; g_nv = k + 1;
    if (exprs->Capacity() == 0) exprs->Reserve(1);       // marks the caller's list (no items: their destructors are not the subject); a rejected text returns a fresh list
    return r;
}
extern "C" void h_driver() {
    const C *s = vf_buf<C>(L); g_buf = s; g_nv = 0;
    // reference segmentation first (pure): the operators in order
    Tok toks[L + 1]; unsigned nt = 0; bool oob = false;
    { unsigned p = 0;
      while (p < L && nt < L + 1) {
          Tok t = ref_next(s, p, L); toks[nt] = t; ++nt;
          if (t.reads_next && t.pos + 1 == L) oob = true;
          if (t.op == O_NoOp || t.op == O_Err) break;
          p = t.pos + op_len(t.op);
      } }
#ifdef KF_EXCL_C04_getop_oob
    vf_assume(!oob);
#endif
    Array<QE> out = TC::parseExpressions(s, 0, SizeT(L), nullptr);
    // replay the reference against the log
    unsigned p = 0, k = 0, last = O_NoOp; bool shape = true, accepted = false;
    for (unsigned i = 0; i < nt; i++) {
        Tok t = toks[i];
        if (t.op == O_Err) break;
        if (!(k < g_nv && g_vc[k].start == p && g_vc[k].end == t.pos && g_vc[k].oper == t.op && g_vc[k].last == last)) { shape = false; break; }
        bool r = g_vc[k].ret; ++k;
        if (!r) break;
        if (t.op == O_NoOp) { accepted = true; break; }
        last = t.op; p = t.pos + op_len(t.op);
    }
    vf_assert(shape, 1);                                  // operands are exactly the stretches between the operators
    vf_assert(k == g_nv, 2);                              // and nothing else is handed over
    vf_assert((out.Capacity() != 0) == accepted, 3);      // the caller's list is returned iff every operand was accepted and the text ends with an operand
    vf_witness();
}

// ---------------------------------------------------------------- parseValue with its callees stubbed
static unsigned g_num_calls, g_num_in, g_num_end, g_num_out, g_num_type; static u64 g_num_val;
extern "C" unsigned char fn_strtonum(QNumber64 *num, const C *content, unsigned *off, unsigned end) {
    vf_assert(content == g_buf && *off < end && end <= L, 30);
    unsigned char t = (unsigned char)(vf_u8() & 3);
    unsigned o = vf_u32(); vf_assume(o >= *off && o <= end); vf_assume(t == 0 || o > *off);
    num->Natural = vf_u64();
    g_num_in = *off; g_num_end = end; g_num_out = o; g_num_type = t; g_num_val = num->Natural; g_num_calls = g_num_calls + 1;
    *off = o;
    return t;
}
static unsigned g_pe_calls, g_pe_start, g_pe_end, g_pe_items;
alignas(8) static unsigned char g_ret_mem[sizeof(Array<QE>)];
// nested list: returns a list of 0 or 1 items (arbitrary), logs the stretch
extern "C" void fn_parse_expressions(Array<QE> *ret, const C *content, unsigned offset, unsigned end_offset, const void *loop_tag) {
    vf_assert(content == g_buf && loop_tag == nullptr, 40);
    g_pe_calls = g_pe_calls + 1; g_pe_start = offset; g_pe_end = end_offset;
    new (ret) Array<QE>{};
    bool some = vf_u8() & 1; g_pe_items = some ? 1u : 0u;
    if (some) { QE e; e.Type = ET::NaturalNumber; e.Value.Number.Natural = 7; *ret += Memory::Move(e); }
}
// optnone: clang would turn the comparison chain into a guarded bit test whose shift CBMC flags
__attribute__((optnone, noinline)) static bool is_ws(C c) { return c == C(' ') || c == C('\n') || c == C('\t') || c == C('\r'); }
extern "C" void h_value() {
    const C *s = vf_buf<C>(L); g_buf = s; g_num_calls = 0; g_pe_calls = 0;
    unsigned a = vf_u32(); unsigned b = vf_u32(); vf_assume(a <= b && b <= L);
    unsigned oper = vf_u8(); unsigned last = vf_u8(); vf_assume(oper <= O_Exp && last <= O_Exp);
    Array<QE> exprs;
    bool ok = TC::parseValue(exprs, OP(oper), OP(last), s, SizeT(a), SizeT(b), nullptr);
    // reference
    unsigned lo = a, hi = b;
    while (lo < hi && is_ws(s[lo])) ++lo;
    while (hi > lo && is_ws(s[hi - 1])) --hi;
    bool eqctx = (oper == O_Eq || oper == O_Ne || last == O_Eq || last == O_Ne);
    if (lo >= hi) { vf_assert(!ok && exprs.Size() == 0 && g_num_calls == 0 && g_pe_calls == 0, 1); }   // empty operand
    else if (s[lo] == C('(')) {
        vf_assert(g_pe_calls == 1 && g_pe_start == lo + 1 && g_pe_end == hi - 1 && g_num_calls == 0, 2);   // the inner stretch
        vf_assert(ok == (g_pe_items != 0), 3);
        if (ok) {
            if (oper == O_NoOp && last == O_NoOp) vf_assert(exprs.Size() == 1 && exprs.First()->Type == ET::NaturalNumber, 4);   // whole text in ( ): the inner list itself
            else vf_assert(exprs.Size() == 1 && exprs.First()->Type == ET::SubOperation && unsigned(exprs.First()->Operation) == oper &&
                           exprs.First()->SubExpressions.Size() == 1, 5);
        }
    } else if (s[lo] == C('{')) {
        bool var = (hi - lo > 6) && s[hi - 1] == C('}');
        vf_assert(ok == var && g_num_calls == 0 && g_pe_calls == 0, 6);
        if (ok) vf_assert(exprs.Size() == 1 && exprs.First()->Type == ET::Variable && unsigned(exprs.First()->Operation) == oper &&
                          exprs.First()->Variable.Offset == lo + 5 && exprs.First()->Variable.Length == hi - 1 - (lo + 5) &&
                          exprs.First()->Variable.IDLength == 0, 7);
    } else {
        vf_assert(g_num_calls == 1 && g_num_in == lo && g_num_end == hi && g_pe_calls == 0, 8);
        bool isnum = (g_num_type != 0) && (g_num_out == hi);
        vf_assert(ok == (isnum || eqctx), 9);
        if (ok) {
            vf_assert(exprs.Size() == 1 && unsigned(exprs.First()->Operation) == oper, 10);
            if (isnum) vf_assert(unsigned(exprs.First()->Type) == g_num_type && exprs.First()->Value.Number.Natural == g_num_val, 11);
            else vf_assert(exprs.First()->Type == ET::NotANumber && exprs.First()->Value.Offset == lo && exprs.First()->Value.Length == hi - lo, 12);
        }
    }
    vf_witness();
}

// C14 (a4): StringView<Char> is a plain (non-owning) sequence.  Pre-state: view over an exact-size block of LEN symbolic
// units (KIND 1) or a default-constructed view (KIND 0); ONE public operation per query; observers vs a plain array model.
#include "StringView.hpp"
#include "vf.h"
using namespace Qentem;

#ifndef CHAR
#define CHAR char
#endif
#ifndef KIND
#define KIND 1
#endif
#ifndef LEN
#define LEN 2
#endif
#ifndef BLEN
#define BLEN 2
#endif
#ifndef OP
#define OP 1
#endif
typedef CHAR C;
#define MAXN 8

enum { OP_COPY_CTOR = 1, OP_MOVE_CTOR, OP_CTOR_CSTR, OP_COPY_ASSIGN, OP_MOVE_ASSIGN, OP_ASSIGN_CSTR, OP_CMP_VIEW, OP_CMP_CSTR, OP_ISEQUAL, OP_RESET };

static int ref_cmp(const C *a, unsigned la, const C *b, unsigned lb) {
    unsigned i = 0;
    while (i < la && i < lb) {
        if (a[i] < b[i]) return -1;
        if (b[i] < a[i]) return 1;
        ++i;
    }
    return (la < lb) ? -1 : ((lb < la) ? 1 : 0);
}

static const C *cstr(unsigned n, C *m, unsigned &mn) {
    C *p = vf_buf<C>(n + 1);
    p[n] = C(0);
    mn   = 0;
    while (p[mn] != C(0)) { m[mn] = p[mn]; ++mn; }
    return p;
}

template <unsigned B> static void check(const StringView<C> &v, const C *base, const C *m, unsigned n) {
    vf_assert(v.Length() == n && v.First() == base, B + 1);
    vf_assert(v.IsEmpty() == (n == 0) && v.IsNotEmpty() == (n != 0), B + 2);
    vf_assert(v.End() == v.First() + n && v.begin() == v.First() && v.end() == v.End(), B + 3);
    vf_assert(v.Last() == (n != 0 ? v.First() + (n - 1) : nullptr), B + 4);
    unsigned i = vf_u32();
    if (i < n) vf_assert(v.First()[i] == m[i], B + 5);
}

extern "C" void h_view() {
    C        ma[MAXN], mb[MAXN];
    unsigned na = 0, nb = 0;
    const C *abuf = nullptr;
    StringView<C> v;
    if (KIND != 0) {
        abuf = vf_buf<C>(LEN);
        while (na < LEN) { ma[na] = abuf[na]; ++na; }
        v = StringView<C>(abuf, SizeT(LEN));
    }
    check<50>(v, abuf, ma, na);

    if (OP == OP_COPY_CTOR) {
        StringView<C> c(v);
        check<100>(c, abuf, ma, na);
        check<200>(v, abuf, ma, na);
    } else if (OP == OP_MOVE_CTOR) {
        StringView<C> c(static_cast<StringView<C> &&>(v));
        check<100>(c, abuf, ma, na);
        check<200>(v, nullptr, ma, 0);
    } else if (OP == OP_CTOR_CSTR || OP == OP_ASSIGN_CSTR) {
        bool     null = (vf_u8() & 1) != 0;
        const C *p    = cstr(BLEN, mb, nb);
        if (null) nb = 0;
        const C *arg = null ? (const C *)nullptr : p;
        if (OP == OP_CTOR_CSTR) { StringView<C> c(arg); check<100>(c, arg, mb, nb); }
        else { v = arg; check<100>(v, arg, mb, nb); }
        vf_free((void *)p);
    } else if (OP == OP_COPY_ASSIGN || OP == OP_MOVE_ASSIGN || OP == OP_CMP_VIEW) {
        const C *bbuf = vf_buf<C>(BLEN);
        for (unsigned i = 0; i < BLEN; i++) mb[i] = bbuf[i];
        nb = BLEN;
        StringView<C> t(bbuf, SizeT(BLEN));
        bool alias = (vf_u8() & 1) != 0;
        if (OP == OP_CMP_VIEW) {
            const StringView<C> &o = alias ? v : t;
            int                  r = alias ? 0 : ref_cmp(ma, na, mb, nb);
            vf_assert((v == o) == (r == 0), 10);
            vf_assert((v != o) == (r != 0), 11);
            vf_assert((v < o) == (r < 0), 12);
            vf_assert((v <= o) == (r <= 0), 13);
            vf_assert((v > o) == (r > 0), 14);
            vf_assert((v >= o) == (r >= 0), 15);
            check<100>(v, abuf, ma, na);
        } else if (alias) {
            StringView<C> &r = v;
            if (OP == OP_COPY_ASSIGN) v = r; else v = static_cast<StringView<C> &&>(r);
            check<100>(v, abuf, ma, na);
        } else if (OP == OP_COPY_ASSIGN) {
            t = v;
            check<100>(t, abuf, ma, na);
            check<200>(v, abuf, ma, na);
        } else {
            t = static_cast<StringView<C> &&>(v);
            check<100>(t, abuf, ma, na);
            check<200>(v, nullptr, ma, 0);
        }
        vf_free((void *)bbuf);
    } else if (OP == OP_CMP_CSTR) {
        bool     null = (vf_u8() & 1) != 0;
        const C *p    = cstr(BLEN, mb, nb);
        if (null) nb = 0;
        const C *arg = null ? (const C *)nullptr : p;
        int      r   = ref_cmp(ma, na, mb, nb);
        vf_assert((v == arg) == (r == 0), 10);
        vf_assert((v != arg) == (r != 0), 11);
        vf_assert((v < arg) == (r < 0), 12);
        vf_assert((v <= arg) == (r <= 0), 13);
        vf_assert((v > arg) == (r > 0), 14);
        vf_assert((v >= arg) == (r >= 0), 15);
        check<100>(v, abuf, ma, na);
        vf_free((void *)p);
    } else if (OP == OP_ISEQUAL) {
        const C *bbuf = vf_buf<C>(BLEN);
        for (unsigned i = 0; i < BLEN; i++) mb[i] = bbuf[i];
        vf_assert(v.IsEqual(bbuf, SizeT(BLEN)) == (ref_cmp(ma, na, mb, BLEN) == 0), 10);
        vf_free((void *)bbuf);
    } else if (OP == OP_RESET) {
        v.Reset();
        check<100>(v, nullptr, ma, 0);
    }
    if (abuf != nullptr) vf_free((void *)abuf);
    vf_witness();
}

// C14 (a3): StringStream<Char> is a plain sequence.  One inductive step: pre-state built through the public API
// (StringStream(CAP) + `size` single-unit appends; CAP concrete per query, size <= CAP and contents symbolic), ONE public
// operation (OP, concrete per query) with symbolic arguments including aliasing ones (stream += stream,
// stream.Write(stream.First()+k, n), stream = view-of-itself), then every observer is compared with a plain array model.
#include "StringStream.hpp"
#include "vf.h"
using namespace Qentem;

#ifndef CHAR
#define CHAR char
#endif
#ifndef CAP
#define CAP 2
#endif
#ifndef BCAP
#define BCAP 2      // capacity of the second stream (argument / assignment target)
#endif
#ifndef BLEN
#define BLEN 2      // length of String / StringView / pointer / C-string arguments (concrete: allocation sizes)
#endif
#ifndef NARG
#define NARG 3      // numeric argument of SetLength / Buffer / Expect / Reserve / StringStream(size)
#endif
#ifndef OP
#define OP 1
#endif
typedef CHAR C;
#define MAXN 24

enum {
    OP_COPY_CTOR = 1, OP_MOVE_CTOR, OP_CTOR_SIZE, OP_COPY_ASSIGN, OP_MOVE_ASSIGN, OP_ASSIGN_CSTR, OP_ASSIGN_STRING, OP_ASSIGN_VIEW,
    OP_APPEND_CHAR, OP_APPEND_STREAM, OP_APPEND_STRING, OP_APPEND_VIEW, OP_APPEND_CSTR, OP_SHIFT_STREAM, OP_SHIFT_STRING,
    OP_SHIFT_VIEW, OP_SHIFT_CHAR, OP_SHIFT_CSTR, OP_EQ_STREAM, OP_EQ_STRING, OP_EQ_VIEW, OP_EQ_CSTR, OP_ISEQUAL, OP_WRITE, OP_CLEAR,
    OP_RESET, OP_STEPBACK, OP_REVERSE, OP_INSERTAT, OP_SETLENGTH, OP_BUFFER, OP_EXPECT, OP_RESERVE, OP_DETACH, OP_GETSTRING,
    OP_GETSTRINGVIEW, OP_INSERTNULL
};

static bool seq_eq(const C *a, unsigned la, const C *b, unsigned lb) {
    if (la != lb) return false;
    for (unsigned i = 0; i < la; i++) { if (a[i] != b[i]) return false; }
    return true;
}

// NUL-terminated argument: exact-size block of n+1 units, last one 0, the others symbolic (an inner 0 ends it earlier)
static const C *cstr(unsigned n, C *m, unsigned &mn) {
    C *p = vf_buf<C>(n + 1);
    p[n] = C(0);
    mn   = 0;
    while (p[mn] != C(0)) { m[mn] = p[mn]; ++mn; }
    return p;
}

static void build(StringStream<C> &ss, C *m, unsigned cap, unsigned n) {
    if (cap != 0) ss.Reserve(SizeT(cap));
    unsigned i = 0;
    while (i < n) {
        m[i] = vf_any<C>();
        ss += m[i];               // length < capacity: no growth here
        ++i;
    }
}

template <unsigned B> static void check(const StringStream<C> &s, const C *m, unsigned n) {
    vf_assert(s.Length() == n, B + 1);
    vf_assert(s.Capacity() >= s.Length(), B + 2);
    vf_assert((s.Capacity() == 0) == (s.Storage() == nullptr), B + 3);
    vf_assert(s.IsEmpty() == (n == 0) && s.IsNotEmpty() == (n != 0), B + 4);
    vf_assert(s.First() == s.Storage() && s.End() == s.First() + n && s.begin() == s.First() && s.end() == s.End(), B + 5);
    vf_assert(s.Last() == (n != 0 ? s.Storage() + (n - 1) : nullptr), B + 6);
    unsigned i = vf_u32();
    if (i < n) vf_assert(s.First()[i] == m[i], B + 7);
    if (s.Capacity() > s.Length()) s.Storage()[s.Capacity() - 1] = C(0);   // the block really has Capacity() units
}

extern "C" void h_stream() {
    C        ma[MAXN], mb[MAXN], mc[MAXN];
    unsigned na, nb = 0, nc = 0;
#ifdef SIZE
    na = SIZE;
#else
    na = vf_u32();
    vf_assume(na <= CAP);
#endif
    StringStream<C> ss;
    build(ss, ma, CAP, na);
    C *const    st0  = ss.Storage();
    const SizeT cap0 = ss.Capacity();
    vf_assert(cap0 == CAP && ss.Length() == na, 1);

    if (OP == OP_COPY_CTOR) {
        StringStream<C> c(ss);
        check<100>(c, ma, na);
        check<200>(ss, ma, na);
        vf_assert(na == 0 || c.Storage() != ss.Storage(), 10);
    } else if (OP == OP_MOVE_CTOR) {
        StringStream<C> c(Memory::Move(ss));
        check<100>(c, ma, na);
        check<200>(ss, ma, 0);
        vf_assert(c.Storage() == st0 && c.Capacity() == cap0 && ss.Capacity() == 0, 10);
    } else if (OP == OP_CTOR_SIZE) {
        StringStream<C> c{SizeT(NARG)};
        check<100>(c, ma, 0);
        vf_assert(c.Capacity() >= NARG && (NARG != 0 || c.Capacity() == 0), 10);
    } else if (OP == OP_COPY_ASSIGN || OP == OP_MOVE_ASSIGN) {
#ifdef BSIZE
        nb = BSIZE;
#else
        nb = vf_u32();
        vf_assume(nb <= BCAP);
#endif
        StringStream<C> t;
        build(t, mb, BCAP, nb);
        bool alias = (vf_u8() & 1) != 0;
        if (alias) {
            StringStream<C> &r = ss;
            if (OP == OP_COPY_ASSIGN) ss = r; else ss = Memory::Move(r);
            check<100>(ss, ma, na);
            vf_assert(ss.Storage() == st0 && ss.Capacity() == cap0, 10);
        } else if (OP == OP_COPY_ASSIGN) {
            t = ss;
            check<100>(t, ma, na);
            check<200>(ss, ma, na);
            vf_assert(na == 0 || t.Storage() != ss.Storage(), 11);
        } else {
            t = Memory::Move(ss);
            check<100>(t, ma, na);
            check<200>(ss, ma, 0);
            vf_assert(t.Storage() == st0 && t.Capacity() == cap0 && ss.Capacity() == 0, 11);
        }
    } else if (OP == OP_ASSIGN_CSTR || OP == OP_APPEND_CSTR || OP == OP_SHIFT_CSTR || OP == OP_EQ_CSTR) {
        bool     null = (vf_u8() & 1) != 0;
        const C *p    = cstr(BLEN, mb, nb);
        if (null) nb = 0;
        const C *arg = null ? (const C *)nullptr : p;
        if (OP == OP_ASSIGN_CSTR) {
            ss = arg;
            check<100>(ss, mb, nb);
        } else if (OP == OP_EQ_CSTR) {
            bool e = seq_eq(ma, na, mb, nb);
            vf_assert((ss == arg) == e, 10);
            vf_assert((ss != arg) == !e, 11);
            check<100>(ss, ma, na);
        } else {
            if (OP == OP_APPEND_CSTR) ss += arg; else ss << arg;
            for (unsigned i = 0; i < nb; i++) { ma[na] = mb[i]; ++na; }
            check<100>(ss, ma, na);
            if (na <= CAP) vf_assert(ss.Storage() == st0 && ss.Capacity() == cap0, 12);
        }
        vf_free((void *)p);
    } else if (OP == OP_ASSIGN_STRING || OP == OP_APPEND_STRING || OP == OP_SHIFT_STRING || OP == OP_EQ_STRING) {
        bool     nul = (vf_u8() & 1) != 0;           // argument without storage (default-constructed String)
        const C *buf = vf_buf<C>(BLEN);
        for (unsigned i = 0; i < BLEN; i++) mb[i] = buf[i];
        String<C> t;
        if (!nul) { t = String<C>(buf, SizeT(BLEN)); nb = BLEN; }
        vf_free((void *)buf);
        if (OP == OP_ASSIGN_STRING) {
            ss = t;
            check<100>(ss, mb, nb);
        } else if (OP == OP_EQ_STRING) {
            bool e = seq_eq(ma, na, mb, nb);
            vf_assert((ss == t) == e, 10);
            vf_assert((ss != t) == !e, 11);
            check<100>(ss, ma, na);
        } else {
            if (OP == OP_APPEND_STRING) ss += t; else ss << t;
            for (unsigned i = 0; i < nb; i++) { ma[na] = mb[i]; ++na; }
            check<100>(ss, ma, na);
            if (na <= CAP) vf_assert(ss.Storage() == st0 && ss.Capacity() == cap0, 12);
        }
        vf_assert(t.Length() == nb, 13);
    } else if (OP == OP_APPEND_STREAM || OP == OP_SHIFT_STREAM || OP == OP_EQ_STREAM || OP == OP_APPEND_VIEW || OP == OP_SHIFT_VIEW ||
               OP == OP_ASSIGN_VIEW || OP == OP_EQ_VIEW || OP == OP_WRITE || OP == OP_ISEQUAL) {
        // argument: another stream / a view / a (pointer,length) pair -- or, aliasing, this stream / a slice of its own storage
        const bool is_stream = (OP == OP_APPEND_STREAM || OP == OP_SHIFT_STREAM || OP == OP_EQ_STREAM);
        bool       alias     = (vf_u8() & 1) != 0;
        unsigned   k = 0, ns = 0;
        StringStream<C> t;
        const C        *buf = nullptr;
        if (is_stream) {
#ifdef BSIZE
            nb = BSIZE;
#else
            nb = vf_u32();
            vf_assume(nb <= BCAP);
#endif
            build(t, mb, BCAP, nb);
            ns = alias ? na : nb;
        } else {
            buf = vf_buf<C>(BLEN);
            for (unsigned i = 0; i < BLEN; i++) mb[i] = buf[i];
            nb = BLEN;
            if (alias) {                              // slice [k, k+ns) of the stream's own storage
                k  = vf_u32();
                ns = vf_u32();
                vf_assume(k <= na && ns <= na - k);
            } else {
                ns = nb;
            }
        }
        const C *src_m = alias ? (ma + k) : mb;       // model of the argument's content
        for (unsigned i = 0; i < ns; i++) mc[i] = src_m[i];
        nc = ns;
        const bool appends = (OP == OP_APPEND_STREAM || OP == OP_SHIFT_STREAM || OP == OP_APPEND_VIEW || OP == OP_SHIFT_VIEW || OP == OP_WRITE);
        if (appends) {
            // known finding C14-stream-self-append: write() grows first (expand() releases the old block) and then copies from
            // the argument, which in the aliasing case still points into the released block
#ifdef KF_EXCL_C14_stream_self_append
            vf_assume(!(alias && ns != 0 && na + ns > CAP));
#endif
#ifdef KF_ONLY_C14_stream_self_append
            vf_assume(alias && ns != 0 && na + ns > CAP);
#endif
        }
        const StringStream<C> &sref = alias ? ss : t;
        const C               *ptr  = alias ? (ss.First() + k) : buf;
        const StringView<C>    view(ptr, SizeT(ns));
        if (OP == OP_EQ_STREAM || OP == OP_EQ_VIEW || OP == OP_ISEQUAL) {
            bool e = seq_eq(ma, na, mc, nc);
            if (OP == OP_EQ_STREAM) { vf_assert((ss == sref) == e, 10); vf_assert((ss != sref) == !e, 11); }
            else if (OP == OP_EQ_VIEW) { vf_assert((ss == view) == e, 10); vf_assert((ss != view) == !e, 11); }
            else vf_assert(ss.IsEqual(ptr, SizeT(ns)) == e, 10);
            check<100>(ss, ma, na);
        } else if (OP == OP_ASSIGN_VIEW) {
            ss = view;
            check<100>(ss, mc, nc);
            if (nc <= CAP) vf_assert(ss.Storage() == st0 && ss.Capacity() == cap0, 12);
        } else {
            if (OP == OP_APPEND_STREAM) ss += sref;
            else if (OP == OP_SHIFT_STREAM) ss << sref;
#if APPEND_VIEW_OK
            else if (OP == OP_APPEND_VIEW) ss += view;
#endif
            else if (OP == OP_SHIFT_VIEW) ss << view;
            else ss.Write(ptr, SizeT(ns));
            for (unsigned i = 0; i < nc; i++) { ma[na] = mc[i]; ++na; }
            check<100>(ss, ma, na);
            if (na <= CAP) vf_assert(ss.Storage() == st0 && ss.Capacity() == cap0, 12);
            if (is_stream && !alias) check<200>(t, mb, nb);
        }
        if (buf != nullptr) vf_free((void *)buf);
    } else if (OP == OP_APPEND_CHAR || OP == OP_SHIFT_CHAR) {
        C ch = vf_any<C>();
        if (OP == OP_APPEND_CHAR) ss += ch; else ss << ch;
        ma[na] = ch; ++na;
        check<100>(ss, ma, na);
        if (na <= CAP) vf_assert(ss.Storage() == st0 && ss.Capacity() == cap0, 12);
    } else if (OP == OP_CLEAR) {
        ss.Clear();
        check<100>(ss, ma, 0);
        vf_assert(ss.Storage() == st0 && ss.Capacity() == cap0, 10);
    } else if (OP == OP_RESET) {
        ss.Reset();
        check<100>(ss, ma, 0);
        vf_assert(ss.Capacity() == 0, 10);
    } else if (OP == OP_STEPBACK) {
        unsigned d = vf_u32();
        vf_assume(d <= CAP + 1);
        ss.StepBack(SizeT(d));
        if (d <= na) na -= d;
        check<100>(ss, ma, na);
        vf_assert(ss.Storage() == st0 && ss.Capacity() == cap0, 10);
    } else if (OP == OP_REVERSE) {
        unsigned k = vf_u32();
        vf_assume(k <= CAP + 1);
        ss.Reverse(SizeT(k));
        unsigned lo = k, hi = na;
        while (lo < hi) { --hi; C t = ma[lo]; ma[lo] = ma[hi]; ma[hi] = t; ++lo; }
        check<100>(ss, ma, na);
        vf_assert(ss.Storage() == st0 && ss.Capacity() == cap0, 10);
    } else if (OP == OP_INSERTAT) {
        unsigned k  = vf_u32();
        C        ch = vf_any<C>();
        vf_assume(k <= CAP + 1);
        ss.InsertAt(ch, SizeT(k));
        if (k < na) {                                 // documented behaviour: only inside the stream
            for (unsigned i = na; i > k; i--) ma[i] = ma[i - 1];
            ma[k] = ch; ++na;
        }
        check<100>(ss, ma, na);
    } else if (OP == OP_SETLENGTH) {
        ss.SetLength(SizeT(NARG));
        vf_assert(ss.Length() == NARG && ss.Capacity() >= NARG, 10);
        unsigned keep = na < NARG ? na : NARG;        // the common prefix survives; new units are the caller's to fill
        unsigned i = vf_u32();
        if (i < keep) vf_assert(ss.First()[i] == ma[i], 11);
        unsigned j = vf_u32();
        if (j < NARG) { ss.Storage()[j] = C(1); vf_assert(ss.First()[j] == C(1), 12); }
        if (NARG <= CAP) vf_assert(ss.Storage() == st0 && ss.Capacity() == cap0, 13);
    } else if (OP == OP_BUFFER) {
        C *p = ss.Buffer(SizeT(NARG));
        vf_assert(p == ss.Storage() + na && ss.Length() == na + NARG && ss.Capacity() >= ss.Length(), 10);
        for (unsigned i = 0; i < NARG; i++) { ma[na + i] = vf_any<C>(); p[i] = ma[na + i]; }   // write through the handed-out buffer
        na += NARG;
        check<100>(ss, ma, na);
        if (na <= CAP) vf_assert(ss.Storage() == st0 && ss.Capacity() == cap0, 13);
    } else if (OP == OP_EXPECT) {
        ss.Expect(SizeT(NARG));
        check<100>(ss, ma, na);
        vf_assert(ss.Capacity() >= na + NARG, 10);
        if (na + NARG <= CAP) vf_assert(ss.Storage() == st0 && ss.Capacity() == cap0, 13);
    } else if (OP == OP_RESERVE) {
        ss.Reserve(SizeT(NARG));
        check<100>(ss, ma, 0);
        vf_assert(ss.Capacity() >= NARG && (NARG != 0 || ss.Capacity() == 0), 10);
    } else if (OP == OP_DETACH) {
        C *p = ss.Detach();
        check<100>(ss, ma, 0);
        vf_assert(p == st0 && ss.Capacity() == 0, 10);
        unsigned i = vf_u32();
        if (i < na) vf_assert(p[i] == ma[i], 11);
        Memory::Deallocate(p);
    } else if (OP == OP_GETSTRING) {
        String<C> r = ss.GetString();
        check<100>(ss, ma, 0);
        vf_assert(ss.Capacity() == 0, 10);
        vf_assert(r.Length() == na && r.Storage() != nullptr && r.Storage()[na] == C(0), 11);
        unsigned i = vf_u32();
        if (i < na) vf_assert(r.First()[i] == ma[i], 12);
        if (na < CAP) vf_assert(r.Storage() == st0, 13);   // spare unit available: the block is handed over, not copied
    } else if (OP == OP_GETSTRINGVIEW || OP == OP_INSERTNULL) {
        if (OP == OP_INSERTNULL) ss.InsertNull();
        else {
            StringView<C> v = ss.GetStringView();
            vf_assert(v.First() == ss.First() && v.Length() == na, 10);
        }
        vf_assert(ss.Capacity() > ss.Length() && ss.Storage()[na] == C(0), 11);
        check<100>(ss, ma, na);
        if (na < CAP) vf_assert(ss.Storage() == st0 && ss.Capacity() == cap0, 13);
    }
    vf_witness();
}

// C01 (a): the template tag matcher and the attribute scanners, each alone over an exact-size, fully symbolic buffer
// of length L with symbolic cursors constrained only by what the caller (TemplateCore::parse) guarantees.
// CBMC checks every read against the exact buffer bounds; unwinding assertions = termination within the bound.
#define private public
#include "fixed_stream.hpp"
#include "tpl_value.hpp"
#include "Template.hpp"
using namespace Qentem;
#ifndef L
#define L 6
#endif
#ifndef CHAR
#define CHAR char
#endif
typedef CHAR C; typedef SymValue<C> V; typedef FixedStream<C, 8> SS; typedef TemplateCore<C, V, SS> TC;
typedef Tags::TagPatterns_T<C> TP;

extern "C" void h_finder() {      // one Finder::Next() step from an arbitrary cursor
    const C *b = vf_buf<C>(L);
    Finder<Tags::List<C>, C, SizeT> f{b, SizeT(L)};
    unsigned off = vf_u32(); vf_assume(off <= L);
    f.SetOffset(off);
    f.Next();
    unsigned o = f.GetOffset(), m = f.GetMatch();
    vf_assert(o <= L, 1);                        // cursor stays inside
    vf_assert(m == 0 || o > off, 2);             // a match makes progress
    vf_assert(m != 0 || o == L, 3);              // no match => scanned to the end
    if (m == TP::LineEndID) vf_assert(o >= 1 && b[o - 1] == C('}'), 5);      // '}' single-unit pattern
    if (m == TP::VariableID) vf_assert(o >= 5 && b[o - 5] == C('{') && b[o - 4] == C('v') && b[o - 3] == C('a') && b[o - 2] == C('r') && b[o - 1] == C(':'), 6);
    vf_witness();
}

extern "C" void h_if_case() {     // parseIfCase from an arbitrary cursor; the caller passes end_offset == length
    const C *b = vf_buf<C>(L);
    // the <else handler advances the cursor by 2 on seeing 'i' without a bounds check, so the cursor may be up to length + 1
    unsigned off = vf_u32(); vf_assume(off <= L + 1u); unsigned in = off;
    SizeT co = 0, ce = 0;
    TC::parseIfCase(b, off, SizeT(L), co, ce);
    vf_assert(off >= in && off <= L + 1u, 1);
    vf_assert(co <= ce && ce <= L, 2);           // the case slice lies inside the buffer
    vf_witness();
}

extern "C" void h_loop_attrs() {  // parseLoopAttributes: tag.Offset = start of "<loop", end_offset = index of the closing '>'
    const C *b = vf_buf<C>(L);
    Tags::LoopTag tag;
    unsigned to = vf_u32(), eo = vf_u32();
    vf_assume(to <= L && eo < L && to + TP::LoopPrefixLength <= eo);
    vf_assume(b[eo] == C('>'));
    tag.Offset = to; tag.Parent = nullptr;
    TC::parseLoopAttributes(b, SizeT(eo), tag);
    vf_assert(tag.Set.Length == 0 || (tag.Set.Offset >= to && tag.Set.Offset + tag.Set.Length <= eo), 1);
    vf_assert(to + tag.ValueOffset + tag.ValueLength <= eo + 1u, 2);
    vf_assert(to + tag.GroupOffset + tag.GroupLength <= eo + 1u, 3);
    vf_witness();
}

extern "C" void h_check_loop_var() {   // checkLoopVariable: variable slice followed by '}', loop value slice free of '}' (the tag matcher guarantees both)
    const C *b = vf_buf<C>(L);
    Tags::VariableTag tag; Tags::LoopTag loop;
    unsigned vo = vf_u32(), vl = vf_u32(), lo = vf_u32(), lvo = vf_u8(), lvl = vf_u8();
    vf_assume(vo < L && vl < L && vo + vl < L); vf_assume(b[vo + vl] == C('}'));
    vf_assume(lo < L && lvo < L && lvl < L && lo + lvo + lvl <= vo);
    for (unsigned i = 0; i < lvl; i++) vf_assume(b[lo + lvo + i] != C('}'));    // no '}' inside the value name
    tag.Offset = vo; tag.Length = SizeT16(vl);
    loop.Offset = lo; loop.ValueOffset = SizeT8(lvo); loop.ValueLength = SizeT8(lvl); loop.Parent = nullptr; loop.Level = 0;
    TC::checkLoopVariable(b, tag, &loop);
    vf_assert(tag.IDLength == 0 || tag.IDLength == lvl, 1);
    vf_witness();
}

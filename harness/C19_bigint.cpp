// C19: BigInt<WORD,BITS> -- ONE inductive step per public operation (DESIGN 4.1):
//   arbitrary pre-state (all words + index symbolic) satisfying Inv  ->  one operation with symbolic arguments, guarded by
//   "the mathematical result fits"  ->  Inv again + agreement with a reference value M.
//   M = native u64 / unsigned __int128 when the total width is <= 64 / <= 128 bits, else (or with -DWORDWISE) a word array with
//   carry-chain reference arithmetic written here.
// defines: WORD (word type), WBITS (its width: 8/16/32/64), BITS (declared width);
//   optional: IDX (index concrete instead of symbolic), WORDWISE (force the word-wise reference), NARROW (target type of the
//   narrowing conversion), DS_CONTRACT (+DS_PRE_ASSUMED): Multiply/Divide over the contract of the double-word helper,
//   DIV_BY_MULT (h_div: division-free oracle), RT_SUPPLY_MISSING (runtime helpers missing from q2c/vf_rt.h),
//   KF_EXCL_<id> / KF_ONLY_<id> for the findings C19_ffb, C19_shl_zero, C19_mul_zero, C19_and_stale, C19_and_oob, C19_copy_stale,
//   C19_div_odd.
#include "BigInt.hpp"
#include "vf.h"
using namespace Qentem;
#ifndef WORD
#define WORD unsigned long long
#define WBITS 64
#endif
#ifndef BITS
#define BITS 128
#endif
typedef WORD                W;
typedef unsigned long long  u64;
typedef unsigned __int128   u128;
#if WBITS == 8
typedef unsigned short DW;          // double word
typedef u64            WIDE;        // a "bigger than a word" argument type for the templated operators
#define WIDEBITS 64
#elif WBITS == 16
typedef unsigned int   DW;
typedef u64            WIDE;
#define WIDEBITS 64
#elif WBITS == 32
typedef u64            DW;
typedef u64            WIDE;
#define WIDEBITS 64
#else
typedef u128           DW;
typedef u128           WIDE;
#define WIDEBITS 128
#endif
#define TOTBITS ((((BITS) + (WBITS) - 1) / (WBITS)) * (WBITS))

// word x word -> exact double-width product.  noinline keeps the multiplication at the double-word width (clang would widen
// it to the width of the surrounding oracle arithmetic).
__attribute__((noinline)) static DW wmul(W a, W k) { return (DW)((DW)a * (DW)k); }

// ---- assume/guarantee stand-in for the double-word helper DoubleSize<W,bits(W)> (only with -DDS_CONTRACT) ----------------
// The real helpers are checked against native double-width arithmetic in C19_dsize.cpp; here BigInt is checked OVER their contract.
// Why: a SAT solver needs minutes to show two separate copies of one 8x8 multiplier equal, and cannot derive "a*k != 0" from
// "a != 0, k != 0" at 64 bits, so products are kept abstract here and exact in C19_dsize.cpp.
// Multiply: returns an ARBITRARY double-width value p constrained only by consequences of the contract "p == a*k":
//           p == 0 <=> (a == 0 or k == 0);  p <= (2^w-1)^2.  The harness draws one such p per word before the call, announces
//           the operand pair of every call in call order (g_ma/g_mk -> g_mp); the stand-in ASSERTS that the actual operands are
//           the announced ones (assertion 91) and returns that p, which is also the term the oracle sums.
// Divide  : ASSERTS the callee's precondition (assertion 90: divisor != 0, high < divisor, for 64-bit words shift = 63 -
//           msb(divisor)), records the call, and returns an ARBITRARY (quotient, remainder) constrained only by consequences of
//           the contract "high:low == q*divisor + r and r < divisor", namely  r < divisor  and  (high != 0 => q != 0).
#ifdef DS_CONTRACT
#define DSMAX 8
static unsigned g_n;                 // calls so far
static W        g_ma[DSMAX], g_mk[DSMAX];
static DW       g_mp[DSMAX];
static W        g_hi[DSMAX], g_lo[DSMAX], g_q[DSMAX], g_r[DSMAX];
namespace Qentem {
template <>
struct DoubleSize<W, WBITS> {
    static void Divide(W &high, W &low, const W divisor, const SizeT32 shift) noexcept {
        const unsigned c = g_n;
        bool pre = (c < DSMAX) && (divisor != 0) && (high < divisor);
#if WBITS == 64
        pre = pre && (shift < 64U) && (((divisor << (shift & 63U)) >> 63U) == 1U);   // shift normalises the divisor: msb lands on bit 63
#endif
#ifndef DS_PRE_ASSUMED             // (h_div_top: discharged by h_div_mod on the same code, only assumed there)
        vf_assert(pre, 90);          // the caller must establish the callee's precondition ...
#endif
        vf_assume(pre);              // ... and only then may rely on its postcondition
        g_hi[c % DSMAX] = high; g_lo[c % DSMAX] = low;
        W q = vf_any<W>();
        W r = vf_any<W>();
        vf_assume(r < divisor);
        vf_assume(high == 0 || q != 0);
        g_q[c % DSMAX] = q; g_r[c % DSMAX] = r; g_n = c + 1U;
        high = r; low = q;
    }
    static W Multiply(W &number, W multiplier) noexcept {
        const unsigned c = g_n;
        const bool announced = (c < DSMAX) && (number == g_ma[c % DSMAX]) && (multiplier == g_mk[c % DSMAX]);
        vf_assert(announced, 91);    // the harness announced exactly this operand pair for this call ...
        vf_assume(announced);        // ... so the product it computed for the pair IS number * multiplier
        const DW p = g_mp[c % DSMAX];
        g_n = c + 1U;
        number = (W)p;
        return (W)(p >> WBITS);
    }
};
}
#endif

// Runtime helpers that q2c/vf_rt.h does not have yet (-DRT_SUPPLY_MISSING; drop the define once the runtime has them):
//   vf_cttz8 / vf_cttz16  - clang narrows __builtin_ctz(SizeT32(u8|u16 word)) in Platform::FindFirstBit to llvm.cttz.i8 / .i16
//   vf_fshl<w> / vf_fshr<w> - llvm.fshl/fshr (funnel shifts) formed from the reference shifts below
// optnone: they must not be turned back into the very intrinsics they implement.
#ifdef RT_SUPPLY_MISSING
#define RT_FN extern "C" __attribute__((optnone, noinline))
#if WBITS == 8
RT_FN unsigned char vf_cttz8(unsigned char a, bool) {
    if (a == 0) return 8;
    unsigned r = 0, x = a;
    if ((x & 0x0FU) == 0) { r += 4U; x >>= 4U; }
    if ((x & 0x03U) == 0) { r += 2U; x >>= 2U; }
    if ((x & 0x01U) == 0) { r += 1U; }
    return (unsigned char)r;
}
#elif WBITS == 16
RT_FN unsigned short vf_cttz16(unsigned short a, bool) {
    if (a == 0) return 16;
    unsigned r = 0, x = a;
    if ((x & 0xFFU) == 0) { r += 8U; x >>= 8U; }
    if ((x & 0x0FU) == 0) { r += 4U; x >>= 4U; }
    if ((x & 0x03U) == 0) { r += 2U; x >>= 2U; }
    if ((x & 0x01U) == 0) { r += 1U; }
    return (unsigned short)r;
}
#endif
#define RT_FSH(T, w) \
RT_FN T vf_fshl##w(T a, T b, T c) { unsigned n = (unsigned)(c % w); if (n == 0) return a; return (T)((T)(a << n) | (T)(b >> (w - n))); } \
RT_FN T vf_fshr##w(T a, T b, T c) { unsigned n = (unsigned)(c % w); if (n == 0) return b; return (T)((T)(a << (w - n)) | (T)(b >> n)); }
#if WBITS == 8
RT_FSH(unsigned char, 8)
#elif WBITS == 16
RT_FSH(unsigned short, 16)
#elif WBITS == 32
RT_FSH(unsigned int, 32)
#else
RT_FSH(unsigned long long, 64)
#endif
#endif

typedef BigInt<W, BITS> B;
static constexpr unsigned NW = B::MaxIndex() + 1U, WB = WBITS, TOT = TOTBITS;
static_assert(sizeof(W) * 8U == WBITS, "WBITS");
static_assert(B::TotalBits() == TOTBITS && NW * WB == TOT, "TOTBITS");
static_assert(sizeof(B::storage_) == NW * sizeof(W), "storage");
#ifdef DS_CONTRACT
static_assert(NW <= DSMAX, "DSMAX");
#endif

// ---- representation invariant and arbitrary pre-state ------------------------------------------------------------
static inline bool inv(const B &b) {
    if (b.index_ > B::MaxIndex()) return false;
    bool ok = true;
    for (unsigned i = 0; i < NW; i++) ok = ok && (i <= b.index_ || b.storage_[i] == 0);
    return ok && (b.index_ == 0 || b.storage_[b.index_] != 0);
}
static inline void any_state(B &b) {
    for (unsigned i = 0; i < NW; i++) b.storage_[i] = vf_any<W>();
#ifdef IDX                            // case split: the index is concrete in this query (all values 0..MaxIndex are enumerated)
    b.index_ = IDX;
#else
    b.index_ = vf_u32();
#endif
    vf_assume(inv(b));
}
static inline WIDE any_wide() {
#if WIDEBITS == 128
    u64 lo = vf_u64(); u64 hi = vf_u64();
    return ((u128)hi << 64U) | lo;
#else
    return vf_u64();
#endif
}
static inline DW any_dw() {
#if WBITS == 64
    u64 lo = vf_u64(); u64 hi = vf_u64();
    return ((u128)hi << 64U) | lo;
#else
    return vf_any<DW>();
#endif
}
static inline bool wide_exceeds(WIDE x) {    // x does not fit the declared width (only possible when WIDE is wider than the BigInt)
#if WIDEBITS > TOTBITS
    return (x >> TOTBITS) != 0;
#else
    (void)x; return false;
#endif
}
static inline unsigned top_chunk(WIDE x) {   // index of the highest non-zero W-sized chunk of x (0 for 0)
    unsigned t = 0;
    for (unsigned i = 1; i < WIDEBITS / WBITS; i++) if ((W)(x >> (WB * i)) != 0) t = i;
    return t;
}

// ---- the reference value -----------------------------------------------------------------------------------------
#if TOTBITS <= 128 && !defined(WORDWISE)
#if TOTBITS <= 64
typedef u64  V;                      // native oracle integer: the smallest of u64 / unsigned __int128 holding TOT bits
#define VBITS 64
#else
typedef u128 V;
#define VBITS 128
#endif
typedef V M;
static inline bool m_fit(V v) { return (TOT >= VBITS) ? true : ((v >> (TOT & (VBITS - 1U))) == 0); }
static inline M m_of(const B &b) {
    V v = 0;
    for (unsigned i = NW; i > 0; --i) v = (V)(v << WB) | (V)b.storage_[i - 1U];
    return v;
}
static inline bool m_eq(const B &b, const M &m) { return m_of(b) == m; }
static inline M    m_zero() { return 0; }
static inline bool m_is_zero(const M &m) { return m == 0; }
static inline W    m_word(const M &m, unsigned i) { return (W)(m >> (WB * i)); }
static inline int  m_cmp_word(const M &m, W x) { return (m < (V)x) ? -1 : ((m > (V)x) ? 1 : 0); }
static inline u128 m_low128(const M &m) { return m; }
static inline bool m_add(M &m, W n, unsigned idx) {
    if (idx >= NW) return n == 0;
    const V t = (V)n << (WB * idx);
    const V s = m + t;
    if (s < m || !m_fit(s)) return false;
    m = s; return true;
}
static inline bool m_sub(M &m, W n, unsigned idx) {
    if (idx >= NW) return n == 0;
    const V t = (V)n << (WB * idx);
    if (m < t) return false;
    m -= t; return true;
}
static inline W m_div(M &m, W d) { const W r = (W)(m % (V)d); m = m / (V)d; return r; }
static inline void m_shr(M &m, unsigned off) { m = (off >= TOT) ? (V)0 : (m >> (off & (VBITS - 1U))); }
static inline bool m_shl(M &m, unsigned off) {
    if (m == 0) return true;
    if (off >= TOT) return false;
    if (off != 0 && (m >> ((TOT - off) & (VBITS - 1U))) != 0) return false;
    m <<= off; return true;
}
static inline bool m_set_wide(M &m, WIDE x) { m = (V)x; return m_fit(m) && (WIDE)m == x; }
static inline bool m_add_wide(M &m, WIDE x) { const V s = m + (V)x; if ((WIDE)(V)x != x || s < m || !m_fit(s)) return false; m = s; return true; }
static inline bool m_sub_wide(M &m, WIDE x) { if ((WIDE)(V)x != x || m < (V)x) return false; m -= (V)x; return true; }
static inline bool m_or_wide(M &m, WIDE x) { m |= (V)x; return m_fit(m) && (WIDE)(V)x == x; }
static inline void m_and_wide(M &m, WIDE x) { m &= (V)x; }
#else
struct M { W w[NW]; };
static inline M m_of(const B &b) { M m; for (unsigned i = 0; i < NW; i++) m.w[i] = b.storage_[i]; return m; }
static inline bool m_eq(const B &b, const M &m) { bool e = true; for (unsigned i = 0; i < NW; i++) e = e && (b.storage_[i] == m.w[i]); return e; }
static inline M    m_zero() { M m; for (unsigned i = 0; i < NW; i++) m.w[i] = 0; return m; }
static inline bool m_is_zero(const M &m) { bool z = true; for (unsigned i = 0; i < NW; i++) z = z && (m.w[i] == 0); return z; }
static inline W    m_word(const M &m, unsigned i) { return m.w[i]; }
static inline int  m_cmp_word(const M &m, W x) {
    bool big = false;
    for (unsigned i = 1; i < NW; i++) big = big || (m.w[i] != 0);
    if (big) return 1;
    return (m.w[0] < x) ? -1 : ((m.w[0] > x) ? 1 : 0);
}
static inline u128 m_low128(const M &m) {
    u128 v = 0;
    for (unsigned i = 0; i < NW; i++) if (WB * i < 128U) v |= (u128)m.w[i] << ((WB * i) & 127U);
    return v;
}
static inline bool m_add(M &m, W n, unsigned idx) {   // carry chain
    if (idx >= NW) return n == 0;
    W c = n;
    for (unsigned i = 0; i < NW; i++) if (i >= idx) {
        const W t = m.w[i]; const W s = (W)(t + c);
        m.w[i] = s; c = (s < t) ? W(1) : W(0);
    }
    return c == 0;
}
static inline bool m_sub(M &m, W n, unsigned idx) {   // borrow chain
    if (idx >= NW) return n == 0;
    W c = n;
    for (unsigned i = 0; i < NW; i++) if (i >= idx) {
        const W t = m.w[i];
        m.w[i] = (W)(t - c); c = (t < c) ? W(1) : W(0);
    }
    return c == 0;
}
static inline W m_div(M &m, W d) {
    W r = 0;
    for (unsigned i = NW; i > 0; --i) {
        const DW x = (DW)(((DW)r << WB) | (DW)m.w[i - 1U]);
        m.w[i - 1U] = (W)(x / d); r = (W)(x % d);
    }
    return r;
}
static inline void m_shr(M &m, unsigned off) {
    M o; const unsigned mv = off / WB, sh = off % WB;
    for (unsigned i = 0; i < NW; i++) {
        const W lo = (mv < NW && i + mv < NW) ? m.w[i + mv] : W(0);
        const W hi = (mv < NW && i + mv + 1U < NW) ? m.w[i + mv + 1U] : W(0);
        o.w[i] = (sh != 0) ? (W)((W)(lo >> sh) | (W)(hi << (WB - sh))) : lo;
    }
    m = o;
}
static inline bool m_shl(M &m, unsigned off) {
    if (m_is_zero(m)) return true;
    if (off >= TOT) return false;
    if (off != 0) { M t = m; m_shr(t, TOT - off); if (!m_is_zero(t)) return false; }
    M o; const unsigned mv = off / WB, sh = off % WB;
    for (unsigned i = 0; i < NW; i++) {
        const W cur = (i >= mv) ? m.w[i - mv] : W(0);
        const W low = (i >= mv + 1U) ? m.w[i - mv - 1U] : W(0);
        o.w[i] = (sh != 0) ? (W)((W)(cur << sh) | (W)(low >> (WB - sh))) : cur;
    }
    m = o; return true;
}
static inline bool m_set_wide(M &m, WIDE x) {
    bool fits = true; m = m_zero();
    for (unsigned i = 0; i < WIDEBITS / WBITS; i++) { const W c = (W)(x >> (WB * i)); if (i < NW) m.w[i] = c; else fits = fits && (c == 0); }
    return fits;
}
static inline bool m_add_wide(M &m, WIDE x) { bool f = true; for (unsigned i = 0; i < WIDEBITS / WBITS; i++) f = m_add(m, (W)(x >> (WB * i)), i) && f; return f; }
static inline bool m_sub_wide(M &m, WIDE x) {   // v >= x  <=>  no borrow out of the whole chain; subtract the chunks top-down
    bool f = true; for (unsigned i = WIDEBITS / WBITS; i > 0; --i) f = m_sub(m, (W)(x >> (WB * (i - 1U))), i - 1U) && f; return f;
}
static inline bool m_or_wide(M &m, WIDE x) {
    bool fits = true;
    for (unsigned i = 0; i < WIDEBITS / WBITS; i++) { const W c = (W)(x >> (WB * i)); if (i < NW) m.w[i] |= c; else fits = fits && (c == 0); }
    return fits;
}
static inline void m_and_wide(M &m, WIDE x) {
    for (unsigned i = 0; i < NW; i++) m.w[i] &= (i < WIDEBITS / WBITS) ? (W)(x >> ((WB * i) & (WIDEBITS - 1U))) : W(0);
}
#endif

// m*k by distributivity over the words of m:  sum_i pp[i] * 2^(WB*i)  with pp[i] = word_i * k exactly (double width), each term
// added with the reference adder (low half at word i, high half at word i+1).  All terms are non-negative, so "every addition
// fits" is exactly  m*k < 2^TOT.  The terms are added from the top word down (the sum does not depend on the order; this order
// lets the solver match intermediate sums with the code under test).
static inline bool m_mul(M &m, const DW *pp) {
    M e = m_zero(); bool fits = true;
    for (unsigned i = NW; i > 0; --i) {
        fits = m_add(e, (W)pp[i - 1U], i - 1U) && fits;
        fits = m_add(e, (W)(pp[i - 1U] >> WB), i) && fits;
    }
    m = e; return fits;
}

// m*k in the oracle's own arithmetic (used when the real DoubleSize runs).
#ifdef VBITS
static inline bool m_mul_native(M &m, W k) {   // sum_i (word_i * k) << (WB*i) in V arithmetic; every term and partial sum below 2^TOT
    V acc = 0; bool fits = true;
    for (unsigned i = 0; i < NW; i++) {
        const V p = (V)m_word(m, i) * (V)k;                       // < 2^(2*WB) <= 2^VBITS
        const unsigned room = TOT - WB * i;                       // bits available at this position (>= WB)
        if (room < 2U * WB && (p >> (room & (VBITS - 1U))) != 0) fits = false;
        const V t = (V)(p << (WB * i));
        const V s = acc + t;
        if (s < acc || !m_fit(s)) fits = false;
        acc = s;
    }
    m = acc; return fits;
}
#else
static inline bool m_mul_native(M &m, W k) {   // carry chain over exact double-width word products
    W c = 0;
    for (unsigned i = 0; i < NW; i++) {
        const DW p = (DW)(wmul(m.w[i], k) + (DW)c);
        m.w[i] = (W)p; c = (W)(p >> WB);
    }
    return c == 0;
}
#endif

// =================================================== operations ===================================================
extern "C" void h_add() {            // Add(number, index)
    B b; any_state(b);
    W n = vf_any<W>(); unsigned idx = vf_u32();
    vf_assume(idx <= NW);
    M m = m_of(b);
    vf_assume(m_add(m, n, idx));
    b.Add(n, idx);
    vf_assert(inv(b), 1);
    vf_assert(m_eq(b, m), 2);
    vf_witness();
}
extern "C" void h_add_op() {         // b += word ; b += wide
    B b; any_state(b); B c = b;
    W n = vf_any<W>(); WIDE x = any_wide();
    M m = m_of(b), mw = m;
    if (m_add(m, n, 0)) { b += n; vf_assert(inv(b), 1); vf_assert(m_eq(b, m), 2); }
    if (m_add_wide(mw, x)) { c += x; vf_assert(inv(c), 3); vf_assert(m_eq(c, mw), 4); }
    vf_witness();
}
extern "C" void h_sub() {            // Subtract(number, index)
    B b; any_state(b);
    W n = vf_any<W>(); unsigned idx = vf_u32();
    vf_assume(idx <= NW);
    M m = m_of(b);
    vf_assume(m_sub(m, n, idx));
    b.Subtract(n, idx);
    vf_assert(inv(b), 1);
    vf_assert(m_eq(b, m), 2);
    vf_witness();
}
extern "C" void h_sub_op() {         // b -= word ; b -= wide
    B b; any_state(b); B c = b;
    W n = vf_any<W>(); WIDE x = any_wide();
    M m = m_of(b), mw = m;
    if (m_sub(m, n, 0)) { b -= n; vf_assert(inv(b), 1); vf_assert(m_eq(b, m), 2); }
    if (m_sub_wide(mw, x)) { c -= x; vf_assert(inv(c), 3); vf_assert(m_eq(c, mw), 4); }
    vf_witness();
}
extern "C" void h_mul() {            // Multiply / *=   (with -DDS_CONTRACT: over the contract of DoubleSize::Multiply)
    B b; any_state(b);
    W k = vf_any<W>();
#ifdef KF_EXCL_C19_mul_zero
    vf_assume(!(k == 0 && b.index_ != 0));
#endif
#ifdef KF_ONLY_C19_mul_zero
    vf_assume(k == 0 && b.index_ != 0);
#endif
    M m = m_of(b);
#ifdef DS_CONTRACT
    DW pp[NW];                       // the word products; words above the index are zero
    for (unsigned i = 0; i < NW; i++) {          // what DoubleSize::Multiply(word_i, k) returns: see the stand-in
        const DW p = any_dw();
        vf_assume((p == 0) == (b.storage_[i] == 0 || k == 0));
        vf_assume(p <= (DW)((DW)(W)~W(0) * (DW)(W)~W(0)));
        pp[i] = p;
    }
    const unsigned idx = b.index_;   // call c multiplies word idx - c
    for (unsigned c = 0; c < NW; c++) if (c <= idx) { g_ma[c] = b.storage_[(idx - c) % NW]; g_mk[c] = k; g_mp[c] = pp[(idx - c) % NW]; }
    g_n = 0;
    vf_assume(m_mul(m, pp));
#else
    vf_assume(m_mul_native(m, k));   // the real DoubleSize runs; the oracle multiplies natively
#endif
    b *= k;
#ifdef DS_CONTRACT
    vf_assert(g_n == idx + 1U, 4);   // one DoubleSize::Multiply per word, top down, each on the ORIGINAL word (assertion 91)
#endif
    vf_assert(inv(b), 1);
    vf_assert(m_eq(b, m), 2);
    vf_assert(b.IsZero() == m_is_zero(m), 3);
    vf_witness();
}
extern "C" void h_div() {            // Divide / remainder, directly against the reference division
    B b; any_state(b);
    W d = vf_any<W>();
    vf_assume(d != 0);
#ifdef KF_EXCL_C19_div_odd
    vf_assume(!(WB == 64U && (d & 1U) != 0 && (d >> (WB - 1U)) != 0));
#endif
#ifdef KF_ONLY_C19_div_odd
    vf_assume(WB == 64U && (d & 1U) != 0 && (d >> (WB - 1U)) != 0);
#endif
#ifdef DIVISOR
    vf_assume(d == W(DIVISOR));
#endif
    M m = m_of(b);
#if defined(DIV_BY_MULT) && defined(VBITS) && VBITS == 64
    // division-free statement of the same claim:  pre == Q*d + r  with  r < d,  in 128-bit arithmetic (Q < 2^64, d < 2^16: no wrap)
    const W got = b.Divide(d);
    const V q = m_of(b);
    vf_assert(inv(b), 1);
    vf_assert(got < d, 2);
    vf_assert((u128)q * (u128)d + (u128)got == (u128)m, 3);
#else
    const W r = m_div(m, d);
    const W got = b.Divide(d);
    vf_assert(inv(b), 1);
    vf_assert(m_eq(b, m), 2);
    vf_assert(got == r, 3);
#endif
    vf_witness();
}
#ifdef DS_CONTRACT
extern "C" void h_div_mod() {        // Divide is schoolbook long division over DoubleSize::Divide (assume/guarantee); top word: h_div_top
    B b; any_state(b);
    W d = vf_any<W>();
    vf_assume(d != 0);
    const M pre = m_of(b); const unsigned idx = b.index_;
    g_n = 0;
    const W got = b.Divide(d);
    vf_assert(g_n == idx, 2);                     // one DoubleSize::Divide per word below the top one (its precondition: assertion 90)
    vf_assert(inv(b), 3);
    unsigned i = vf_u32(); vf_assume(i < NW);     // every result word except the top one
    if (i > idx) vf_assert(b.storage_[i] == 0, 4);
    if (i < idx) vf_assert(b.storage_[i] == g_q[(idx - 1U - i) % DSMAX], 5);
    unsigned k = vf_u32();                        // every call: the word consumed, and the remainder chain
    if (k < idx) vf_assert(g_lo[k % DSMAX] == m_word(pre, (idx - 1U - k) % NW), 6);
    if (k < idx && k > 0) vf_assert(g_hi[k % DSMAX] == g_r[(k - 1U) % DSMAX], 7);
    if (idx > 0) vf_assert(got == g_r[(idx - 1U) % DSMAX], 8);
    vf_witness();
}
extern "C" void h_div_top() {        // the top word: quotient word and the first remainder are top / d and top % d
    B b; any_state(b);
    W d = vf_any<W>();
    vf_assume(d != 0);
    const unsigned idx = b.index_;
    const W top = b.storage_[idx];
    g_n = 0;
    const W got = b.Divide(d);
    vf_assert(b.storage_[idx % NW] == W(top / d), 1);
    vf_assert(((idx == 0) ? got : g_hi[0]) == W(top % d), 2);
    vf_witness();
}
#endif
extern "C" void h_shl() {            // ShiftLeft / <<=
    B b; any_state(b);
    unsigned off = vf_u32();
#ifdef SMALLOFF
    vf_assume(off < 2U * TOT);
#endif
#ifdef KF_EXCL_C19_shl_zero
    vf_assume(!(b.index_ == 0 && b.storage_[0] == 0 && off >= WB && (off / WB) <= B::MaxIndex()));
#endif
#ifdef KF_ONLY_C19_shl_zero
    vf_assume(b.index_ == 0 && b.storage_[0] == 0 && off >= WB && (off / WB) <= B::MaxIndex());
#endif
    M m = m_of(b);
    vf_assume(m_shl(m, off));
    b <<= off;
    vf_assert(inv(b), 1);
    vf_assert(m_eq(b, m), 2);
    vf_witness();
}
extern "C" void h_shr() {            // ShiftRight / >>=
    B b; any_state(b);
    unsigned off = vf_u32();
    M m = m_of(b);
    m_shr(m, off);
    b >>= off;
    vf_assert(inv(b), 1);
    vf_assert(m_eq(b, m), 2);
    vf_witness();
}
extern "C" void h_or() {             // |= word ; |= wide
    B b; any_state(b); B c = b;
    W n = vf_any<W>(); WIDE x = any_wide();
    M m = m_of(b), mw = m;
    (void)m_or_wide(m, (WIDE)n);
    b |= n; vf_assert(inv(b), 1); vf_assert(m_eq(b, m), 2);
    if (m_or_wide(mw, x)) { c |= x; vf_assert(inv(c), 3); vf_assert(m_eq(c, mw), 4); }
    vf_witness();
}
extern "C" void h_and() {            // &= word ; &= wide
    B b; any_state(b); B c = b;
    W n = vf_any<W>(); WIDE x = any_wide();
#ifdef KF_EXCL_C19_and_stale
    vf_assume(!(b.index_ > 0));                  // word form: every multi-word value; wide form: index above x's top chunk
    vf_assume(!(b.index_ > top_chunk(x)));
#endif
#ifdef KF_ONLY_C19_and_stale
    vf_assume(b.index_ > 0);
#endif
#if defined(KF_EXCL_C19_and_oob) || defined(KF_ONLY_C19_and_stale)
    vf_assume(!wide_exceeds(x));
#endif
    M m = m_of(b), mw = m;
    m_and_wide(m, (WIDE)n); m_and_wide(mw, x);
    b &= n; vf_assert(inv(b), 1); vf_assert(m_eq(b, m), 2);
    c &= x; vf_assert(inv(c), 3); vf_assert(m_eq(c, mw), 4);
    vf_witness();
}
extern "C" void h_and_wide() {       // &= wide alone, so that the exclusion is the exact predicate of the finding
    B c; any_state(c);
    WIDE x = any_wide();
#ifdef KF_EXCL_C19_and_stale
    vf_assume(!(c.index_ > top_chunk(x)));
#endif
#ifdef KF_ONLY_C19_and_stale
    vf_assume(c.index_ > top_chunk(x));
#endif
#if defined(KF_EXCL_C19_and_oob) || defined(KF_ONLY_C19_and_stale)
    vf_assume(!wide_exceeds(x));                 // x has a non-zero chunk beyond the last word: the AND loop writes there
#endif
#ifdef KF_ONLY_C19_and_oob
    vf_assume(wide_exceeds(x));
#endif
    M mw = m_of(c);
    m_and_wide(mw, x);
    c &= x; vf_assert(inv(c), 3); vf_assert(m_eq(c, mw), 4);
    vf_witness();
}
extern "C" void h_ffb_zero() {       // FindFirstBit of ZERO: the bit index is unspecified (Platform::FindFirstBit's contract), but the scan
    B b; any_state(b);               // stays inside the object and leaves it unchanged ("including when the value is zero")
    M m = m_of(b);
    vf_assume(m_is_zero(m));
    const unsigned r = b.FindFirstBit(); (void)r;
    vf_assert(inv(b) && m_is_zero(m_of(b)), 1);
    vf_witness();
}
extern "C" void h_ffb() {            // FindFirstBit of a non-zero value: the lowest set bit
    B b; any_state(b);
    M m = m_of(b);
    vf_assume(!m_is_zero(m));
    unsigned low = 0;                // lowest non-zero word
    for (unsigned i = NW; i > 0; --i) if (b.storage_[i - 1U] != 0) low = i - 1U;
    {
        const W a = b.storage_[low], t = b.storage_[b.index_];
        const bool wrong_word = (low != b.index_) && ((W)(a & (W)(0 - a)) != (W)(t & (W)(0 - t)));
#ifdef KF_EXCL_C19_ffb
        vf_assume(!wrong_word);
#endif
#ifdef KF_ONLY_C19_ffb
        vf_assume(wrong_word);
#endif
        (void)wrong_word;
    }
    const unsigned r = b.FindFirstBit();
    vf_assert(r < TOT, 1);
    M t = m; m_shr(t, r % TOT);
    vf_assert((m_word(t, 0) & 1U) != 0, 2);      // bit r is set
    M u = t;
    vf_assert(m_shl(u, r % TOT) && m_eq(b, u), 3);   // nothing below it
    vf_assert(inv(b), 4);
    vf_witness();
}
extern "C" void h_flb() {            // FindLastBit of a non-zero value: the highest set bit
    B b; any_state(b);
    M m = m_of(b);
    vf_assume(!m_is_zero(m));
    const unsigned r = b.FindLastBit();
    vf_assert(r < TOT, 1);
    M t = m; m_shr(t, r % TOT);
    vf_assert(m_cmp_word(t, 1) == 0, 2);          // value >> r == 1
    vf_witness();
}
extern "C" void h_cmp() {            // comparisons with a word (both operand orders), IsZero / NotZero / IsBig / Number / Index
    B b; any_state(b);
    W x = vf_any<W>();
    const M m = m_of(b);
    const int c = m_cmp_word(m, x);
    vf_assert((b < x) == (c < 0), 1);   vf_assert((b <= x) == (c <= 0), 2);
    vf_assert((b > x) == (c > 0), 3);   vf_assert((b >= x) == (c >= 0), 4);
    vf_assert((b == x) == (c == 0), 5); vf_assert((b != x) == (c != 0), 6);
    vf_assert((x < b) == (c > 0), 7);   vf_assert((x <= b) == (c >= 0), 8);
    vf_assert((x > b) == (c < 0), 9);   vf_assert((x >= b) == (c <= 0), 10);
    vf_assert((x == b) == (c == 0), 11); vf_assert((x != b) == (c != 0), 12);
    vf_assert(b.IsZero() == m_is_zero(m), 13);
    vf_assert(b.NotZero() == !m_is_zero(m), 14);
    vf_assert(b.IsBig() == (m_cmp_word(m, W(~W(0))) > 0), 15);
    vf_assert(b.Number() == m_word(m, 0), 16);
    vf_assert(inv(b) && m_eq(b, m), 17);
    vf_witness();
}
#ifndef NARROW
#define NARROW unsigned int
#endif
extern "C" void h_narrow() {         // explicit operator NARROW: the value modulo 2^bits(NARROW)
    B b; any_state(b);
    const M m = m_of(b);
    const NARROW got = static_cast<NARROW>(b);
    vf_assert(got == (NARROW)m_low128(m), 1);
    vf_witness();
}
extern "C" void h_set() {            // constructor from a number, operator=(number): word and wide
    B b; any_state(b); B c = b;
    W n = vf_any<W>(); WIDE x = any_wide();
    M m = m_zero(), mw = m_zero();
    (void)m_set_wide(m, (WIDE)n);
    const bool fits = m_set_wide(mw, x);
    b = n; vf_assert(inv(b), 1); vf_assert(m_eq(b, m), 2);
    B f{n}; vf_assert(inv(f), 3); vf_assert(m_eq(f, m), 4);
    if (fits) {
        c = x; vf_assert(inv(c), 5); vf_assert(m_eq(c, mw), 6);
        B g{x}; vf_assert(inv(g), 7); vf_assert(m_eq(g, mw), 8);
    }
    vf_witness();
}
extern "C" void h_clear() {
    B b; any_state(b);
    b.Clear();
    vf_assert(inv(b), 1);
    vf_assert(m_is_zero(m_of(b)) && b.IsZero(), 2);
    vf_witness();
}
extern "C" void h_copy_ctor() {      // copy / move construction
    B s; any_state(s);
    const M m = m_of(s);
    B c{s};
    vf_assert(inv(c) && m_eq(c, m), 1);
    vf_assert(inv(s) && m_eq(s, m), 2);
    B v{static_cast<B &&>(s)};
    vf_assert(inv(v) && m_eq(v, m), 3);
    vf_assert(inv(s) && m_is_zero(m_of(s)), 4);
    vf_witness();
}
extern "C" void h_copy_assign() {    // copy / move assignment over an arbitrary destination
    B s; any_state(s);
    B d; any_state(d);
    {
        const bool stale = (d.index_ > s.index_) && (d.storage_[(s.index_ + 1U) % NW] != 0);
#ifdef KF_EXCL_C19_copy_stale
        vf_assume(!stale);
#endif
#ifdef KF_ONLY_C19_copy_stale
        vf_assume(stale);
#endif
        (void)stale;
    }
    B e = d;
    const M m = m_of(s);
    d = s;
    vf_assert(inv(d) && m_eq(d, m), 1);
    vf_assert(inv(s) && m_eq(s, m), 2);
    e = static_cast<B &&>(s);
    vf_assert(inv(e) && m_eq(e, m), 3);
    vf_assert(inv(s) && m_is_zero(m_of(s)), 4);
    vf_witness();
}

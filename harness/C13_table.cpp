// C13: the real HashTable / HArray / HList (Key2 keys, int values) against an ordered association list.
// Pre-state: built through the public API by K construction steps on a table of concrete initial capacity CAP (0 = default
// constructed).  The step CLASSES are concrete per query (PATV: 1 = insert a new key, 2 = insert an existing key again,
// 3 = remove an existing key) so that Size()/Capacity() - which select every allocation size - are literals for CBMC;
// WHICH key is inserted / overwritten / removed, all key contents (0..2 units, NUL included) and all values are symbolic.
// After each step the expected (Size, Capacity) is asserted and written back (a no-op on the state, it only lets CBMC's
// constant propagation see the literal).  Then ONE operation (-DOP=...), optionally one more insert (-DPOST=1), then the
// observers are compared with the model.
#include "QCommon.hpp"
// Keep the allocation primitive out of line (the attribute is inherited by the definition in Memory.hpp) so that the engine
// can route it through c13_alloc below.  CBMC needs a literal size at every malloc (a symbolic size turns the heap object
// into an unbounded array: out of memory), while the library computes the size from table state.
namespace Qentem { namespace Memory { template <typename Type_T> __attribute__((noinline)) static Type_T *Allocate(SizeT size); } }
#include "HArray.hpp"
#include "HList.hpp"
#include "key2.hpp"
#include "vf.h"
using namespace Qentem;

#define OP_NONE 0          // observers only: Has / GetValue / GetKey / GetItem / GetKeyIndex / Size / ActualSize / order
#define OP_INSERT 1        // Insert(Key&&, Value&&)
#define OP_INSERT_PTR 2    // Insert(const Char*, len, Value&&)            (HList: Insert(ptr,len))
#define OP_INSERT_CREF 3   // Insert(const Key&, const Value&)             (HList: Insert(const Key&))
#define OP_GET 4           // Get(ptr,len) get-or-create, then write through the reference
#define OP_INDEX_KEY 5     // operator[](const Key&)
#define OP_INDEX_MOVE 6    // operator[](Key&&)
#define OP_REMOVE 7        // Remove(const Key&)
#define OP_REMOVE_PTR 8    // Remove(ptr,len)
#define OP_REMOVE_INDEX 9  // RemoveIndex(i), any i
#define OP_RENAME 10       // Rename(const Key&, Key&&)
#define OP_RENAME_CREF 11  // Rename(const Key&, const Key&)
#define OP_MERGE_COPY 12   // t += u
#define OP_MERGE_MOVE 13   // t += Move(u)
#define OP_RESERVE 14      // Reserve(ARG)
#define OP_RESIZE 15       // Resize(ARG)
#define OP_EXPECT 16       // Expect(ARG)
#define OP_COMPRESS 17
#define OP_CLEAR 18
#define OP_SORT_ASC 19
#define OP_SORT_DESC 20
#define OP_COPY_CTOR 21
#define OP_MOVE_CTOR 22
#define OP_COPY_ASSIGN 23  // u = t   (u non-trivial)
#define OP_MOVE_ASSIGN 24  // u = Move(t)
#define OP_RESET 25

#ifndef OP
#define OP OP_NONE
#endif
#ifndef K
#define K 2
#define PATV {1, 1, 0}
#define SZV {1, 2, 0}
#define CPV {2, 2, 0}
#endif
#ifndef K2
#define K2 0        // construction steps of the second table (merge / assignment)
#define PAT2V {0}
#define SZ2V {0}
#define CP2V {0}
#endif
#ifndef CAP
#define CAP 2
#endif
#ifndef CAP2
#define CAP2 2
#endif
#ifndef ARG
#define ARG 0
#endif
#ifndef POST
#define POST 0
#endif
#ifndef HLIST
#define HLIST 0
#endif
#ifndef LIVE
#define LIVE 2      // live entries of t after the construction steps
#endif
#ifndef OBS
#define OBS 15      // which observer groups run: 1 = j-th visited entry, 2 = every model entry found, 4 = probe key, 8 = any index
#endif
#define MAXL (K + K2 + 2)   // model capacity (never reached: asserted)
#define MAXS 16             // scan buffer (>= any capacity reachable here: asserted)

#ifndef CAPSET
#define CAPSET 30     // capacities a table may take in this query, as a bit set: 2 | 4 | 8 | 16
#endif
// Engine stub for Memory::Allocate<char>(size) (CBMC side only; the native replay runs the real one).  Same behaviour:
// operator new(size) - but called with a literal in each branch.  A size outside CAPSET fails assertion 999.
extern "C" char *c13_alloc(SizeT size) {
    const SizeT unit = sizeof(SizeT) + (HLIST ? sizeof(HLItem_T<Key2>) : sizeof(HAItem_T<Key2, int>));
    if ((CAPSET & 2) && size == unit * 2) return (char *)::operator new(unit * 2);
    if ((CAPSET & 4) && size == unit * 4) return (char *)::operator new(unit * 4);
    if ((CAPSET & 8) && size == unit * 8) return (char *)::operator new(unit * 8);
    if ((CAPSET & 16) && size == unit * 16) return (char *)::operator new(unit * 16);
    vf_assert(false, 999);
    vf_assume(false);
    return nullptr;
}

#if HLIST
typedef HList<Key2> T;
#else
typedef HArray<Key2, int> T;
#endif

struct MKey { char d[2]; unsigned n; };
struct Model { MKey k[MAXL]; int v[MAXL]; unsigned n; };

static bool mk_eq(const MKey &a, const MKey &b) { return a.n == b.n && a.d[0] == b.d[0] && a.d[1] == b.d[1]; }
static int m_find(const Model &m, const MKey &k) {
    for (unsigned i = 0; i < m.n; ++i) if (mk_eq(m.k[i], k)) return (int)i;
    return -1;
}
static void m_put(Model &m, const MKey &k, int v) {
    int i = m_find(m, k);
    if (i >= 0) { m.v[i] = v; return; }
    vf_assert(m.n < MAXL, 900);
    if (m.n < MAXL) { m.k[m.n] = k; m.v[m.n] = v; ++m.n; }
}
static void m_remove_at(Model &m, unsigned i) {
    for (unsigned j = i; j + 1 < m.n; ++j) { m.k[j] = m.k[j + 1]; m.v[j] = m.v[j + 1]; }
    --m.n;
}
static void m_remove(Model &m, const MKey &k) { int i = m_find(m, k); if (i >= 0) m_remove_at(m, (unsigned)i); }

// reference order: lexicographic by char's own '<', a proper prefix first
static int ref_cmp(const MKey &a, const MKey &b) {
    unsigned i = 0;
    while (i < a.n && i < b.n) {
        if (a.d[i] < b.d[i]) return -1;
        if (b.d[i] < a.d[i]) return 1;
        ++i;
    }
    return (a.n < b.n) ? -1 : ((b.n < a.n) ? 1 : 0);
}

static MKey sym_key() {   // length 0..2, every unit value (NUL included); unused units normalised to 0
    MKey k;
    k.n = vf_u8(); vf_assume(k.n <= 2);
    k.d[0] = (char)vf_u8();
    k.d[1] = (char)vf_u8();
    if (k.n < 2) k.d[1] = 0;
    if (k.n < 1) k.d[0] = 0;
    return k;
}
static int sym_val() {
#if HLIST
    return 0;
#else
    return (int)vf_u32();
#endif
}
static MKey from_key(const Key2 *k) {
    MKey r; r.n = k->n; r.d[0] = (k->n > 0) ? k->d[0] : (char)0; r.d[1] = (k->n > 1) ? k->d[1] : (char)0;
    return r;
}
static bool k_is(const Key2 *k, const MKey &mk) { MKey a = from_key(k); return mk_eq(a, mk); }

static void t_insert(T &t, const MKey &k, int v) {
#if HLIST
    t.Insert(Key2(k.d, k.n));
#else
    t.Insert(Key2(k.d, k.n), int(v));
#endif
}

static constexpr unsigned char PAT[] = PATV, PAT2[] = PAT2V;   // step classes (K resp. K2 entries + a trailing 0)
static constexpr unsigned      SZ[] = SZV, SZ2[] = SZ2V;       // Size() expected after each step
static constexpr unsigned      CP[] = CPV, CP2[] = CP2V;       // Capacity() expected after each step

// the table really has this Size/Capacity (asserted); writing the literal back changes nothing but CBMC's knowledge
static inline __attribute__((always_inline)) void pin(T &t, unsigned sz, unsigned cp, bool check) {
    if (check) vf_assert(t.Size() == sz && t.Capacity() == cp, 2);
    vf_assume(t.Size() == sz && t.Capacity() == cp);
    t.setSize(sz);
    t.setCapacity(cp);
}
static inline __attribute__((always_inline)) void do_step(T &t, Model &m, unsigned cls, unsigned sz, unsigned cp) {
    MKey k = sym_key();
    int  v = sym_val();
    const int mi = m_find(m, k);
    if (cls == 1) { vf_assume(mi < 0); t_insert(t, k, v); m_put(m, k, v); }            // a new key
    else if (cls == 2) { vf_assume(mi >= 0); t_insert(t, k, v); m_put(m, k, v); }      // an existing key, new value
    else { vf_assume(mi >= 0); Key2 kk(k.d, k.n); t.Remove(kk); m_remove(m, k); }      // remove an existing key (tombstone)
    pin(t, sz, cp, true);
}
static inline __attribute__((always_inline)) void build(T &t, Model &m, const unsigned char *pat, const unsigned *sz, const unsigned *cp, unsigned n) {
    if (n > 0) do_step(t, m, pat[0], sz[0], cp[0]);
    if (n > 1) do_step(t, m, pat[1], sz[1], cp[1]);
    if (n > 2) do_step(t, m, pat[2], sz[2], cp[2]);
    if (n > 3) do_step(t, m, pat[3], sz[3], cp[3]);
    static_assert(K <= 4 && K2 <= 4, "at most 4 construction steps");
}

// indices of the live storage entries in storage (= iteration) order
static unsigned scan(const T &t, unsigned *oi) {
    unsigned no = 0;
    const unsigned sz = t.Size();
    vf_assert(sz <= MAXS, 901);
    for (unsigned i = 0; i < sz && i < MAXS; ++i) {
        if (t.GetKey(i) != nullptr) { oi[no] = i; ++no; }
    }
    return no;
}

// an empty table; cap_zero: one without storage (default-constructed, Reset, moved-from)
static void check_empty(const T &t, bool cap_zero) {
    vf_assert(t.Size() == 0 && t.IsEmpty() && t.ActualSize() == 0, 800);
    if (cap_zero) vf_assert(t.Capacity() == 0, 801);
    MKey p = sym_key();
    Key2 pk(p.d, p.n);
    vf_assert(!t.Has(pk), 802);
    vf_assert(t.GetItem(pk) == nullptr, 803);
    unsigned ki = 0;
    vf_assert(!t.GetKeyIndex(ki, pk), 804);
    vf_assert(t.GetKey(0) == nullptr, 805);
}

// sorted: 0 = storage order must be the model's (first-insertion) order; +1 / -1 = ascending / descending key order
static void observe(const T &t, const Model &m, int sorted) {
    const unsigned sz = t.Size();
    if (t.Capacity() == 0) vf_assert(m.n == 0 && sz == 0, 14);
    const unsigned as = t.ActualSize();
    vf_assert(as == m.n, 10);
    vf_assert(sz >= as && sz <= t.Capacity(), 11);
    vf_assert(t.IsEmpty() == (sz == 0), 12);
    unsigned oi[MAXS];
    const unsigned no = scan(t, oi);
    vf_assert(no == m.n, 13);

    // (a) the j-th visited live entry
    unsigned j = vf_u32();
    if ((OBS & 1) && j < m.n && j < no) {
        const unsigned idx = oi[j];
        const Key2 *k = t.GetKey(idx);
        const typename T::HItem *it = t.GetItem(idx);
        vf_assert(k != nullptr && it != nullptr, 20);
        vf_assert(it == t.First() + idx && k == &(it->Key) && it->Hash != 0, 21);   // begin()..end() iteration sees it here
        MKey ok = from_key(k);
        int  mj = (int)j;
        if (sorted == 0) {
            vf_assert(mk_eq(ok, m.k[j]), 22);                                      // first-insertion order
        } else {
            mj = m_find(m, ok);
            vf_assert(mj >= 0, 23);                                                // permutation of the model's keys ...
            if (j + 1 < no) {
                const Key2 *k2 = t.GetKey(oi[j + 1]);
                vf_assert(k2 != nullptr, 24);
                MKey ok2 = from_key(k2);
                int  r = ref_cmp(ok, ok2);
                vf_assert((sorted > 0) ? (r < 0) : (r > 0), 25);                   // ... in strict key order
            }
        }
#if !HLIST
        const int *pv = t.GetValue(idx);
        vf_assert(pv != nullptr && pv == &(it->Value), 26);
        if (mj >= 0) vf_assert(*pv == m.v[mj], 27);
#endif
        unsigned ki = 0xFFFFFFFFu;
        bool     f = t.GetKeyIndex(ki, *k);                                         // index -> key -> index
        vf_assert(f && ki == idx, 28);
    }
    // (a') every model entry is found (with (13) and distinct model keys: the live entries ARE the model's)
    unsigned q = vf_u32();
    if ((OBS & 2) && q < m.n) {
        Key2     qk(m.k[q].d, m.k[q].n);
        unsigned ki = 0xFFFFFFFFu;
        bool     f = t.GetKeyIndex(ki, qk.First(), qk.Length());
        vf_assert(f && ki < sz, 30);
        const Key2 *k = t.GetKey(ki);                                               // key -> index -> key
        vf_assert(k != nullptr && k_is(k, m.k[q]), 31);
        if (sorted == 0 && q < no) vf_assert(ki == oi[q], 32);
    }
    // (b) an arbitrary probe key (the Key_T overloads forward to the (pointer, length) ones)
    if (OBS & 4) {
    MKey p = sym_key();
    Key2 pk(p.d, p.n);
    const int mi = m_find(m, p);
    vf_assert(t.Has(pk) == (mi >= 0), 40);
    const typename T::HItem *pit = t.GetItem(pk);
    vf_assert((pit != nullptr) == (mi >= 0), 42);
    if (pit != nullptr) vf_assert(k_is(&(pit->Key), p), 43);
#if !HLIST
    const int *gv = t.GetValue(pk);
    vf_assert((gv != nullptr) == (mi >= 0), 44);
    if (gv != nullptr && mi >= 0) vf_assert(*gv == m.v[mi], 45);
    if (pit != nullptr) vf_assert(gv == &(pit->Value), 46);
#endif
    unsigned pki = 0xFFFFFFFFu;
    bool     pf = t.GetKeyIndex(pki, pk);
    vf_assert(pf == (mi >= 0), 48);
    if (pf && pit != nullptr) vf_assert(pki < sz && pit == t.First() + pki, 49);
    }
    // (c) an arbitrary storage index, in range or not
    if (OBS & 8) {
    unsigned i = vf_u32();
    const Key2 *ik = t.GetKey(i);
    const typename T::HItem *ii = t.GetItem(i);
    vf_assert((ik != nullptr) == (ii != nullptr), 50);
    if (i >= sz) vf_assert(ik == nullptr, 51);
#if !HLIST
    const int *iv = t.GetValue(i);
    vf_assert((iv != nullptr) == (ik != nullptr), 52);
#endif
    }
}

// capacity a table gets when it is allocated for n items (allocate(): even, then the next power of two)
static constexpr unsigned cap_for(unsigned n) { return n == 0 ? 0u : (n <= 2 ? 2u : (n <= 4 ? 4u : (n <= 8 ? 8u : 16u))); }
static constexpr unsigned SZ_T = (K > 0) ? SZ[(K > 0) ? K - 1 : 0] : 0u;   // Size() of t after the construction steps

// tables live in placement buffers and are destroyed explicitly before the reachability witness
#define TABLE(name, buf, ...) alignas(8) unsigned char buf[sizeof(T)]; T &name = *new (&buf[0]) T(__VA_ARGS__)
static void fin(T &t) { t.~T(); }

extern "C" void h_op() {
    Model m; m.n = 0;
#if CAP == 0
    TABLE(t, tbuf);
#else
    TABLE(t, tbuf, SizeT(CAP));
    vf_assert(t.Capacity() >= CAP && t.Size() == 0, 1);
#endif
    build(t, m, PAT, SZ, CP, K);
    int  sorted = 0;
    bool t_gone = false;       // t was moved from: it must be empty with no storage
    bool post_t = (POST != 0); // the extra insert goes into t (else: into the other table of the operation)

#if OP == OP_NONE
    // nothing
#elif OP == OP_INSERT || OP == OP_INSERT_PTR || OP == OP_INSERT_CREF
    {
        MKey k = sym_key(); int v = sym_val();
#if HLIST
#if OP == OP_INSERT
        t.Insert(Key2(k.d, k.n));
#elif OP == OP_INSERT_PTR
        t.Insert(&k.d[0], SizeT(k.n));
#else
        const Key2 ck(k.d, k.n); t.Insert(ck);
#endif
#else
#if OP == OP_INSERT
        t.Insert(Key2(k.d, k.n), int(v));
#elif OP == OP_INSERT_PTR
        t.Insert(&k.d[0], SizeT(k.n), int(v));
#else
        const Key2 ck(k.d, k.n); const int cv = v; t.Insert(ck, cv);
#endif
#endif
        m_put(m, k, v);
    }
#elif (OP == OP_GET || OP == OP_INDEX_KEY || OP == OP_INDEX_MOVE) && !HLIST
    {
        MKey k = sym_key(); int v = sym_val();
        const int mi = m_find(m, k);
#if OP == OP_GET
        int &r = t.Get(&k.d[0], SizeT(k.n));
#elif OP == OP_INDEX_KEY
        const Key2 ck(k.d, k.n); int &r = t[ck];
#else
        int &r = t[Key2(k.d, k.n)];
#endif
        if (mi >= 0) vf_assert(r == m.v[mi], 100);     // existing: the stored value
        else vf_assert(r == 0, 101);                   // created: value-initialised
        unsigned w = vf_u8();
        if (mi < 0) m_put(m, k, 0);
        if (w & 1) { r = v; m_put(m, k, v); }          // write through the returned reference
    }
#elif OP == OP_REMOVE || OP == OP_REMOVE_PTR
    {
        MKey k = sym_key();
#if OP == OP_REMOVE
        const Key2 ck(k.d, k.n); t.Remove(ck);
#else
        t.Remove(&k.d[0], SizeT(k.n));
#endif
        m_remove(m, k);
    }
#elif OP == OP_REMOVE_INDEX
    {
        unsigned ri = vf_u32();
        const Key2 *pk = t.GetKey(ri);
        bool had = (pk != nullptr);
        MKey mk; mk.n = 0; mk.d[0] = 0; mk.d[1] = 0;
        if (had) mk = from_key(pk);
        const unsigned sz0 = t.Size();
        t.RemoveIndex(ri);
        vf_assert(t.Size() == sz0, 110);
        if (had) { vf_assert(m_find(m, mk) >= 0, 111); m_remove(m, mk); }
        vf_assert(t.GetKey(ri) == nullptr, 112);
    }
#elif OP == OP_RENAME || OP == OP_RENAME_CREF
    {
        MKey a = sym_key(); MKey b = sym_key();
        const int ia = m_find(m, a), ib = m_find(m, b);
        const Key2 ka(a.d, a.n);
#if OP == OP_RENAME
        bool ok = t.Rename(ka, Key2(b.d, b.n));
#else
        const Key2 kb(b.d, b.n); bool ok = t.Rename(ka, kb);
#endif
        vf_assert(ok == (ia >= 0 && ib < 0), 120);
        if (ia >= 0 && ib < 0) m.k[ia] = b;            // same position, same value
    }
#elif OP == OP_MERGE_COPY || OP == OP_MERGE_MOVE
    {
        Model mu; mu.n = 0;
#if CAP2 == 0
        TABLE(u, ubuf);
#else
        TABLE(u, ubuf, SizeT(CAP2));
#endif
        build(u, mu, PAT2, SZ2, CP2, K2);
        for (unsigned x = 0; x < mu.n; ++x) m_put(m, mu.k[x], mu.v[x]);
#if OP == OP_MERGE_COPY
        const unsigned usz = u.Size(), ucap = u.Capacity();
        t += u;
        vf_assert(u.Size() == usz && u.Capacity() == ucap, 130);
        observe(u, mu, 0);                              // source untouched
        fin(u);
#else
        t += Memory::Move(u);
        check_empty(u, true);
#if POST
        { Model m1; m1.n = 0; MKey k = sym_key(); int v = sym_val(); t_insert(u, k, v); m_put(m1, k, v); observe(u, m1, 0); post_t = false; }   // the moved-from table is usable
#endif
        fin(u);
#endif
    }
#elif OP == OP_RESERVE
    t.Reserve(SizeT(ARG));
    m.n = 0;
    vf_assert(t.Size() == 0 && t.Capacity() >= ARG, 140);
    if (ARG == 0) vf_assert(t.Capacity() == 0, 141);
#elif OP == OP_RESIZE
    {
        unsigned oi[MAXS];
        const unsigned no = scan(t, oi);
        vf_assert(no == m.n, 150);
        Model r; r.n = 0;
        for (unsigned x = 0; x < m.n && x < no; ++x) {   // Resize(n) keeps what lives in storage slots [0,n)
            if (oi[x] < ARG) { r.k[r.n] = m.k[x]; r.v[r.n] = m.v[x]; ++r.n; }
        }
        t.Resize(SizeT(ARG));
        m = r;
        vf_assert(t.Capacity() >= ARG && t.Size() == t.ActualSize(), 151);
        if (ARG == 0) vf_assert(t.Capacity() == 0, 152);
    }
#elif OP == OP_EXPECT
    t.Expect(SizeT(ARG));
    vf_assert(t.Capacity() >= t.Size() + ARG, 160);
#elif OP == OP_COMPRESS
    t.Compress();
    vf_assert(t.Size() == t.ActualSize(), 170);
    if (m.n == 0) vf_assert(t.Capacity() == 0, 171);
    else vf_assert(t.Capacity() != 0, 172);
#elif OP == OP_CLEAR
    {
        const unsigned c0 = t.Capacity();
        t.Clear();
        m.n = 0;
        vf_assert(t.Size() == 0 && t.Capacity() == c0, 180);
    }
#elif OP == OP_RESET
    t.Reset();
    m.n = 0;
    vf_assert(t.Size() == 0 && t.Capacity() == 0, 185);
#elif OP == OP_SORT_ASC || OP == OP_SORT_DESC
    {
        const unsigned s0 = t.Size(), c0 = t.Capacity();
        t.Sort(OP == OP_SORT_ASC);
        sorted = (OP == OP_SORT_ASC) ? 1 : -1;
        vf_assert(t.Size() == s0 && t.Capacity() == c0, 190);
    }
#elif OP == OP_COPY_CTOR
    {
        const unsigned s0 = t.Size(), c0 = t.Capacity();
        TABLE(c, cbuf, t);
        vf_assert(t.Size() == s0 && t.Capacity() == c0, 200);
        vf_assert(c.Size() == c.ActualSize(), 201);
        pin(c, LIVE, cap_for(SZ_T), true);              // a copy holds the live entries only, in storage sized for the source's slots
        observe(c, m, 0);
#if POST
        { MKey k = sym_key(); int v = sym_val(); t_insert(c, k, v); Model mc = m; m_put(mc, k, v); observe(c, mc, 0); post_t = false; }   // the copy is independent
#endif
        fin(c);
    }
#elif OP == OP_MOVE_CTOR
    {
        const unsigned s0 = t.Size(), c0 = t.Capacity();
        TABLE(c, cbuf, Memory::Move(t));
        vf_assert(c.Size() == s0 && c.Capacity() == c0, 210);
        observe(c, m, 0);
        fin(c);
        m.n = 0; t_gone = true;
    }
#elif OP == OP_COPY_ASSIGN || OP == OP_MOVE_ASSIGN
    {
        Model mu; mu.n = 0;
#if CAP2 == 0
        TABLE(u, ubuf);
#else
        TABLE(u, ubuf, SizeT(CAP2));
#endif
        build(u, mu, PAT2, SZ2, CP2, K2);
#if OP == OP_COPY_ASSIGN
        const unsigned s0 = t.Size(), c0 = t.Capacity();
        u = t;
        vf_assert(t.Size() == s0 && t.Capacity() == c0, 220);
        pin(u, LIVE, cap_for(SZ_T), true);
        observe(u, m, 0);
        fin(u);
#else
        const unsigned s0 = t.Size(), c0 = t.Capacity();
        u = Memory::Move(t);
        vf_assert(u.Size() == s0 && u.Capacity() == c0, 221);
        observe(u, m, 0);
        fin(u);
        m.n = 0; t_gone = true;
#endif
    }
#else
#error "operation not available for this table type"
#endif

    if (t_gone) check_empty(t, true);
    if (post_t) { MKey k = sym_key(); int v = sym_val(); t_insert(t, k, v); m_put(m, k, v); if (sorted != 0) sorted = 2; }
    if (sorted != 2) observe(t, m, sorted);
    else {                                              // sorted, then one insert: appended (or updated in place)
        // lookups only: order after a post-sort insert is "sorted prefix + appended entry"
        MKey p = sym_key(); Key2 pk(p.d, p.n); const int mi = m_find(m, p);
        vf_assert(t.Has(pk) == (mi >= 0), 300);
        vf_assert(t.ActualSize() == m.n, 301);
#if !HLIST
        const int *gv = t.GetValue(pk);
        vf_assert((gv != nullptr) == (mi >= 0), 302);
        if (gv != nullptr && mi >= 0) vf_assert(*gv == m.v[mi], 303);
#endif
    }
    fin(t);
    vf_witness();
}

// StringUtils::Hash of any key of LEN units is never 0 (top bit set): 0 is the tombstone mark
#ifndef LEN
#define LEN 2
#endif
#ifndef CHAR
#define CHAR char
#endif
extern "C" void h_hash() {
    const CHAR *key = vf_buf<CHAR>(LEN);
    SizeT h = StringUtils::Hash(key, SizeT(LEN));
    vf_assert(h != 0, 1);
    vf_assert((h >> (sizeof(SizeT) * 8 - 1)) == 1, 2);
    const CHAR *key2 = vf_buf<CHAR>(LEN);          // a function of the contents only
    bool same = true;
    for (unsigned i = 0; i < LEN; ++i) if (key[i] != key2[i]) same = false;
    if (same) vf_assert(StringUtils::Hash(key2, SizeT(LEN)) == h, 3);
    vf_witness();
}

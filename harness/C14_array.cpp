// C14 (a1): Array<T> is a plain sequence.  One inductive step: pre-state built through the public API
// (Array(CAP) + `size` appends, capacity CAP concrete per query, size <= CAP and contents symbolic), ONE public operation
// (OP, concrete per query) with symbolic arguments including aliasing ones, then every observer is compared with a plain
// array model kept in harness locals.  ELEM=0: int.  ELEM=1: Tracked (id + global ledger) so that "each element is
// constructed / destroyed exactly once, none lost or duplicated" is asserted as  ledger == model.
#include "Array.hpp"
#include "tracked.hpp"
#include "vf.h"
using namespace Qentem;

#ifndef ELEM
#define ELEM 0
#endif
#ifndef CAP
#define CAP 2       // capacity of the subject array `a`
#endif
#ifndef BCAP
#define BCAP 2      // capacity of the second array `b` (argument / assignment target)
#endif
#ifndef NARG
#define NARG 3      // numeric argument (Reserve / Resize / Expect / Drop / ctor size); concrete: selects allocation sizes
#endif
#ifndef INIT
#define INIT 0      // `initialize` flag of Reserve / Array(size, initialize)
#endif
#ifndef OP
#define OP 1
#endif
#define MAXN 12

enum {
    OP_COPY_CTOR = 1, OP_MOVE_CTOR, OP_COPY_ASSIGN, OP_MOVE_ASSIGN, OP_APPEND_COPY, OP_APPEND_MOVE, OP_ITEM_COPY, OP_ITEM_MOVE,
    OP_INSERT_COPY, OP_INSERT_MOVE, OP_CLEAR, OP_RESET, OP_DETACH, OP_RESERVE, OP_RESIZE, OP_RESIZE_INIT, OP_EXPECT,
    OP_COMPRESS, OP_DROP, OP_CTOR_SIZE, OP_SWAP, OP_INSERT_ARR_COPY, OP_INSERT_ARR_MOVE
};

#if ELEM == 1
typedef Tracked E;
struct M { unsigned id, val; };
static int         want[TRK_IDS];                                   // the model's side of the ledger
static inline E    make(const M &m) { return E(m.id, m.val); }
static inline bool same(const E &e, const M &m) { return e.id == m.id && e.val == m.val; }
static inline M    sym(unsigned id) { M m; m.id = id; m.val = vf_u32(); return m; }
static inline M    dflt() { M m; m.id = TRK_DEFAULT; m.val = 0; return m; }
static inline M    moved() { M m; m.id = TRK_MOVED; m.val = 0; return m; }
static inline void own(const M &m, int d) { want[m.id] += d; }
#else
typedef int E;
struct M { int v; };
static inline E    make(const M &m) { return m.v; }
static inline bool same(const E &e, const M &m) { return e == m.v; }
static inline M    sym(unsigned) { M m; m.v = (int)vf_u32(); return m; }
static inline M    dflt() { M m; m.v = 0; return m; }
static inline M    moved() { M m; m.v = 0; return m; }
static inline void own(const M &, int) {}
#endif

// build an array with capacity `cap` holding n symbolic elements (ids idbase..) through the public API only
static void build(Array<E> &a, M *m, unsigned cap, unsigned n, unsigned idbase) {
    if (cap != 0) a.Reserve(SizeT(cap));
    unsigned i = 0;
    while (i < n) {
        m[i] = sym(idbase + i);
        a += make(m[i]);          // operator+=(Type_T&&); size < capacity, so no growth here
        own(m[i], 1);
        ++i;
    }
}

// every observer of `a` against the model (m, n).  B: base of the assertion ids
template <unsigned B> static void check(const Array<E> &a, const M *m, unsigned n) {
    vf_assert(a.Size() == n, B + 1);
    vf_assert(a.Capacity() >= a.Size(), B + 2);
    vf_assert((a.Capacity() == 0) == (a.Storage() == nullptr), B + 3);
    vf_assert(a.IsEmpty() == (n == 0) && a.IsNotEmpty() == (n != 0), B + 4);
    vf_assert(a.First() == a.Storage() && a.End() == a.First() + n && a.begin() == a.First() && a.end() == a.End(), B + 5);
    vf_assert(a.Last() == (n != 0 ? a.Storage() + (n - 1) : nullptr), B + 6);
    unsigned i = vf_u32();
    if (i < n) vf_assert(same(a.First()[i], m[i]), B + 7);
    if (a.Capacity() > a.Size()) {   // the storage really has Capacity() slots: touch the last byte of the last unused one
        ((unsigned char *)a.Storage())[a.Capacity() * sizeof(E) - 1] = 0;
    }
}

static void ledger_check_final();

static void run() {
    M        ma[MAXN], mb[MAXN];
    unsigned na, nb;
#ifdef SIZE
    na = SIZE;
#else
    na = vf_u32();
    vf_assume(na <= CAP);
#endif
#ifdef BSIZE
    nb = BSIZE;
#else
    nb = vf_u32();
    vf_assume(nb <= BCAP);
#endif
    Array<E> a;
    build(a, ma, CAP, na, 0);
    const E    *st0  = a.Storage();
    const SizeT cap0 = a.Capacity();
    vf_assert(cap0 == CAP && a.Size() == na, 1);

    if (OP == OP_COPY_CTOR) {
        Array<E> c(a);
        for (unsigned i = 0; i < na; i++) own(ma[i], 1);
        check<100>(c, ma, na);
        check<200>(a, ma, na);
        vf_assert(c.Capacity() == na && (na == 0 || c.Storage() != a.Storage()), 10);
        for (unsigned i = 0; i < na; i++) own(ma[i], -1);   // c dies here
    } else if (OP == OP_MOVE_CTOR) {
        Array<E> c(Memory::Move(a));
        check<100>(c, ma, na);
        check<200>(a, ma, 0);
        vf_assert(c.Storage() == st0 && c.Capacity() == cap0 && a.Capacity() == 0, 10);
        for (unsigned i = 0; i < na; i++) own(ma[i], -1);   // c dies at the end of this block, releasing the elements
        na = 0;
    } else if (OP == OP_COPY_ASSIGN || OP == OP_MOVE_ASSIGN || OP == OP_APPEND_COPY || OP == OP_APPEND_MOVE ||
               OP == OP_INSERT_ARR_COPY || OP == OP_INSERT_ARR_MOVE) {
        Array<E> b;
        build(b, mb, BCAP, nb, 4);
        bool alias = false;
        if (OP != OP_APPEND_MOVE && OP != OP_INSERT_ARR_MOVE) {   // self move-append is outside the claim (see META)
            alias = (vf_u8() & 1) != 0;
        }
        if (OP == OP_COPY_ASSIGN) {          // b = a ;  a = a
            if (alias) {
                Array<E> &r = a;
                a           = r;
                check<100>(a, ma, na);
                vf_assert(a.Storage() == st0 && a.Capacity() == cap0, 10);
            } else {
                b = a;
                for (unsigned i = 0; i < nb; i++) own(mb[i], -1);
                for (unsigned i = 0; i < na; i++) own(ma[i], 1);
                check<100>(b, ma, na);
                check<200>(a, ma, na);
                vf_assert(b.Capacity() == na && (na == 0 || b.Storage() != a.Storage()), 11);
                for (unsigned i = 0; i < na; i++) mb[i] = ma[i];
                nb = na;
            }
        } else if (OP == OP_MOVE_ASSIGN) {   // b = move(a) ;  a = move(a)
            if (alias) {
                Array<E> &r = a;
                a           = Memory::Move(r);
                check<100>(a, ma, na);
                vf_assert(a.Storage() == st0 && a.Capacity() == cap0, 10);
            } else {
                b = Memory::Move(a);
                for (unsigned i = 0; i < nb; i++) own(mb[i], -1);
                check<100>(b, ma, na);
                check<200>(a, ma, 0);
                vf_assert(b.Storage() == st0 && b.Capacity() == cap0 && a.Capacity() == 0, 11);
                for (unsigned i = 0; i < na; i++) mb[i] = ma[i];
                nb = na;
                na = 0;
            }
        } else if (OP == OP_APPEND_COPY || OP == OP_INSERT_ARR_COPY) {   // a += b ;  a += a
            const unsigned ns = alias ? na : nb;
            // known finding C14-array-append-copy: copy-append to a NON-EMPTY array writes the new items over the front
            // (and, when the source is the array itself and it has to grow, reads the released block)
#ifdef KF_EXCL_C14_array_append_copy
            vf_assume(!(na != 0 && ns != 0));
#endif
#ifdef KF_ONLY_C14_array_append_copy
            vf_assume(na != 0 && ns != 0);
#endif
            const Array<E> &src = alias ? a : b;
            if (OP == OP_APPEND_COPY) a += src; else a.Insert(src);
            for (unsigned i = 0; i < ns; i++) { ma[na + i] = alias ? ma[i] : mb[i]; own(ma[na + i], 1); }
            na += ns;
            check<100>(a, ma, na);
            check<200>(b, mb, nb);
            if (na <= CAP) vf_assert(a.Storage() == st0 && a.Capacity() == cap0, 12);   // fits: no reallocation
        } else {                             // a += move(b)
            const E *bst = b.Storage(); const SizeT bcap = b.Capacity();
            if (OP == OP_APPEND_MOVE) a += Memory::Move(b); else a.Insert(Memory::Move(b));
            for (unsigned i = 0; i < nb; i++) ma[na + i] = mb[i];
            na += nb;
            check<100>(a, ma, na);
            check<200>(b, mb, 0);
            vf_assert(b.Capacity() == 0, 13);
            if (CAP == 0) vf_assert(a.Storage() == bst && a.Capacity() == bcap, 14);   // empty target adopts the block
            nb = 0;
        }
        for (unsigned i = 0; i < nb; i++) own(mb[i], -1);   // b dies here
    } else if (OP == OP_ITEM_COPY || OP == OP_INSERT_COPY) {   // a += item ;  a += a[k] (the argument lives in the array)
        M x = sym(8);
        E item = make(x);
        own(x, 1);
        bool     alias = (vf_u8() & 1) != 0;
        unsigned k     = vf_u32();
        if (na == 0) alias = false;
        if (alias) vf_assume(k < na);
        // known finding C14-array-append-own-item: when the array is full, resize() releases the block the argument lives
        // in before the new element is copy-constructed from it
#ifdef KF_EXCL_C14_array_append_own_item
        vf_assume(!(alias && na == CAP));
#endif
#ifdef KF_ONLY_C14_array_append_own_item
        vf_assume(alias && na == CAP);
#endif
        const E       &ref    = alias ? a.First()[k] : item;
        const M        y      = alias ? ma[k] : x;
        const unsigned before = na;
        if (OP == OP_ITEM_COPY) a += ref;
        else { E &r = a.Insert(ref); vf_assert(&r == a.Storage() + before, 15); }
        ma[na] = y; own(y, 1); ++na;
        check<100>(a, ma, na);
        vf_assert(same(item, x), 16);
        if (before < CAP) vf_assert(a.Storage() == st0 && a.Capacity() == cap0, 12);
        own(x, -1);   // item dies
    } else if (OP == OP_ITEM_MOVE || OP == OP_INSERT_MOVE) {
        M x = sym(8);
        E item = make(x);
        const unsigned before = na;
        if (OP == OP_ITEM_MOVE) a += Memory::Move(item);
        else { E &r = a.Insert(Memory::Move(item)); vf_assert(&r == a.Storage() + before, 15); }
        ma[na] = x; own(x, 1); ++na;
        check<100>(a, ma, na);
#if ELEM == 1
        vf_assert(same(item, moved()), 16);
#endif
        if (before < CAP) vf_assert(a.Storage() == st0 && a.Capacity() == cap0, 12);
    } else if (OP == OP_CLEAR) {
        a.Clear();
        for (unsigned i = 0; i < na; i++) own(ma[i], -1);
        na = 0;
        check<100>(a, ma, 0);
        vf_assert(a.Storage() == st0 && a.Capacity() == cap0, 10);
    } else if (OP == OP_RESET) {
        a.Reset();
        for (unsigned i = 0; i < na; i++) own(ma[i], -1);
        na = 0;
        check<100>(a, ma, 0);
        vf_assert(a.Capacity() == 0, 10);
    } else if (OP == OP_DETACH) {
        E *p = a.Detach();
        check<100>(a, ma, 0);
        vf_assert(p == st0 && a.Capacity() == 0, 10);
        unsigned i = vf_u32();
        if (i < na) vf_assert(same(p[i], ma[i]), 11);
        Memory::Dispose(p, p + na);          // the caller owns the block now
        Memory::Deallocate(p);
        for (unsigned j = 0; j < na; j++) own(ma[j], -1);
        na = 0;
    } else if (OP == OP_RESERVE) {
        a.Reserve(SizeT(NARG), INIT != 0);
        for (unsigned i = 0; i < na; i++) own(ma[i], -1);
        na = 0;
        if (INIT) { for (unsigned i = 0; i < NARG; i++) { ma[i] = dflt(); own(ma[i], 1); } na = NARG; }
        check<100>(a, ma, na);
        vf_assert(a.Capacity() == NARG, 10);
    } else if (OP == OP_RESIZE) {
        a.Resize(SizeT(NARG));
        while (na > NARG) { --na; own(ma[na], -1); }
        check<100>(a, ma, na);
        vf_assert(a.Capacity() == NARG, 10);
    } else if (OP == OP_RESIZE_INIT) {
        a.ResizeAndInitialize(SizeT(NARG));
        while (na > NARG) { --na; own(ma[na], -1); }
        while (na < NARG) { ma[na] = dflt(); own(ma[na], 1); ++na; }
        check<100>(a, ma, na);
        vf_assert(a.Capacity() == NARG && a.Size() == NARG, 10);
    } else if (OP == OP_EXPECT) {
        a.Expect(SizeT(NARG));
        check<100>(a, ma, na);
        vf_assert(a.Capacity() >= na + NARG, 10);
        if (na + NARG <= CAP) vf_assert(a.Storage() == st0 && a.Capacity() == cap0, 12);
    } else if (OP == OP_COMPRESS) {
        a.Compress();
        check<100>(a, ma, na);
        vf_assert(a.Capacity() == na, 10);
    } else if (OP == OP_DROP) {
        unsigned d = vf_u32();               // does not select an allocation size: symbolic
        vf_assume(d <= CAP + 1);
        a.Drop(SizeT(d));
        if (d <= na) { for (unsigned i = 0; i < d; i++) { --na; own(ma[na], -1); } }
        check<100>(a, ma, na);
        vf_assert(a.Storage() == st0 && a.Capacity() == cap0, 10);
    } else if (OP == OP_CTOR_SIZE) {
        Array<E> c(SizeT(NARG), INIT != 0);
        unsigned nc = 0;
        if (INIT) { for (unsigned i = 0; i < NARG; i++) { mb[i] = dflt(); own(mb[i], 1); } nc = NARG; }
        check<100>(c, mb, nc);
        vf_assert(c.Capacity() == NARG, 10);
        for (unsigned i = 0; i < nc; i++) own(mb[i], -1);
    } else if (OP == OP_SWAP) {
        unsigned i = vf_u32(), j = vf_u32();
        vf_assume(i < na && j < na);
        a.Swap(a.Storage()[i], a.Storage()[j]);
        M t = ma[i]; ma[i] = ma[j]; ma[j] = t;
        check<100>(a, ma, na);
        vf_assert(a.Storage() == st0 && a.Capacity() == cap0, 10);
    }

#if ELEM == 1
    {   // ledger == model while everything is still alive
        unsigned k = vf_u32();
        vf_assume(k < TRK_IDS);
        vf_assert(!trk_ledger.bad, 20);
        vf_assert(trk_ledger.live[k] == want[k], 21);
    }
#endif
    for (unsigned i = 0; i < na; i++) own(ma[i], -1);   // a dies at scope exit
}

extern "C" void h_array() {
    run();
#if ELEM == 1
    {   // everything destroyed exactly once
        unsigned k = vf_u32();
        vf_assume(k < TRK_IDS);
        vf_assert(!trk_ledger.bad, 30);
        vf_assert(trk_ledger.live[k] == 0 && want[k] == 0, 31);
        vf_assert(trk_ledger.ctor == trk_ledger.dtor, 32);
    }
#endif
    vf_witness();
}

// C05: JSON parser memory safety / termination, modular (assume-guarantee) over the recursive descent:
// each parser function is verified alone over an exact-size symbolic buffer with its callees replaced by contract
// stubs that ASSERT the callee's precondition at the call site and return an arbitrary result satisfying only the
// callee's postcondition; the postcondition is asserted at the exit of the callee's own harness.
//   pre(parseValue):  content == buffer, length == |buffer|, offset <  length
//   pre(parseObject/parseArray):                         offset <= length
//   post(parseValue): offset' > offset ; post(parseObject/parseArray): offset' >= offset   (parseValue consumes the opening
//                     bracket before it calls them, so every parseValue call makes progress => termination)
//   pre(UnEscape(p, n)): [p, p+n) inside the buffer ;  post: result <= n
//   pre(stringToNumber): offset < end == |buffer| ;    post: offset <= offset' <= end, and offset' > offset unless NotANumber
#define private public
#include "json_stub_value.hpp"
#include "fixed_stream.hpp"
#include "JSON.hpp"
using namespace Qentem;
#ifndef L
#define L 4
#endif
#ifndef CHAR
#define CHAR char
#endif
typedef CHAR C; typedef Value<C> V; typedef FixedStream<C, 16> SS; typedef JSON::JSONParser<C, SS> PR;
static const C *g_buf; static unsigned g_len;

static void any_value(V *out) {
    new (out) V{};
    out->type_ = ValueType(vf_u8() % 11);
}
extern "C" void stub_parseValue(V *out, SS *s, const C *c, unsigned *off, unsigned len) {
    vf_assert(c == g_buf && len == g_len, 20);
    vf_assert(*off < len, 21);                 // callee precondition, checked at every call site
    any_value(out);
    unsigned o = vf_u32(); vf_assume(o > *off && o < 0xFFFFFF00u);
#ifdef STEER   /* steering twin: every callee result is a REAL one-digit number, so a counterexample lifts to a real document */
    vf_assume(o == *off + 1 && c[*off] >= C('1') && c[*off] <= C('9')); out->type_ = ValueType::UIntLong;
#endif
    *off = o;
}
extern "C" void stub_container(V *out, SS *s, const C *c, unsigned *off, unsigned len) {
    vf_assert(c == g_buf && len == g_len, 22);
    vf_assert(*off <= len, 23);
    any_value(out);
    unsigned o = vf_u32(); vf_assume(o >= *off && o < 0xFFFFFF00u); *off = o;
}
extern "C" unsigned stub_unescape(const C *content, unsigned length, SS *stream) {
    vf_assert(content >= g_buf && content <= g_buf + g_len, 30);
    vf_assert(length <= g_len - unsigned(content - g_buf), 31);   // the slice must lie inside the buffer
    unsigned n = vf_u32(); vf_assume(n <= 16); stream->len = n;    // arbitrary scratch content
    unsigned r = vf_u32(); vf_assume(r <= length);
#ifdef STEER   /* steering twin: every string is the real text  k"  */
    vf_assume(r == 2 && n == 0 && length >= 2 && content[0] == C('k') && content[1] == C('"'));
#endif
    return r;
}
extern "C" unsigned char stub_strtonum(QNumber64 *num, const C *content, unsigned *off, unsigned end) {
    vf_assert(content == g_buf && end == g_len, 40);
    vf_assert(*off < end, 41);
    num->Natural = vf_u64();
    unsigned char t = (unsigned char)(vf_u8() % 4);           // QNumberType; 0 = NotANumber
    unsigned o = vf_u32(); vf_assume(o >= *off && o <= end); vf_assume(t == 0 || o > *off); *off = o;
    return t;
}
extern "C" void stub_pow(unsigned long long *num, unsigned e) { *num = vf_u64(); }
extern "C" bool stub_pow_b(unsigned long long *num, unsigned e) { *num = vf_u64(); return (vf_u8() & 1) != 0; }   // bool-returning variant (reports overflow)

static const C *mkbuf() { const C *b = vf_buf<C>(L); g_buf = b; g_len = L; return b; }

extern "C" void h_top() {                      // JSON::Parse, parseValue under contract
    const C *b = mkbuf(); SS stream;
    V v = PR::Parse(stream, b, SizeT(L));
    vf_assert(!stream.overflow, 1);
    vf_witness();
}
extern "C" void h_value() {                    // parseValue; containers, UnEscape, stringToNumber under contract
    const C *b = mkbuf(); SS stream;
    unsigned off = vf_u32(); vf_assume(off < L); unsigned in = off;
    V v = PR::parseValue(stream, b, off, SizeT(L));
    vf_assert(off > in, 2);
    vf_witness();
}
extern "C" void h_array() {                    // parseArray; parseValue under contract
    const C *b = mkbuf(); SS stream;
    unsigned off = vf_u32(); vf_assume(off <= L); unsigned in = off;
    V v = PR::parseArray(stream, b, off, SizeT(L));
    vf_assert(off >= in, 3);
    vf_witness();
}
extern "C" void h_object() {                   // parseObject; parseValue and UnEscape under contract
    const C *b = mkbuf(); SS stream;
    unsigned off = vf_u32(); vf_assume(off <= L); unsigned in = off;
    V v = PR::parseObject(stream, b, off, SizeT(L));
    vf_assert(off >= in, 4);
    vf_witness();
}
extern "C" void h_unescape() {                 // the real un-escaper on an arbitrary slice [off, L)
    const C *b = mkbuf(); SS stream;
    unsigned off = vf_u32(); vf_assume(off <= L);
    unsigned r = JSONUtils::UnEscape(b + off, SizeT(L - off), stream);
    vf_assert(r <= L - off, 5);
    vf_assert(!stream.overflow, 6);
    vf_witness();
}
extern "C" void h_number() {                   // the real number scanner; big-integer power kernels havoc'd (they never touch the buffer)
    const C *b = mkbuf();
    unsigned off = vf_u32(); vf_assume(off < L); unsigned in = off;
    QNumber64 num;
    QNumberType t = Digit::stringToNumber(num, b, off, SizeT(L));
    vf_assert(off >= in && off <= L, 7);
    vf_assert(t == QNumberType::NotANumber || off > in, 8);   // a recognised number consumed at least one unit
    vf_witness();
}

// C20: code point -> UTF-8/16/32, four-hex-digit decoding, \uXXXX and surrogate-pair un-escaping
#include "fixed_stream.hpp"
#include "Unicode.hpp"
#include "Digit.hpp"
#include "JSONUtils.hpp"
#include "vf.h"
using namespace Qentem;
#ifndef HAS_X
#define HAS_X 0
#define HAS_Y 0
#define PAIR 0
#endif
#ifndef CHAR
#define CHAR char
#endif
typedef CHAR C;
typedef FixedStream<C, 16> FS;

// reference encoder (standard UTF-8 / UTF-16 / UTF-32), returns number of units
static unsigned ref_enc(unsigned cp, C *o) {
    if (sizeof(C) == 1) {
        if (cp < 0x80) { o[0] = C(cp); return 1; }
        if (cp < 0x800) { o[0] = C(0xC0 | (cp >> 6)); o[1] = C(0x80 | (cp & 0x3F)); return 2; }
        if (cp < 0x10000) { o[0] = C(0xE0 | (cp >> 12)); o[1] = C(0x80 | ((cp >> 6) & 0x3F)); o[2] = C(0x80 | (cp & 0x3F)); return 3; }
        o[0] = C(0xF0 | (cp >> 18)); o[1] = C(0x80 | ((cp >> 12) & 0x3F)); o[2] = C(0x80 | ((cp >> 6) & 0x3F)); o[3] = C(0x80 | (cp & 0x3F)); return 4;
    }
    if (sizeof(C) == 2) {
        if (cp < 0x10000) { o[0] = C(cp); return 1; }
        unsigned v = cp - 0x10000; o[0] = C(0xD800 + (v >> 10)); o[1] = C(0xDC00 + (v & 0x3FF)); return 2;
    }
    o[0] = C(cp); return 1;
}
static bool scalar(unsigned cp) { return cp <= 0x10FFFF && !(cp >= 0xD800 && cp <= 0xDFFF); }
static C hexdigit(unsigned nib, bool upper) { return C(nib < 10 ? ('0' + nib) : ((upper ? 'A' : 'a') + (nib - 10))); }

extern "C" void h_toutf() {   // every scalar value
    unsigned cp = vf_u32(); vf_assume(scalar(cp));
    FS s; C pre = vf_any<C>(); s += pre;           // non-empty destination must be preserved
    Unicode::ToUTF<C>(cp, s);
    C r[4]; unsigned n = ref_enc(cp, r);
    vf_assert(!s.overflow && s.Length() == n + 1 && s.First()[0] == pre, 1);
    unsigned i = vf_u32(); vf_assume(i < n);
    vf_assert(s.First()[1 + i] == r[i], 2);
    vf_witness();
}

extern "C" void h_hex4() {   // four hex digits in either case
    unsigned v = vf_u16(); unsigned cs = vf_u8();
    C d[4];
    d[0] = hexdigit((v >> 12) & 15, cs & 1); d[1] = hexdigit((v >> 8) & 15, cs & 2);
    d[2] = hexdigit((v >> 4) & 15, cs & 4);  d[3] = hexdigit(v & 15, cs & 8);
    vf_assert(Digit::HexStringToNumber<SizeT32>(&d[0], SizeT{4}) == v, 1);
    vf_witness();
}

static unsigned put_u(C *b, unsigned at, unsigned v, unsigned cs, bool upper_u) {
    b[at] = C('\\'); b[at + 1] = C(upper_u ? 'U' : 'u');
    b[at + 2] = hexdigit((v >> 12) & 15, cs & 1); b[at + 3] = hexdigit((v >> 8) & 15, cs & 2);
    b[at + 4] = hexdigit((v >> 4) & 15, cs & 4);  b[at + 5] = hexdigit(v & 15, cs & 8);
    return at + 6;
}
static bool plain(C c) { return c != C('"') && c != C('\\') && c != C('\n') && c != C('\t') && c != C('\r'); }

// [x] \uXXXX [\uYYYY] [y] "   : x, y optional plain neighbours
extern "C" void h_unescape() {
    unsigned cp = vf_u32(); vf_assume(scalar(cp));
#if PAIR
    vf_assume(cp >= 0x10000);
#else
    vf_assume(cp < 0x10000);
#endif
    const bool has_x = HAS_X, has_y = HAS_Y; C x = vf_any<C>(), y = vf_any<C>();   // neighbours: concrete per query
    vf_assume(plain(x) && plain(y));
    unsigned cs1 = vf_u8(), cs2 = vf_u8(); bool uu = false;
    const unsigned len = (has_x ? 1 : 0) + (PAIR ? 12 : 6) + (has_y ? 1 : 0) + 1;
    C *b = vf_buf<C>(len);
    unsigned at = 0;
    if (has_x) { b[at] = x; ++at; }
    if (PAIR) { unsigned v = cp - 0x10000; at = put_u(b, at, 0xD800 + (v >> 10), cs1, uu); at = put_u(b, at, 0xDC00 + (v & 0x3FF), cs2, uu); }
    else at = put_u(b, at, cp, cs1, uu);
    if (has_y) { b[at] = y; ++at; }
    b[at] = C('"'); ++at;
    FS s;
    SizeT ret = JSONUtils::UnEscape(b, SizeT(len), s);
    C r[4]; unsigned n = ref_enc(cp, r);
    vf_assert(ret == len, 1);
    vf_assert(!s.overflow && s.Length() == n + (has_x ? 1 : 0) + (has_y ? 1 : 0), 2);
    unsigned o = 0;
    if (has_x) { vf_assert(s.First()[0] == x, 3); o = 1; }
    unsigned i = vf_u32(); vf_assume(i < n);
    vf_assert(s.First()[o + i] == r[i], 4);
    if (has_y) vf_assert(s.First()[o + n] == y, 5);
    vf_witness();
}

// C06(c) structure / C07 all-or-nothing: the REAL parser (JSON.hpp, JSONUtils.hpp, Digit scanner) run monolithically
// (recursion unwound to the document's depth) on documents produced by a generator: the skeleton (SKEL), the scalar
// kind (SC) and the presence of whitespace (WS) are concrete per query; scalar contents, key units and every
// whitespace unit are symbolic.  Values are recorded by the shape-recording stand-in (kinds, counts, member order,
// key units, scalar payloads, first string units).  Documents are valid by construction, so no reference recogniser
// is needed.   MODE: 0 parse & compare shape | 1 every proper prefix | 2 trailing non-whitespace unit |
//                    3 closing bracket replaced by the other kind | 4 closing bracket deleted
#define private public
#include "json_stub_value.hpp"
#include "fixed_stream.hpp"
#include "JSON.hpp"
using namespace Qentem;
#ifndef CHAR
#define CHAR char
#endif
#ifndef SKEL
#define SKEL 2
#endif
#ifndef SC
#define SC 0
#endif
#ifndef WS
#define WS 0
#endif
#ifndef MODE
#define MODE 0
#endif
typedef CHAR C; typedef Value<C> V; typedef FixedStream<C, 16> SS; typedef JSON::JSONParser<C, SS> PR;
extern "C" void stub_pow(unsigned long long *num, unsigned e) { *num = vf_u64(); }

#define MAXD 48
struct Doc { C b[MAXD + 2]; unsigned n; };
struct Exp { unsigned type; unsigned long long payload; bool payload_known; unsigned len; unsigned sv0; };
static void put(Doc &d, C c) { d.b[d.n] = c; ++d.n; }
static void ws(Doc &d) {
#if WS
    C w = vf_any<C>(); vf_assume(w == C(' ') || w == C('\n') || w == C('\t') || w == C('\r')); put(d, w);
#endif
}
static bool plain(C c) { return c != C('"') && c != C('\\') && !(unsigned(c) < 0x20u && c >= 0); }
// scalar of the query's kind; fills the expectation
static void scalar(Doc &d, Exp &e) {
    e.payload_known = true; e.len = 0; e.sv0 = 0;
#if SC == 0   /* unsigned integer, 2 digits (all lengths concrete so that every document position is concrete) */
    unsigned a = vf_u8() % 9 + 1, b = vf_u8() % 10;
    put(d, C('0' + a)); put(d, C('0' + b));
    e.type = unsigned(ValueType::UIntLong); e.payload = a * 10 + b;
#elif SC == 1 /* negative integer */
    unsigned a = vf_u8() % 9 + 1, b = vf_u8() % 10;
    put(d, C('-')); put(d, C('0' + a)); put(d, C('0' + b));
    e.type = unsigned(ValueType::IntLong); e.payload = (unsigned long long)(-(long long)(a * 10 + b));
#elif SC == 2 /* real d.5 : kind only (digits delegated to C09) */
    unsigned a = vf_u8() % 10; put(d, C('0' + a)); put(d, C('.')); put(d, C('5'));
    e.type = unsigned(ValueType::Double); e.payload_known = false;
#elif SC == 3
    put(d, C('t')); put(d, C('r')); put(d, C('u')); put(d, C('e')); e.type = unsigned(ValueType::True); e.payload_known = false;
#elif SC == 4
    put(d, C('f')); put(d, C('a')); put(d, C('l')); put(d, C('s')); put(d, C('e')); e.type = unsigned(ValueType::False); e.payload_known = false;
#elif SC == 5
    put(d, C('n')); put(d, C('u')); put(d, C('l')); put(d, C('l')); e.type = unsigned(ValueType::Null); e.payload_known = false;
#elif SC == 6 /* string of one plain symbolic unit */
    C x = vf_any<C>(); vf_assume(plain(x));
    put(d, C('"')); put(d, x); put(d, C('"'));
    e.type = unsigned(ValueType::String); e.payload = 1; e.len = 1; e.sv0 = unsigned(x);
#elif SC == 8 /* empty string */
    put(d, C('"')); put(d, C('"'));
    e.type = unsigned(ValueType::String); e.payload = 0; e.len = 0;
#elif SC == 9 /* one digit (incl. 0) */
    unsigned a = vf_u8() % 10; put(d, C('0' + a));
    e.type = unsigned(ValueType::UIntLong); e.payload = a;
#else        /* string with one two-character escape: decoded length 1 */
    unsigned k = vf_u8() % 8; const char esc[8] = {'"', '\\', '/', 'b', 'f', 'n', 'r', 't'}; const char dec[8] = {'"', '\\', '/', '\b', '\f', '\n', '\r', '\t'};
    put(d, C('"')); put(d, C('\\')); put(d, C(esc[k])); put(d, C('"'));
    e.type = unsigned(ValueType::String); e.payload = 1; e.len = 1; e.sv0 = unsigned(C(dec[k]));
#endif
}
static void key(Doc &d, C k) { put(d, C('"')); put(d, k); put(d, C('"')); ws(d); put(d, C(':')); ws(d); }
static bool chk(const ShapeChild &c, const Exp &e) {
    if (c.type != e.type) return false;
    if (e.payload_known && c.payload != e.payload) return false;
    if (e.type == unsigned(ValueType::String) && e.len == 1 && c.sv[0] != e.sv0) return false;
    return true;
}

extern "C" void h_doc() {
    Doc d; d.n = 0; Exp e0, e1; e0.type = 0; e1.type = 0;
    C k0 = vf_any<C>(), k1 = vf_any<C>(); vf_assume(plain(k0) && plain(k1));
#if SKEL != 12
    vf_assume(k0 != k1);
#endif
    unsigned top = 0, cnt = 0;      // expected top kind / member count
    const unsigned OBJ = unsigned(ValueType::Object), ARR = unsigned(ValueType::Array);
#if SKEL == 0
    put(d, C('[')); ws(d); put(d, C(']')); top = ARR; cnt = 0;
#elif SKEL == 1
    put(d, C('{')); ws(d); put(d, C('}')); top = OBJ; cnt = 0;
#elif SKEL == 2
    put(d, C('[')); ws(d); scalar(d, e0); ws(d); put(d, C(']')); top = ARR; cnt = 1;
#elif SKEL == 3
    put(d, C('{')); ws(d); key(d, k0); scalar(d, e0); ws(d); put(d, C('}')); top = OBJ; cnt = 1;
#elif SKEL == 4
    put(d, C('[')); ws(d); scalar(d, e0); ws(d); put(d, C(',')); ws(d); scalar(d, e1); ws(d); put(d, C(']')); top = ARR; cnt = 2;
#elif SKEL == 5
    put(d, C('{')); ws(d); key(d, k0); scalar(d, e0); ws(d); put(d, C(',')); ws(d); key(d, k1); scalar(d, e1); ws(d); put(d, C('}')); top = OBJ; cnt = 2;
#elif SKEL == 6
    put(d, C('[')); ws(d); put(d, C('[')); ws(d); scalar(d, e0); ws(d); put(d, C(']')); ws(d); put(d, C(']')); top = ARR; cnt = 1;
#elif SKEL == 7
    put(d, C('[')); ws(d); put(d, C('{')); ws(d); key(d, k0); scalar(d, e0); ws(d); put(d, C('}')); ws(d); put(d, C(']')); top = ARR; cnt = 1;
#elif SKEL == 8
    put(d, C('{')); ws(d); key(d, k0); put(d, C('[')); ws(d); scalar(d, e0); ws(d); put(d, C(']')); ws(d); put(d, C('}')); top = OBJ; cnt = 1;
#elif SKEL == 9
    put(d, C('{')); ws(d); key(d, k0); put(d, C('{')); ws(d); key(d, k1); scalar(d, e0); ws(d); put(d, C('}')); ws(d); put(d, C('}')); top = OBJ; cnt = 1;
#elif SKEL == 10
    put(d, C('[')); ws(d); put(d, C('[')); ws(d); put(d, C(']')); ws(d); put(d, C(',')); ws(d); put(d, C('{')); ws(d); put(d, C('}')); ws(d); put(d, C(']')); top = ARR; cnt = 2;
#elif SKEL == 11
    put(d, C('[')); ws(d); scalar(d, e0); ws(d); put(d, C(',')); ws(d); put(d, C('[')); ws(d); scalar(d, e1); ws(d); put(d, C(']')); ws(d); put(d, C(']')); top = ARR; cnt = 2;
#else /* 12: duplicate key (the stand-in records both insertions; last-wins is HArray's job, C13) */
    put(d, C('{')); ws(d); key(d, k0); scalar(d, e0); ws(d); put(d, C(',')); ws(d); key(d, k0); scalar(d, e1); ws(d); put(d, C('}')); top = OBJ; cnt = 2;
#endif
    vf_assert(d.n <= MAXD, 90);
    SS stream;
#if MODE == 0
    ws(d);   // optional trailing whitespace is legal
    V v = PR::Parse(stream, d.b, SizeT(d.n));
    vf_assert(unsigned(v.type_) == top, 1);
    vf_assert(v.count() == cnt, 2);
    const ShapeChild *c = (top == OBJ) ? v.obj_.c : v.arr_.c;
#if SKEL == 2
    vf_assert(chk(c[0], e0), 3);
#elif SKEL == 3
    vf_assert(chk(c[0], e0) && c[0].keylen == 1 && c[0].key[0] == unsigned(k0), 3);
#elif SKEL == 4
    vf_assert(chk(c[0], e0) && chk(c[1], e1), 3);
#elif SKEL == 5
    vf_assert(chk(c[0], e0) && chk(c[1], e1) && c[0].key[0] == unsigned(k0) && c[1].key[0] == unsigned(k1) && c[0].keylen == 1 && c[1].keylen == 1, 3);
#elif SKEL == 6
    vf_assert(c[0].type == ARR && c[0].n == 1, 3);
#elif SKEL == 7
    vf_assert(c[0].type == OBJ && c[0].n == 1, 3);
#elif SKEL == 8
    vf_assert(c[0].type == ARR && c[0].n == 1 && c[0].key[0] == unsigned(k0), 3);
#elif SKEL == 9
    vf_assert(c[0].type == OBJ && c[0].n == 1 && c[0].key[0] == unsigned(k0), 3);
#elif SKEL == 10
    vf_assert(c[0].type == ARR && c[0].n == 0 && c[1].type == OBJ && c[1].n == 0, 3);
#elif SKEL == 11
    vf_assert(chk(c[0], e0) && c[1].type == ARR && c[1].n == 1, 3);
#elif SKEL == 12
    vf_assert(chk(c[0], e0) && chk(c[1], e1) && c[0].key[0] == unsigned(k0) && c[1].key[0] == unsigned(k0), 3);
#endif
    vf_assert(!stream.overflow, 4);
#elif MODE == 1   /* every proper prefix is rejected */
    unsigned k = vf_u32(); vf_assume(k < d.n);
    V v = PR::Parse(stream, d.b, SizeT(k));
    vf_assert(v.IsUndefined(), 10);
#elif MODE == 2   /* a trailing non-whitespace unit is rejected */
    C t = vf_any<C>(); vf_assume(t != C(' ') && t != C('\n') && t != C('\t') && t != C('\r'));
    ws(d); put(d, t);
    V v = PR::Parse(stream, d.b, SizeT(d.n));
    vf_assert(v.IsUndefined(), 11);
#elif MODE == 3   /* one closing bracket replaced by the other kind */
    unsigned p = vf_u32(); vf_assume(p < d.n); vf_assume(d.b[p] == C(']') || d.b[p] == C('}'));
    d.b[p] = (d.b[p] == C(']')) ? C('}') : C(']');
    V v = PR::Parse(stream, d.b, SizeT(d.n));
    vf_assert(v.IsUndefined(), 12);
#else             /* one closing bracket removed */
    unsigned p = vf_u32(); vf_assume(p < d.n); vf_assume(d.b[p] == C(']') || d.b[p] == C('}'));
    unsigned i = p; while (i + 1 < d.n) { d.b[i] = d.b[i + 1]; ++i; }
    V v = PR::Parse(stream, d.b, SizeT(d.n - 1));
    vf_assert(v.IsUndefined(), 13);
#endif
    vf_witness();
}

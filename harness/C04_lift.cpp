// C04: native lifting of a frame-level counterexample of C04_prec.cpp:h_frame (stubbed, modular) to the real code.
// Reads the same tape (p, then value/operator per item), puts one item with operator p in front when p != NoOp (the caller that
// descends into the frame), and runs the REAL evaluate with the REAL kernels on a real Array<QExpression>.  The reference is
// shunting-yard precedence climbing (rank = QOperation code, equal ranks left associative) that applies the SAME real kernels,
// so any difference is a difference of grouping.  Operand values do not matter for the frame-level counterexample (tree mode),
// so all operand tuples over {1,2,3} are tried: the defect is confirmed when some tuple makes the two results differ.
#include "sym_value.hpp"
#include "fixed_stream.hpp"
#include "Template.hpp"
#include "vf.h"
using namespace Qentem;
typedef char C;
typedef TemplateCore<C, SymValue<C>, FixedStream<C, 8>> TC;
typedef QExpression QE; typedef QExpression::ExpressionType ET; typedef QExpression::QOperation OP;
typedef unsigned long long u64;
#ifndef K
#define K 5
#endif
#define N (K + 1)
static unsigned ops[N]; static u64 vals[N]; static unsigned n;
struct RV { ET type; u64 bits; bool ok; };
static RV ref_eval(TC &tc) {
    RV vs[N + 1]; unsigned os[N + 1]; unsigned nv = 0, no = 0; bool ok = true;
    for (unsigned t = 0; t < n; t++) {
        vs[nv].type = ET::NaturalNumber; vs[nv].bits = vals[t]; vs[nv].ok = true; ++nv;
        unsigned op = (t + 1 == n) ? 0u : ops[t];
        while (no > 0 && os[no - 1] >= op) {
            RV r = vs[nv - 1], l = vs[nv - 2]; nv -= 2; --no;
            QE a, b; a.Type = l.type; a.Value.Number.Natural = l.bits; b.Type = r.type; b.Value.Number.Natural = r.bits;
            bool k = tc.evaluateExpression(a, b, OP(os[no]));
            ok = ok && k && a.Type != ET::NotANumber;
            vs[nv].type = a.Type; vs[nv].bits = a.Value.Number.Natural; ++nv;
        }
        os[no] = op; ++no;
    }
    vs[0].ok = ok; return vs[0];
}
extern "C" void lift_prec() {
    unsigned p = vf_u8(); vf_assume(p <= 16);
    unsigned top_op[K]; u64 top_val[K];
    for (unsigned i = 0; i < K; i++) { top_val[i] = vf_u8() & 3; top_op[i] = 0; if (i + 1 < K) { top_op[i] = vf_u8(); vf_assume(top_op[i] >= 1 && top_op[i] <= 16); } }
    n = 0;
    if (p != 0) { ops[0] = p; n = 1; }
    for (unsigned i = 0; i < K; i++) { ops[n] = top_op[i]; ++n; }
    TC tc{nullptr, 0};
    bool differ = false;
    unsigned total = 1; for (unsigned i = 0; i < n; i++) total *= 3;
    for (unsigned code = 0; code < total && !differ; code++) {
        unsigned c = code; for (unsigned i = 0; i < n; i++) { vals[i] = 1 + (c % 3); c /= 3; }
        Array<QE> arr{SizeT(n)};
        for (unsigned i = 0; i < n; i++) { QE e; e.Type = ET::NaturalNumber; e.Value.Number.Natural = vals[i]; e.Operation = OP(i + 1 == n ? 0u : ops[i]); arr += Memory::Move(e); }
        const QE *expr = arr.First(); QE result;
        bool ok = tc.evaluate(result, expr, OP::NoOp);
        RV want = ref_eval(tc);
        if (ok != want.ok) differ = true;
        else if (ok && (result.Type != want.type || result.Value.Number.Natural != want.bits)) differ = true;
    }
    vf_assert(!differ, 1);          // the engine groups these operators like precedence climbing does, for every operand tuple
    vf_witness();
}

// C15 (b): the comparison operators of the real Value<char> over pairs and triples of values.
// Kinds (and string length / member count) are concrete per query, payloads symbolic (NaN excluded).
//   h_pair : exactly one of a<b, a==b, a>b; <= and >= are the unions; same-kind numbers compare by magnitude, strings
//            lexicographically, the literals are equal to themselves; a<b iff b>a, a==b iff b==a (converse)
//   h_trans: a<b & b<c => a<c, the same for >, <=, >=, and == is transitive
#include "Value.hpp"
#include "vf.h"
using namespace Qentem;
typedef Value<char> V; typedef Array<V> AT; typedef unsigned long long u64; typedef long long i64; typedef ValueType T;

// class of an operand X in {A,B,C}: X_K kind (numeric ValueType: 0 Undefined 1 ValuePtr 2 Object 3 Array 4 String 5 UIntLong 6 IntLong
// 7 Double 8 True 9 False 10 Null), X_LEN string length, X_N member count (arrays: unsigned members; objects: members under
// the keys "a", "b"; X_N = 12: two members of which the first was removed again), X_TK target kind of a pointer
#ifndef A_K
#define A_K 5
#endif
#ifndef A_LEN
#define A_LEN 1
#endif
#ifndef A_N
#define A_N 1
#endif
#ifndef A_TK
#define A_TK 5
#endif
#ifndef B_K
#define B_K 5
#endif
#ifndef B_LEN
#define B_LEN 1
#endif
#ifndef B_N
#define B_N 1
#endif
#ifndef B_TK
#define B_TK 5
#endif
#ifndef C_K
#define C_K 5
#endif
#ifndef C_LEN
#define C_LEN 1
#endif
#ifndef C_N
#define C_N 1
#endif
#ifndef C_TK
#define C_TK 5
#endif

static double b2d(u64 b) { double d; __builtin_memcpy(&d, &b, 8); return d; }
static bool is_nan_bits(u64 b) { return ((b >> 52) & 0x7FF) == 0x7FF && (b & 0xFFFFFFFFFFFFFULL) != 0; }

struct Slot { alignas(8) unsigned char raw[24]; };   // byte array: keeps CBMC field-sensitive for the object built inside
struct Val { V *v; V *t; u64 bits; unsigned len; char s[3]; unsigned n; };   // the value, its target (pointers), and what it denotes

template <int K, int LEN, int N> static V *mk_direct(Slot &slot, Val &o) {
    u64 x = vf_u64();
    char c[3];
    c[0] = char(vf_u8());
    c[1] = char(vf_u8());
    c[2] = 0;
    for (unsigned i = 0; i < 24; ++i) slot.raw[i] = 0;
    void *raw = &slot;
    o.bits = 0; o.len = 0; o.n = 0; o.s[0] = 0; o.s[1] = 0; o.s[2] = 0;
    if (K == 0) return new (raw) V();
    if (K == 10) return new (raw) V(nullptr);
    if (K == 8) return new (raw) V(true);
    if (K == 9) return new (raw) V(false);
    if (K == 5) { o.bits = x; return new (raw) V(x); }
    if (K == 6) { o.bits = x; return new (raw) V(i64(x)); }
    if (K == 7) { vf_assume(!is_nan_bits(x)); o.bits = x; return new (raw) V(b2d(x)); }
    if (K == 4) {
        o.len = LEN;
        if (LEN > 0) o.s[0] = c[0];
        if (LEN > 1) o.s[1] = c[1];
        return new (raw) V((const char *)&c[0], SizeT(LEN));
    }
    if (K == 2) {    // Object: the operators look at the slot count only (a removed member still counts until it is dropped)
        o.n = (N == 12) ? 2 : N;
        V *v = new (raw) V(T::Object);
        if (N > 0) (*v)["a"] = x;
        if (N > 1) (*v)["b"] = u64(c[0]);
        if (N == 12) v->Remove("a");
        return v;
    }
    // Array of N unsigned members (the operators look at the size only)
    o.n = N;
    V *v = new (raw) V(T::Array);
    if (N > 0) *v += x;
    if (N > 1) *v += u64(c[0]);
    return v;
}
template <int K, int LEN, int N, int TK> static void mk(Slot &sv, Slot &st, Val &o) {
    o.t = nullptr;
    if (K != 1) { o.v = mk_direct<K, LEN, N>(sv, o); return; }
    o.t = mk_direct<(TK == 1 ? 0 : TK), LEN, N>(st, o);
    for (unsigned i = 0; i < 24; ++i) sv.raw[i] = 0;
    void *raw = &sv;
    o.v = new (raw) V();
    o.v->SetPointerToValue(o.t);
}
static void unmk(Val &o) { o.v->~V(); if (o.t != nullptr) o.t->~V(); }

// reference: lexicographic by char's own '<'; a proper prefix sorts first.  -1 / 0 / 1
static int ref_str(const Val &a, const Val &b) {
    unsigned i = 0;
    while (i < a.len && i < b.len) {
        if (a.s[i] < b.s[i]) return -1;
        if (b.s[i] < a.s[i]) return 1;
        ++i;
    }
    return (a.len < b.len) ? -1 : ((b.len < a.len) ? 1 : 0);
}
// same-kind reference order (k: the common kind).  -1 / 0 / 1
static int ref_same(int k, const Val &a, const Val &b) {
    switch (k) {
        case 5: return (a.bits < b.bits) ? -1 : ((a.bits > b.bits) ? 1 : 0);
        case 6: return (i64(a.bits) < i64(b.bits)) ? -1 : ((i64(a.bits) > i64(b.bits)) ? 1 : 0);
        case 7: return (b2d(a.bits) < b2d(b.bits)) ? -1 : ((b2d(a.bits) > b2d(b.bits)) ? 1 : 0);
        case 4: return ref_str(a, b);
        case 2:
        case 3: return (a.n < b.n) ? -1 : ((a.n > b.n) ? 1 : 0);       // containers are ordered by their size only (as implemented)
        default: return 0;                                               // Undefined, True, False, Null: equal to themselves
    }
}

// the kinds the operators actually compare: a left pointer is followed; a right pointer only when the left one is a pointer too
#define L_KIND(XK, XTK, YK) ((XK) == 1 ? (XTK) : (XK))
#define R_KIND(XK, YK, YTK) (((XK) == 1 && (YK) == 1) ? (YTK) : (YK))

extern "C" void h_pair() {
    Slot sa, ta, sb, tb; Val a, b;
    mk<A_K, A_LEN, A_N, A_TK>(sa, ta, a);
    mk<B_K, B_LEN, B_N, B_TK>(sb, tb, b);
    const bool lt = (*a.v < *b.v), gt = (*a.v > *b.v), le = (*a.v <= *b.v), ge = (*a.v >= *b.v);
    bool eq = (*a.v == *b.v);
    const int ka = L_KIND(A_K, A_TK, B_K), kb = R_KIND(A_K, B_K, B_TK);
    const bool cross_hi = (ka > kb);     // finding C15-eq-cross-kind: '==' answers true when the left kind ranks higher
#ifdef KF_EXCL_C15_eq_cross_kind
    if (cross_hi) eq = false;            // the other four operators are still checked on these pairs
#endif
#ifdef KF_ONLY_C15_eq_cross_kind
    vf_assume(cross_hi);
#endif
    vf_assert((lt ? 1 : 0) + (gt ? 1 : 0) + (eq ? 1 : 0) == 1, 1);      // exactly one
    vf_assert(le == (lt || eq), 2);
    vf_assert(ge == (gt || eq), 3);
    if (ka == kb) {                                                       // one kind: magnitude / lexicographic / size
        const int r = ref_same(ka, a, b);
        vf_assert(lt == (r < 0), 4);
        vf_assert(gt == (r > 0), 5);
        vf_assert(eq == (r == 0), 6);
    }
    // finding C15-ptr-right-operand: a pointer on the right of a non-pointer is not followed, so (a ? b) and (b ? a) are
    // answered by different rules (rank of the pointer kind vs. the target's content)
    const bool mixed = ((A_K == 1) != (B_K == 1));
#ifdef KF_ONLY_C15_ptr_right_operand
    vf_assume(mixed);
#endif
#ifdef KF_EXCL_C15_ptr_right_operand
    if (!mixed)
#endif
    {
        const bool rlt = (*b.v < *a.v), rgt = (*b.v > *a.v);
        bool req = (*b.v == *a.v);
#ifdef KF_EXCL_C15_eq_cross_kind
        if (L_KIND(B_K, B_TK, A_K) > R_KIND(B_K, A_K, A_TK)) req = false;
#endif
        vf_assert(lt == rgt, 7);
        vf_assert(gt == rlt, 8);
        vf_assert(eq == req, 9);
    }
    unmk(a);
    unmk(b);
    vf_witness();
}

extern "C" void h_trans() {
    Slot sa, ta, sb, tb, sc, tc; Val a, b, c;
    mk<A_K, A_LEN, A_N, A_TK>(sa, ta, a);
    mk<B_K, B_LEN, B_N, B_TK>(sb, tb, b);
    mk<C_K, C_LEN, C_N, C_TK>(sc, tc, c);
    // finding C15-ptr-right-operand: triples that mix pointers and non-pointers are not transitive today (a > p, p > a)
    const bool mixed3 = ((A_K == 1) != (B_K == 1)) || ((B_K == 1) != (C_K == 1));
#ifdef KF_ONLY_C15_ptr_right_operand
    vf_assume(mixed3);
#endif
#ifdef KF_EXCL_C15_ptr_right_operand
    if (!mixed3)
#endif
    {
    if ((*a.v < *b.v) && (*b.v < *c.v)) vf_assert(*a.v < *c.v, 1);
    if ((*a.v > *b.v) && (*b.v > *c.v)) vf_assert(*a.v > *c.v, 2);
    if ((*a.v <= *b.v) && (*b.v <= *c.v)) vf_assert(*a.v <= *c.v, 3);
    if ((*a.v >= *b.v) && (*b.v >= *c.v)) vf_assert(*a.v >= *c.v, 4);
    {
        bool ab = (*a.v == *b.v), bc = (*b.v == *c.v), ac = (*a.v == *c.v);
#ifdef KF_EXCL_C15_eq_cross_kind
        if (L_KIND(A_K, A_TK, B_K) > R_KIND(A_K, B_K, B_TK)) ab = false;
        if (L_KIND(B_K, B_TK, C_K) > R_KIND(B_K, C_K, C_TK)) bc = false;
        if (L_KIND(A_K, A_TK, C_K) > R_KIND(A_K, C_K, C_TK)) ac = false;
#endif
        if (ab && bc) vf_assert(ac, 5);
    }
    }
    unmk(a);
    unmk(b);
    unmk(c);
    vf_witness();
}

// C09 (b): the power-of-ten kernel behind a Real result, alone:  Digit::powerOfNegativeTen(number, KE)  must return the bits of a
// double within ONE unit in the last place of  number / 10^KE  for every mantissa `number` of a 2^16-wide window (the solver decides over it);
// the decimal exponent KE and the window (see KJ) are concrete per query (1 <= KE <= 19: one big-integer multiply by the 128-bit reciprocal of 5^KE, the shift, the
// final round-to-53-bits and the carry into the exponent).  Oracle: exact integer arithmetic in 128 bits, no floating point.
#include "Digit.hpp"
#include "vf.h"
using namespace Qentem;
typedef unsigned long long u64;
typedef unsigned __int128 u128;
#ifndef KE
#define KE 16
#endif
#ifndef KJ
#define KJ 1          /* window: mantissas within 2^15 of 2^KJ * 10^KE, i.e. quotients around the power of two 2^KJ (where rounding to 53 bits carries into the exponent) */
#endif
static constexpr u128 pow10_(unsigned e) { u128 r = 1; for (unsigned i = 0; i < e; i++) r *= 10u; return r; }
static unsigned bitlen(u64 x) { unsigned n = 0; while (x != 0) { ++n; x >>= 1; } return n; }

extern "C" void h_p10neg() {
    constexpr u128 P = pow10_(KE);
    constexpr u128 BASE128 = P << KJ;
    static_assert(BASE128 < (u128(1) << 64) - 65536u, "window must fit 64 bits");
    constexpr u64 BASE = u64(BASE128);
    const u64 off = vf_u16();
    const u64 n = BASE - 32768u + off;
    u64 bits = n;
    Digit::powerOfNegativeTen(bits, SizeT32{KE});
    const unsigned be = unsigned(bits >> 52);                 // biased exponent (the kernel never sets a sign)
    const u64 M = (bits & 0xFFFFFFFFFFFFFULL) | (1ULL << 52); // 53-bit significand
    vf_assert(be >= 1 && be <= 2046, 1);                      // n / 10^KE with n < 2^64, KE <= 19 is a normal double
    const int s = int(be) - 1075;                             // value = M * 2^s
    // |n - M * 2^s * 10^KE| <= 2^s * 10^KE     (one unit in the last place = 2^s)
    if (s >= 0) {
        vf_assert(s <= 11, 2);                                // n < 2^64
        const u128 rhs = (u128(M) * P) << unsigned(s);        // < 2^53 * 2^64 * 2^11
        const u128 tol = P << unsigned(s);
        const u128 d = (u128(n) > rhs) ? (u128(n) - rhs) : (rhs - u128(n));
        vf_assert(d <= tol, 3);
    } else {
        const unsigned k = unsigned(-s);
        vf_assert(bitlen(n) + k <= 120, 4);                   // M * 10^KE < 2^53 * 2^63.2: a result further off than that is wrong by orders of magnitude
        const u128 lhs = u128(n) << k;
        const u128 rhs = u128(M) * P;
        const u128 d = (lhs > rhs) ? (lhs - rhs) : (rhs - lhs);
        vf_assert(d <= P, 5);
    }
    vf_witness();
}

// C08 (b), reduced scope: Value::Stringify(stream, 17) on the REAL Value<char> for array roots of 0..2 members.
// Member kinds are concrete per query (E1, E2), payloads symbolic:
//   0 Undefined (never written: auto-vivified slot)   20 removed (a number, then RemoveIndex)
//   10 null  8 true  9 false  5 unsigned < 100  6 signed in (-100, 100)  4 string of LEN symbolic units
//   3 nested empty array  31 nested [unsigned]  2 nested empty object  21 nested {"a":unsigned}
//   1 pointer to an unsigned  14 pointer to a string of LEN units
// h_object: the same for object roots; members under the keys K1, K2 (ids: 0 "", 1 "a", 2 "b", 3 "ab", 4 a lone quote, which must be escaped);
//   0 = member created by obj[key] and never written, 20 = member written and removed by key
// The text must be exactly what the model writer predicts behind an arbitrary one-unit prefix: members in order,
// Undefined / removed members omitted, strings as JSONUtils::Escape writes them, no comma before the closing bracket.
// ROOT: 0 the array itself, 1 a pointer to it.   h_scalar_root: a scalar / string root writes nothing (ValueTest.hpp:75).
#include "fixed_stream.hpp"
#include "JSON.hpp"
#include "vf.h"
using namespace Qentem;
typedef Value<char> V; typedef Array<V> AT; typedef unsigned long long u64; typedef long long i64; typedef ValueType T;
typedef FixedStream<char, 40> FS;
#ifndef N
#define N 1
#endif
#ifndef E1
#define E1 5
#endif
#ifndef E2
#define E2 5
#endif
#ifndef LEN
#define LEN 1
#endif
#ifndef ROOT
#define ROOT 0
#endif
#ifndef K
#define K 5
#endif

static void exp_uint(FS &e, u64 x) {     // x < 100
    if (x >= 10) e += char('0' + char(x / 10));
    e += char('0' + char(x % 10));
}

static constexpr bool present(int e) { return e != 0 && e != 20; }

// appends member number `idx` of kind E to the array and its text to the model; returns false when the member is omitted
template <int E> static bool add_member(V &arr, unsigned idx, FS &e, V &tgt) {
    u64 x = vf_u64();
    char c[3];
    c[0] = char(vf_u8());
    c[1] = char(vf_u8());
    c[2] = 0;
    vf_assume(x < 100);
    if (E == 0) { V &r = arr[SizeT(idx)]; (void)r; return false; }
    if (E == 20) { arr += x; arr.RemoveIndex(SizeT(idx)); return false; }
    if (E == 10) { arr += nullptr; e += 'n'; e += 'u'; e += 'l'; e += 'l'; return true; }
    if (E == 8) { arr += true; e += 't'; e += 'r'; e += 'u'; e += 'e'; return true; }
    if (E == 9) { arr += false; e += 'f'; e += 'a'; e += 'l'; e += 's'; e += 'e'; return true; }
    if (E == 5) { arr += x; exp_uint(e, x); return true; }
    if (E == 6) {
        const bool neg = (c[0] & 1) != 0 && x != 0;
        arr += (neg ? -i64(x) : i64(x));
        if (neg) e += '-';
        exp_uint(e, x);
        return true;
    }
    if (E == 4) {
        arr += V((const char *)&c[0], SizeT(LEN));
        e += '"';
        JSONUtils::Escape((const char *)&c[0], SizeT(LEN), e);
        e += '"';
        return true;
    }
    if (E == 3) { arr += V(T::Array); e += '['; e += ']'; return true; }
    if (E == 31) { V in(T::Array); in += x; arr += Memory::Move(in); e += '['; exp_uint(e, x); e += ']'; return true; }
    if (E == 2) { arr += V(T::Object); e += '{'; e += '}'; return true; }
    if (E == 21) { V in; in["a"] = x; arr += Memory::Move(in); e += '{'; e += '"'; e += 'a'; e += '"'; e += ':'; exp_uint(e, x); e += '}'; return true; }
    if (E == 1) { tgt = x; arr.AddPointerToValue(&tgt); exp_uint(e, x); return true; }
    // 14: pointer to a string
    tgt = V((const char *)&c[0], SizeT(LEN));
    arr.AddPointerToValue(&tgt);
    e += '"';
    JSONUtils::Escape((const char *)&c[0], SizeT(LEN), e);
    e += '"';
    return true;
}

extern "C" void h_array() {
    FS e;                                  // the model text
    {
        V t1, t2;                          // pointer targets outlive the array
        V arr(T::Array);
        V root;
        char pre = char(vf_u8());
        FS s;
        s += pre;                          // the stream is appended to, never rewritten
        e += '[';
        const bool p1 = (N > 0) && present(E1), p2 = (N > 1) && present(E2);
        if (N > 0) add_member<E1>(arr, 0, e, t1);
        if (p1 && p2) e += ',';
        if (N > 1) add_member<E2>(arr, 1, e, t2);
        e += ']';
        vf_assert(arr.Size() == N, 1);
#if ROOT == 1
        root.SetPointerToValue(&arr);
        root.Stringify(s, 17);
#else
        arr.Stringify(s, 17);
#endif
        vf_assert(!s.overflow && !e.overflow, 2);
        vf_assert(s.Length() == 1 + e.Length(), 3);
        vf_assert(s.buf[0] == pre, 4);
        unsigned i = vf_u32();
        vf_assume(i < e.Length());
        vf_assert(s.buf[1 + i] == e.buf[i], 5);                      // the text, unit by unit
        // stated directly as well (they follow from 3 and 5, but they are the property's own words)
        const unsigned n = s.Length();
        vf_assert(n >= 3 && s.buf[1] == '[' && s.buf[n - 1] == ']', 6);
        vf_assert(s.buf[n - 2] != ',', 7);                           // no comma before the closing bracket
    }
    vf_witness();
}

#ifndef K1
#define K1 1
#endif
#ifndef K2
#define K2 2
#endif
static const char *okey(int id) { return id == 0 ? "" : (id == 1 ? "a" : (id == 2 ? "b" : (id == 3 ? "ab" : "\""))); }
static unsigned oklen(int id) { return id == 0 ? 0u : (id == 3 ? 2u : 1u); }

// adds the member KEY of kind E to the object and its text to the model
template <int E, int KEY> static void add_omember(V &obj, FS &e, V &tgt) {
    u64 x = vf_u64();
    char c[3];
    c[0] = char(vf_u8());
    c[1] = char(vf_u8());
    c[2] = 0;
    vf_assume(x < 100);
    const char *ks = okey(KEY);
    if (E == 0) { V &r = obj[ks]; (void)r; return; }
    if (E == 20) { obj[ks] = x; obj.Remove(ks); return; }
    e += '"';
    JSONUtils::Escape(ks, SizeT(oklen(KEY)), e);
    e += '"';
    e += ':';
    if (E == 10) { obj[ks] = nullptr; e += 'n'; e += 'u'; e += 'l'; e += 'l'; return; }
    if (E == 8) { obj[ks] = true; e += 't'; e += 'r'; e += 'u'; e += 'e'; return; }
    if (E == 9) { obj[ks] = false; e += 'f'; e += 'a'; e += 'l'; e += 's'; e += 'e'; return; }
    if (E == 5) { obj[ks] = x; exp_uint(e, x); return; }
    if (E == 6) {
        const bool neg = (c[0] & 1) != 0 && x != 0;
        obj[ks] = (neg ? -i64(x) : i64(x));
        if (neg) e += '-';
        exp_uint(e, x);
        return;
    }
    if (E == 4) {
        obj[ks] = V((const char *)&c[0], SizeT(LEN));
        e += '"';
        JSONUtils::Escape((const char *)&c[0], SizeT(LEN), e);
        e += '"';
        return;
    }
    if (E == 3) { obj[ks] = V(T::Array); e += '['; e += ']'; return; }
    if (E == 31) { V in(T::Array); in += x; obj[ks] = Memory::Move(in); e += '['; exp_uint(e, x); e += ']'; return; }
    if (E == 2) { obj[ks] = V(T::Object); e += '{'; e += '}'; return; }
    if (E == 21) { V in; in["a"] = x; obj[ks] = Memory::Move(in); e += '{'; e += '"'; e += 'a'; e += '"'; e += ':'; exp_uint(e, x); e += '}'; return; }
    // 1: pointer to an unsigned
    tgt = x;
    obj[ks].SetPointerToValue(&tgt);
    exp_uint(e, x);
}

extern "C" void h_object() {
    FS e;
    {
        V t1, t2;
        V obj(T::Object);
        V root;
        char pre = char(vf_u8());
        FS s;
        s += pre;
        e += '{';
        const bool p1 = (N > 0) && present(E1), p2 = (N > 1) && present(E2);
        if (N > 0) add_omember<E1, K1>(obj, e, t1);
        if (p1 && p2) e += ',';
        if (N > 1) add_omember<E2, K2>(obj, e, t2);
        e += '}';
#if ROOT == 1
        root.SetPointerToValue(&obj);
        root.Stringify(s, 17);
#else
        obj.Stringify(s, 17);
#endif
        vf_assert(!s.overflow && !e.overflow, 2);
        vf_assert(s.Length() == 1 + e.Length(), 3);
        vf_assert(s.buf[0] == pre, 4);
        unsigned i = vf_u32();
        vf_assume(i < e.Length());
        vf_assert(s.buf[1 + i] == e.buf[i], 5);
        const unsigned n = s.Length();
        vf_assert(n >= 3 && s.buf[1] == '{' && s.buf[n - 1] == '}', 6);
        vf_assert(s.buf[n - 2] != ',', 7);                           // no comma before the closing bracket
    }
    vf_witness();
}

extern "C" void h_scalar_root() {          // a root that is not a container (or a pointer to one) writes nothing
    {
        u64 x = vf_u64();
        char c[3];
        c[0] = char(vf_u8());
        c[1] = char(vf_u8());
        c[2] = 0;
        V v;
        if (K == 10) v = nullptr;
        if (K == 8) v = true;
        if (K == 9) v = false;
        if (K == 5) v = x;
        if (K == 6) v = i64(x);
        if (K == 7) v = double(unsigned(x));
        if (K == 4) v = V((const char *)&c[0], SizeT(LEN));
        char pre = char(vf_u8());
        FS s;
        s += pre;
        v.Stringify(s, 17);
        vf_assert(!s.overflow && s.Length() == 1 && s.buf[0] == pre, 1);
    }
    vf_witness();
}

extern "C" void h_real_stream() {          // the String-returning overload through the real StringStream: [] [null] [true,<n>]
    {
        u64 x = vf_u64();
        vf_assume(x < 10);
        V arr(T::Array);
        if (N > 0) arr += nullptr;
        if (N > 1) arr += x;
        const String<char> txt = arr.Stringify(17);
        const char *p = txt.First();
        if (N == 0) vf_assert(txt.Length() == 2 && p[0] == '[' && p[1] == ']', 1);
        if (N == 1) vf_assert(txt.Length() == 6 && p[0] == '[' && p[1] == 'n' && p[2] == 'u' && p[3] == 'l' && p[4] == 'l' && p[5] == ']', 2);
        if (N == 2) vf_assert(txt.Length() == 8 && p[5] == ',' && p[6] == char('0' + char(x)) && p[7] == ']', 3);
        vf_assert(p[txt.Length()] == 0, 4);
    }
    vf_witness();
}

// Stringify then Parse gives an equal tree, and stringify-parse-stringify is a fixed point (array or object root, RT_OBJ).
static bool same_leaf(const V &a, const V &b) {            // kind, payload, text; containers: kind and member count
    if (a.Type() != b.Type()) return false;
    switch (a.Type()) {
        case T::UIntLong: return a.GetUInt64() == b.GetUInt64();
        case T::IntLong: return a.GetInt64() == b.GetInt64();
        case T::String: return a.Length() == b.Length() && StringUtils::IsEqual(a.StringStorage(), b.StringStorage(), a.Length());
        case T::Array:
        case T::Object: return a.Size() == b.Size();
        default: return true;
    }
}
#ifndef RT_OBJ
#define RT_OBJ 0
#endif
extern "C" void h_roundtrip() {
    {
        FS e;
        V t1, t2;
        V doc(RT_OBJ ? T::Object : T::Array);
        FS s;
#if RT_OBJ
        if (N > 0) add_omember<E1, K1>(doc, e, t1);
        if (N > 1) add_omember<E2, K2>(doc, e, t2);
#else
        if (N > 0) add_member<E1>(doc, 0, e, t1);
        if (N > 1) add_member<E2>(doc, 1, e, t2);
#endif
        doc.Stringify(s, 17);
        vf_assert(!s.overflow, 1);
        FS scratch;
        V back = JSON::Parse(scratch, (const char *)s.First(), s.Length());
        const bool p1 = (N > 0) && present(E1), p2 = (N > 1) && present(E2);
        const unsigned cnt = (p1 ? 1u : 0u) + (p2 ? 1u : 0u);
        vf_assert(back.Type() == doc.Type() && back.Size() == cnt, 2);       // Undefined members are gone, the rest is in order
#if RT_OBJ
        if (p1) { const V *o = doc.GetValue(okey(K1), SizeT(oklen(K1))); const V *b = back.GetValue(okey(K1), SizeT(oklen(K1)));
                  vf_assert(o != nullptr && b != nullptr && b == back.GetValue(SizeT(0)) && same_leaf(*o, *b), 3); }
        if (p2) { const V *o = doc.GetValue(okey(K2), SizeT(oklen(K2))); const V *b = back.GetValue(okey(K2), SizeT(oklen(K2)));
                  vf_assert(o != nullptr && b != nullptr && b == back.GetValue(SizeT(cnt - 1)) && same_leaf(*o, *b), 4); }
#else
        if (p1) { const V *o = doc.GetValue(SizeT(0)); const V *b = back.GetValue(SizeT(0)); vf_assert(o != nullptr && b != nullptr && same_leaf(*o, *b), 3); }
        if (p2) { const V *o = doc.GetValue(SizeT(1)); const V *b = back.GetValue(SizeT(cnt - 1)); vf_assert(o != nullptr && b != nullptr && same_leaf(*o, *b), 4); }
#endif
        FS s2;
        back.Stringify(s2, 17);                                            // fixed point
        vf_assert(!s2.overflow && s2.Length() == s.Length(), 5);
        unsigned i = vf_u32();
        vf_assume(i < s.Length());
        vf_assert(s2.buf[i] == s.buf[i], 6);
    }
    vf_witness();
}

// C10 (a): integer -> text.  Digit::IntToString (both directions) and Digit::NumberToString for integers.
// Oracle: the produced digit run Horner-parses (with overflow detection) back to the value, has no leading zero
// (=> it is the unique minimal decimal representation), a '-' precedes it exactly for negative values, and whatever the
// destination already held is untouched.
#include "fixed_stream.hpp"
#include "Digit.hpp"
#include "vf.h"
using namespace Qentem;
#ifndef NUM
#define NUM unsigned int
#endif
#ifndef CHAR
#define CHAR char
#endif
typedef NUM  T;
typedef CHAR C;
typedef unsigned long long u64;
enum : unsigned { BITS = sizeof(T) * 8U, MAXD = ((BITS * 30103U) / 100000U) + 1U };   // 3, 5, 10, 20 digits
static const bool T_SIGNED = (T(-1) < T(0));
typedef FixedStream<C, MAXD + 4> FS;

// Horner parse of the digit run d[0..n) (most significant first, or least significant first when `reversed`), with
// overflow detection.  The digits are consumed two at a time -- (acc*10+a)*10+b == acc*100 + (10a+b) -- which is the
// same value and keeps the multiplications in the shape of the code's own /100 steps (SAT decides that in seconds; the
// digit-at-a-time form of the same sum did not finish in 200 s even for 32 bits).
static bool is_digit(C c) { return c >= C('0') && c <= C('9'); }
static bool ref_parse(const C *d, unsigned n, bool reversed, u64 &out) {
    u64 acc = 0;
    unsigned i = 0;
    if ((n & 1U) != 0U) {
        const C c = reversed ? d[n - 1U] : d[0];
        if (!is_digit(c)) return false;
        acc = u64(c - C('0'));
        i = 1;
    }
    while (i < n) {
        const C a = reversed ? d[n - 1U - i] : d[i];
        const C b = reversed ? d[n - 2U - i] : d[i + 1U];
        if (!is_digit(a) || !is_digit(b)) return false;
        const unsigned pair = unsigned(a - C('0')) * 10U + unsigned(b - C('0'));
        if (acc > 184467440737095516ULL || (acc == 184467440737095516ULL && pair > 15U)) return false;   // would pass 2^64-1
        acc = acc * 100U + pair;
        i += 2U;
    }
    out = acc;
    return true;
}
static u64 magnitude(T v, bool &neg) {
    neg = T_SIGNED && (v < T(0));
    const u64 wide = u64((long long)v);                     // sign-extended
    const u64 mask = (BITS == 64U) ? ~0ULL : ((1ULL << (BITS & 63U)) - 1ULL);
    return (neg ? (0ULL - wide) : wide) & mask;             // |minimum| = 2^(BITS-1) fits the unsigned type
}

extern "C" void h_i2s() {        // IntToString<false>: writes backwards from the end of the caller's buffer
    T v = vf_any<T>();
    C st[MAXD];
    const SizeT n = Digit::IntToString(&st[MAXD], v);
    vf_assert(n >= 1U && n <= MAXD, 1);
    u64 got = 0;
    vf_assert(ref_parse(&st[MAXD - n], n, false, got), 2);
    vf_assert(got == u64(v), 3);
    vf_assert(n == 1U || st[MAXD - n] != C('0'), 4);
    vf_witness();
}

extern "C" void h_i2s_rev() {    // IntToString<true>: least significant digit first, forwards
    T v = vf_any<T>();
    C st[MAXD];
    const SizeT n = Digit::IntToString<true>(&st[0], v);
    vf_assert(n >= 1U && n <= MAXD, 1);
    u64 got = 0;
    vf_assert(ref_parse(&st[0], n, true, got), 2);
    vf_assert(got == u64(v), 3);
    vf_assert(n == 1U || st[n - 1U] != C('0'), 4);
    vf_witness();
}

template <bool REV> static void n2s() {
    T v = vf_any<T>();
    unsigned pl = vf_u8();
    vf_assume(pl <= 2U);
    C p0 = vf_any<C>();
    C p1 = vf_any<C>();
    FS s;
    if (pl >= 1U) s += p0;
    if (pl >= 2U) s += p1;
    Digit::NumberToString<REV>(s, v);
    bool neg = false;
    const u64 mag = magnitude(v, neg);
    vf_assert(!s.overflow, 1);
    const unsigned len = s.Length();
    vf_assert(len >= pl + 1U + (neg ? 1U : 0U) && len <= pl + MAXD + (neg ? 1U : 0U), 2);
    if (pl >= 1U) vf_assert(s.First()[0] == p0, 3);
    if (pl >= 2U) vf_assert(s.First()[1] == p1, 4);
    unsigned at = pl;
    if (neg) { vf_assert(s.First()[at] == C('-'), 5); ++at; }
    const unsigned n = len - at;
    u64 got = 0;
    vf_assert(ref_parse(s.First() + at, n, REV, got), 6);
    vf_assert(got == mag, 7);
    vf_assert(n == 1U || s.First()[REV ? (len - 1U) : at] != C('0'), 8);
    vf_witness();
}
extern "C" void h_n2s() { n2s<false>(); }
extern "C" void h_n2s_rev() { n2s<true>(); }

// C10 (a): integer -> text.  Digit::IntToString (both directions) and Digit::NumberToString for integers.
// Oracle: the produced digit run Horner-parses (with overflow detection) back to the value, has no leading zero
// (=> it is the unique minimal decimal representation), a '-' precedes it exactly for negative values, and whatever the
// destination already held is untouched.
#include "fixed_stream.hpp"
#include "Digit.hpp"
#include "vf.h"
using namespace Qentem;
#ifndef NUM
#define NUM unsigned int
#endif
#ifndef CHAR
#define CHAR char
#endif
typedef NUM  T;
typedef CHAR C;
typedef unsigned long long u64;
enum : unsigned { BITS = sizeof(T) * 8U, MAXD = ((BITS * 30103U) / 100000U) + 1U };   // 3, 5, 10, 20 digits
static const bool T_SIGNED = (T(-1) < T(0));
// FixedStream's generic operator+=(const S&) captures a plain `char` argument when Char_T is wider (the real StringStream
// has only operator+=(Char_T), so the char converts); hiding the base overload set restores that behaviour.
struct FS : FixedStream<C, MAXD + 4> {
    void operator+=(C c) { FixedStream<C, MAXD + 4>::operator+=(c); }
};

// Horner parse of the digit run d[0..n) (most significant first, or least significant first when `reversed`), with
// overflow detection.  The digits are consumed two at a time -- (acc*10+a)*10+b == acc*100 + (10a+b) -- which is the
// same value and keeps the multiplications in the shape of the code's own /100 steps.
static bool is_digit(C c) { return c >= C('0') && c <= C('9'); }
static bool ref_parse(const C *d, unsigned n, bool reversed, u64 &out) {
    u64 acc = 0;
    unsigned i = 0;
    if ((n & 1U) != 0U) {
        const C c = reversed ? d[n - 1U] : d[0];
        if (!is_digit(c)) return false;
        acc = u64(c - C('0'));
        i = 1;
    }
    while (i < n) {
        const C a = reversed ? d[n - 1U - i] : d[i];
        const C b = reversed ? d[n - 2U - i] : d[i + 1U];
        if (!is_digit(a) || !is_digit(b)) return false;
        const unsigned pair = unsigned(a - C('0')) * 10U + unsigned(b - C('0'));
        if (acc > 184467440737095516ULL || (acc == 184467440737095516ULL && pair > 15U)) return false;   // would pass 2^64-1
        acc = acc * 100U + pair;
        i += 2U;
    }
    out = acc;
    return true;
}

static u64 magnitude(T v, bool &neg) {
    neg = T_SIGNED && (v < T(0));
    const u64 wide = u64((long long)v);                     // sign-extended
    const u64 mask = (BITS == 64U) ? ~0ULL : ((1ULL << (BITS & 63U)) - 1ULL);
    return (neg ? (0ULL - wide) : wide) & mask;             // |minimum| = 2^(BITS-1) fits the unsigned type
}

// Wide types (32/64 bit): no back end decided the Horner oracle over the whole type (see specs/C10.py), so the value
// is drawn either from a window [0, MAXV] or from the edge set {10^k - 1, 10^k, type maxima, signed minimum (+1)}.
static const u64 UMAXV = (BITS == 64U) ? ~0ULL : ((1ULL << (BITS & 63U)) - 1ULL);
#if defined(EDGE)
static const u64 P10[20] = {1ULL, 10ULL, 100ULL, 1000ULL, 10000ULL, 100000ULL, 1000000ULL, 10000000ULL, 100000000ULL, 1000000000ULL,
    10000000000ULL, 100000000000ULL, 1000000000000ULL, 10000000000000ULL, 100000000000000ULL, 1000000000000000ULL,
    10000000000000000ULL, 100000000000000000ULL, 1000000000000000000ULL, 10000000000000000000ULL};
static T pick() {
    unsigned k = vf_u8();
    unsigned d = vf_u8();
    vf_assume(k < MAXD + 3U && d < 2U);
    u64 base = (UMAXV >> 1) + 2ULL;                 // k == MAXD+2: signed minimum + 1, signed minimum
    if (k < MAXD) base = P10[k];                    // 10^k, 10^k - 1
    else if (k == MAXD) base = UMAXV;               // all ones (-1), all ones - 1
    else if (k == MAXD + 1U) base = UMAXV >> 1;     // signed maximum, - 1
    return T(base - d);
}
#elif defined(MAXV)
static T pick() { T v = vf_any<T>(); bool neg = false; const u64 mag = magnitude(v, neg); vf_assume(mag <= u64(MAXV)); return v; }
#else
static T pick() { return vf_any<T>(); }
#endif

extern "C" void h_i2s() {        // IntToString<false>: writes backwards from the end of the caller's buffer
    T v = pick();
    C st[MAXD];
    const SizeT n = Digit::IntToString(&st[MAXD], v);
    vf_assert(n >= 1U && n <= MAXD, 1);
    u64 got = 0;
    vf_assert(ref_parse(&st[MAXD - n], n, false, got), 2);
    vf_assert(got == u64(v), 3);
    vf_assert(n == 1U || st[MAXD - n] != C('0'), 4);
    vf_witness();
}

extern "C" void h_i2s_rev() {    // IntToString<true>: least significant digit first, forwards
    T v = pick();
    C st[MAXD];
    const SizeT n = Digit::IntToString<true>(&st[0], v);
    vf_assert(n >= 1U && n <= MAXD, 1);
    u64 got = 0;
    vf_assert(ref_parse(&st[0], n, true, got), 2);
    vf_assert(got == u64(v), 3);
    vf_assert(n == 1U || st[n - 1U] != C('0'), 4);
    vf_witness();
}

template <bool REV> static void n2s() {
    T v = pick();
    unsigned pl = vf_u8();
    vf_assume(pl <= 2U);
    C p0 = vf_any<C>();
    C p1 = vf_any<C>();
    FS s;
    if (pl >= 1U) s += p0;
    if (pl >= 2U) s += p1;
    Digit::NumberToString<REV>(s, v);
    bool neg = false;
    const u64 mag = magnitude(v, neg);
    vf_assert(!s.overflow, 1);
    const unsigned len = s.Length();
    vf_assert(len >= pl + 1U + (neg ? 1U : 0U) && len <= pl + MAXD + (neg ? 1U : 0U), 2);
    if (pl >= 1U) vf_assert(s.First()[0] == p0, 3);
    if (pl >= 2U) vf_assert(s.First()[1] == p1, 4);
    unsigned at = pl;
    if (neg) { vf_assert(s.First()[at] == C('-'), 5); ++at; }
    const unsigned n = len - at;
    u64 got = 0;
    vf_assert(ref_parse(s.First() + at, n, REV, got), 6);
    vf_assert(got == mag, 7);
    vf_assert(n == 1U || s.First()[REV ? (len - 1U) : at] != C('0'), 8);
    vf_witness();
}
extern "C" void h_n2s() { n2s<false>(); }
extern "C" void h_n2s_rev() { n2s<true>(); }


extern "C" void h_base() {       // every v < 100, both directions, and the pair table against its closed form
    unsigned v = vf_u8();
    vf_assume(v < 100U);
    C a[MAXD];
    C b[MAXD];
    const SizeT na = Digit::IntToString(&a[MAXD], T(v));
    const SizeT nb = Digit::IntToString<true>(&b[0], T(v));
    const C d1 = C('0' + v / 10U), d0 = C('0' + v % 10U);
    vf_assert(na == ((v < 10U) ? 1U : 2U) && nb == na, 1);
    vf_assert(a[MAXD - 1U] == d0 && b[0] == d0, 2);
    if (v >= 10U) vf_assert(a[MAXD - 2U] == d1 && b[1] == d1, 3);
    vf_assert(DigitUtils::DigitTable1[2U * v] == char('0' + v / 10U) && DigitUtils::DigitTable1[2U * v + 1U] == char('0' + v % 10U), 4);
    vf_witness();
}

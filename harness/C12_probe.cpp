#define KF_EXCL_C12_number_ctor_uninit 1
#include "C12_value.cpp"
extern "C" void h_p1() {   // Value from empty Array&&, destroy
    { V t{AT()};
    vf_assert(t.Size() == 0, 1); }
    vf_witness();
}
extern "C" void h_p2() {   // move that into an Array<V>
    { AT arr;
      V t{AT()};
      arr += Memory::Move(t);
    vf_assert(arr.Size() == 1, 1); }
    vf_witness();
}
extern "C" void h_p3() {   // Value array += Value{AT()}
    { V v(T::Array);
      v += V{AT()};
    vf_assert(v.Size() == 1, 1); }
    vf_witness();
}

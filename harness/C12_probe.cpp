#define PRE_K 3
#define PRE_N 2
#define PRE_E1 0
#define PRE_E2 6
#include "C12_value.cpp"
extern "C" void h_p1() {   // build + copy + destroy
    M m; M tm; Slot sv, st; V *v = nullptr; V *t = nullptr;
    mk<PreC>(sv, st, m, tm, v, t);
    { V c(*v); vf_assert(c.Size() == 2, 1); }
    v->~V();
    vf_witness();
}
extern "C" void h_p2() {   // build + copy + obs(c) + destroy
    M m; M tm; Slot sv, st; V *v = nullptr; V *t = nullptr;
    mk<PreC>(sv, st, m, tm, v, t);
    { V c(*v); obs_doc(c, m); }
    v->~V();
    vf_witness();
}
extern "C" void h_p3() {   // build + copy + mutate + destroy
    M m; M tm; Slot sv, st; V *v = nullptr; V *t = nullptr;
    mk<PreC>(sv, st, m, tm, v, t);
    { V c(*v); mutate(c); }
    v->~V();
    vf_witness();
}

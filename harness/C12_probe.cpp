#define KF_EXCL_C12_number_ctor_uninit 1
#include "C12_value.cpp"
extern "C" void h_p1() {
    u64 x = vf_u64();
    { V v;
    v["a"] = x;
    v["b"] = nullptr;
    vf_assert(v.Size() == 2, 1);
    V *p = v.GetValue("a", 1);
    vf_assert(p != nullptr && p->GetUInt64() == x, 2);
    const ST k("b", 1);
    v.Remove(k);
    vf_assert(v.GetValue("b", 1) == nullptr, 3); }
    vf_witness();
}
extern "C" void h_p2() {
    u64 x = vf_u64();
    { V v;
    v["a"] = x;
    v["b"] = nullptr;
    V c(v);
    v["ab"] = true;
    vf_assert(c.Size() == 2 && v.Size() == 3, 1);
    }
    vf_witness();
}

#define KF_EXCL_C12_ctor_payload_uninit 1
#define PRE_K 2
#define PRE_N 2
#define PRE_E1 5
#define PRE_E2 4
#define SRC_K 3
#define SRC_N 1
#ifndef VAR
#define VAR 0
#endif
#include "C12_value.cpp"
extern "C" void h_p1() {   // build both, move-assign, destroy; no observers
    M m; M tm; M sm; M stm; Slot sv, st, ss, sst;
    V *v = nullptr; V *t = nullptr; V *src = nullptr; V *srct = nullptr;
    mk<PreC>(sv, st, m, tm, v, t);
    mk<SrcC>(ss, sst, sm, stm, src, srct);
    *v = Memory::Move(*src);
    vf_assert(v->Size() == 1, 1);
    src->~V(); v->~V();
    vf_witness();
}
extern "C" void h_p2() {   // + final obs
    M m; M tm; M sm; M stm; Slot sv, st, ss, sst;
    V *v = nullptr; V *t = nullptr; V *src = nullptr; V *srct = nullptr;
    mk<PreC>(sv, st, m, tm, v, t);
    mk<SrcC>(ss, sst, sm, stm, src, srct);
    *v = Memory::Move(*src);
    m = sm;
#if VAR == 0
    obs_node(*v, m.n);
#elif VAR == 1
    vf_assert(v->Type() == T::Array, 5); vf_assert(v->GetValue(0) != nullptr, 6);
#elif VAR == 2
    { V *p = v->GetValue(0); obs_node(*p, m.e[0]); }
#endif
    src->~V(); v->~V();
    vf_witness();
}
extern "C" void h_p3() {   // + pre obs only
    M m; M tm; M sm; M stm; Slot sv, st, ss, sst;
    V *v = nullptr; V *t = nullptr; V *src = nullptr; V *srct = nullptr;
    mk<PreC>(sv, st, m, tm, v, t);
    obs_doc(*v, m);
    mk<SrcC>(ss, sst, sm, stm, src, srct);
    *v = Memory::Move(*src);
    vf_assert(v->Size() == 1, 1);
    src->~V(); v->~V();
    vf_witness();
}

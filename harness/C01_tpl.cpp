// C01 (driver family): TemplateCore::Parse + Render of one CONCRETE template text (a member of the generated skeleton
// family, truncated at a concrete cut point) against a SYMBOLIC value tree (SymValue: every answer arbitrary) into a
// FixedStream.  The solver decides over all value answers; the template text itself is concrete per query because a
// single symbolic template byte already puts the scanner driver out of reach (measured: no verdict in 300 s).
// CBMC checks every dereference against exact object bounds, division by zero, and the unwinding assertions.
#define private public
#include "fixed_stream.hpp"
#include "tpl_value.hpp"
#include "Template.hpp"
using namespace Qentem;
#ifndef CHAR
#define CHAR char
#endif
#ifndef TPL
#define TPL "{var:a}"
#endif
#ifndef CUT
#define CUT 9999
#endif
typedef CHAR C; typedef SymValue<C> V; typedef FixedStream<C, 96> SS; typedef TemplateCore<C, V, SS> TC;
extern "C" void h_render() {
    const char t[] = TPL;
    const unsigned full = sizeof(t) - 1;
    const unsigned n = (CUT < full) ? CUT : full;
    C *b = (C *)vf_alloc(n * sizeof(C));                  // exact-size heap copy, NOT NUL-terminated
    for (unsigned i = 0; i < n; i++) b[i] = C(t[i]);
    V nodes[4]; sym_tree(nodes);
    SS stream; C pre = vf_any<C>(); stream += pre;        // pre-existing stream content
    Array<Tags::TagBit> tags;
    TC::Parse(b, SizeT(n), tags);
    TC tc{b, SizeT(n)};
    tc.Render(tags, nodes[0], stream);
    vf_assert(stream.Length() >= 1 && stream.First()[0] == pre, 1);   // only appended
    vf_free(b);
    vf_witness();
}

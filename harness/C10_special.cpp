// C10 (b): Digit::NumberToString(double / float) on the values that bypass the digit pipeline: +-0, +-inf, nan.
// The whole realToString is in the encoding; the finite non-zero branch is unreachable under the assumption.
#include "fixed_stream.hpp"
#include "Digit.hpp"
#include "vf.h"
using namespace Qentem;
#ifndef CHAR
#define CHAR char
#endif
#ifndef FLT
#define FLT 0
#endif
typedef CHAR C;
typedef unsigned long long u64;
enum : unsigned { CAP = 16 };
struct FS : FixedStream<C, CAP> {
    void operator+=(C c) { FixedStream<C, CAP>::operator+=(c); }
};
extern "C" void h_special() {
    unsigned pl = vf_u8();
    C p0 = vf_any<C>();
    C p1 = vf_any<C>();
    unsigned p = vf_u8();
    unsigned ty = vf_u8();
    vf_assume(pl <= 2U && p <= 4U && ty <= 2U);
    FS s;
    if (pl >= 1U) s += p0;
    if (pl >= 2U) s += p1;
    const Digit::RealFormatInfo fmt{p, ty == 0U ? Digit::RealFormatType::Default : (ty == 1U ? Digit::RealFormatType::Fixed : Digit::RealFormatType::SemiFixed)};
    bool neg, is_zero, is_inf;
#if FLT
    unsigned bits = vf_u32();
    const unsigned em = 0x7F800000U, mm = 0x7FFFFFU;
    vf_assume((bits & em) == em || (bits & ~0x80000000U) == 0U);
    neg = (bits >> 31) != 0U; is_zero = (bits & em) == 0U; is_inf = !is_zero && (bits & mm) == 0U;
    QNumber32 q; q.Natural = bits;
    Digit::NumberToString(s, q.Real, fmt);
#else
    u64 bits = vf_u64();
    const u64 em = 0x7FF0000000000000ULL, mm = 0xFFFFFFFFFFFFFULL;
    vf_assume((bits & em) == em || (bits & ~0x8000000000000000ULL) == 0ULL);
    neg = (bits >> 63) != 0ULL; is_zero = (bits & em) == 0ULL; is_inf = !is_zero && (bits & mm) == 0ULL;
    QNumber64 q; q.Natural = bits;
    Digit::NumberToString(s, q.Real, fmt);
#endif
#ifdef KF_EXCL_C10_prec0_dot
    vf_assume(!(is_zero && ty == 1U && p == 0U));
#endif
    // expected text
    C w[10]; unsigned n = 0;
    if (is_zero) {
        if (neg) { w[n] = C('-'); ++n; }
        w[n] = C('0'); ++n;
        if (ty == 1U && p != 0U) { w[n] = C('.'); ++n; unsigned i = 0; while (i < p) { w[n] = C('0'); ++n; ++i; } }
    } else if (is_inf) {
        if (neg) { w[n] = C('-'); ++n; }
        w[n] = C('i'); w[n + 1] = C('n'); w[n + 2] = C('f'); n += 3;
    } else { w[0] = C('n'); w[1] = C('a'); w[2] = C('n'); n = 3; }
    vf_assert(!s.overflow && s.Length() == pl + n, 1);
    if (pl >= 1U) vf_assert(s.First()[0] == p0, 2);
    if (pl >= 2U) vf_assert(s.First()[1] == p1, 3);
    unsigned i = vf_u8();
    vf_assume(i < n);
    vf_assert(s.First()[pl + i] == w[i], 4);
    vf_witness();
}

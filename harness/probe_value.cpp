#include "JSON.hpp"
#include "vf.h"
using namespace Qentem;
extern "C" void h_parse_obj() {
    char *b = vf_buf<char>(7);
    char k = vf_any<char>(); char d = vf_any<char>();
    vf_assume(k >= 'a' && k <= 'z'); vf_assume(d >= '0' && d <= '9');
    b[0]='{'; b[1]='"'; b[2]=k; b[3]='"'; b[4]=':'; b[5]=d; b[6]='}';
    Value<char> v = JSON::Parse(b, SizeT(7));
    vf_assert(v.IsObject(), 1);
    vf_assert(v.Size() == 1, 2);
    const Value<char> *m = v.GetValue(0);
    vf_assert(m != nullptr && m->IsNumber(), 3);
    vf_witness();
}

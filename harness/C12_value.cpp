// C12: the real Value<char> against an abstract JSON document model -- one inductive step (DESIGN 4.1):
//   a pre-state whose SHAPE (kinds, string length, member count) is concrete per query and whose payloads are symbolic,
//   built through the public constructors inside storage with arbitrary previous contents; ONE public operation,
//   concrete per query (-DOP, -DSEL), with symbolic arguments; then every observer is compared with a small document
//   model kept in harness locals.  Kinds are concrete because a symbolic kind tag makes every destructor explore the
//   mutually recursive ~Value/~Array/~HArray group (no verdict); payloads, string units and overload choices stay symbolic.
#include "Value.hpp"
#include "vf.h"
using namespace Qentem;
typedef Value<char> V; typedef Array<V> AT; typedef String<char> ST; typedef StringView<char> SVw; typedef HArray<ST, V> OT;
typedef unsigned long long u64; typedef long long i64; typedef ValueType T;

// kinds are written with the numeric values of ValueType:
//   0 Undefined  1 ValuePtr  3 Array  4 String  5 UIntLong  6 IntLong  7 Double  8 True  9 False  10 Null
// A class of values (pre-state PRE_*, second operand SRC_*):  K kind; LEN string length; N member count with member kinds
// E1, E2 (scalar kinds or 4 = String of one unit); for K = 1 the target is the class (TK, LEN, N, E1, E2).
// K = 2 (Object): N members with kinds E1, E2 (additionally 20 = a member that was added and removed again, 0 = a member
// created by v[key] and never written) under the keys K1, K2 (key ids: 0 "", 1 "a", 2 "b", 3 "ab").
#ifndef PRE_K
#define PRE_K 0
#endif
#ifndef PRE_LEN
#define PRE_LEN 1
#endif
#ifndef PRE_N
#define PRE_N 0
#endif
#ifndef PRE_E1
#define PRE_E1 5
#endif
#ifndef PRE_E2
#define PRE_E2 5
#endif
#ifndef PRE_TK
#define PRE_TK 5
#endif
#ifndef PRE_K1
#define PRE_K1 1
#endif
#ifndef PRE_K2
#define PRE_K2 2
#endif
#ifndef SRC_K1
#define SRC_K1 1
#endif
#ifndef SRC_K2
#define SRC_K2 2
#endif
#ifndef SRC_K
#define SRC_K 5
#endif
#ifndef SRC_LEN
#define SRC_LEN 1
#endif
#ifndef SRC_N
#define SRC_N 0
#endif
#ifndef SRC_E1
#define SRC_E1 5
#endif
#ifndef SRC_E2
#define SRC_E2 5
#endif
#ifndef SRC_TK
#define SRC_TK 5
#endif
struct PreC { static const int K = PRE_K, LEN = PRE_LEN, N = PRE_N, E1 = PRE_E1, E2 = PRE_E2, TK = PRE_TK, K1 = PRE_K1, K2 = PRE_K2; };
struct SrcC { static const int K = SRC_K, LEN = SRC_LEN, N = SRC_N, E1 = SRC_E1, E2 = SRC_E2, TK = SRC_TK, K1 = SRC_K1, K2 = SRC_K2; };

// ---- operations (OP); SEL picks the variant whenever the variant decides a kind ----
#define OP_NONE 0
#define OP_AS_SCALAR 1     // SEL: 0 = null, 1 = true, 2 = false, 3 = u64|unsigned|unsigned char|unsigned long, 4 = i64|int|short|long, 5 = double|float
#define OP_AS_TYPE 2       // = ValueType(SEL)
#define OP_AS_STR 3        // = String&& | const String& | const String* | String* | StringView | const char*  (LEN_A units); SEL 1: null String pointers
#define OP_AS_ARR 4        // = Array&& | const Array&   (AN members of kind UIntLong)
#define OP_AS_COPY 5       // = const Value&   (SRC)
#define OP_AS_MOVE 6       // = Value&&        (SRC)
#define OP_AS_SELF 7       // v = v ; v = move(v)
#define OP_CTOR_COPY 8
#define OP_CTOR_MOVE 9
#define OP_AP_SCALAR 10    // += ...  (SEL as OP_AS_SCALAR)
#define OP_AP_STR 11       // += String&& | const String& | StringView | const char*   (LEN_A)
#define OP_AP_ARR 12       // += Array&& | const Array&   (AN)
#define OP_AP_COPY 13      // += const Value&  (SRC)
#define OP_AP_MOVE 14      // += Value&&       (SRC)
#define OP_AP_PTR 15       // AddPointerToValue(SEL 0: &src, 1: nullptr)
#define OP_INDEX 16        // v[IDX] (SizeT, int and u64 overloads), then a write through the reference
#define OP_MERGE_COPY 17   // Merge(const Value&) (SRC)
#define OP_MERGE_MOVE 18   // Merge(Value&&)      (SRC)
#define OP_REMOVE_INDEX 19 // RemoveIndex(IDX)
#define OP_RESET 20
#define OP_COMPRESS 21
#define OP_SET_PTR 22      // SetPointerToValue(SEL 0: &src, 1: nullptr)
#define OP_REMOVE_KEY 23   // Remove(key) in its three overloads (no effect on a non-object)
#define OP_GET_KEY 24      // GetValue("<digit>", 1): decimal key into an array
#define OP_AP_ELEM 25      // SEL 0: v += *v.GetValue(0) ; 1: v += move(*v.GetValue(0))   (the argument lives inside the value)
#define OP_KEY 26          // v[key] (W 0 const char*, 1 StringView, 2 String&&, 3 const String&) / Get (W 4 ptr+len, 5 StringView), key id KA, then a write
#define OP_INSERT 27       // Insert(StringView key KA, Value&& SRC)
#define OP_AS_OBJ 28       // = HArray&& (W 1) | const HArray& (W 0)   (AN members "a", "b")
#define OP_AP_OBJ 29       // += HArray&& (W 1) | const HArray& (W 0)  (AN members "a", "b")
#ifndef OP
#define OP OP_NONE
#endif
#ifndef SEL
#define SEL 0
#endif
#ifndef LEN_A
#define LEN_A 1
#endif
#ifndef AN
#define AN 1
#endif
#ifndef IDX
#define IDX 0
#endif
#ifndef KA
#define KA 1
#endif
#ifndef BV
#define BV 0
#endif
#ifndef W
#define W 0
#endif
#ifndef COERCE
#define COERCE 0
#endif
#ifndef EXP_T
#define EXP_T 0
#endif
#ifndef EXP_BITS
#define EXP_BITS 0ULL
#endif
#ifndef EXP_BOOL
#define EXP_BOOL 0
#endif

static u64 d2b(double d) { u64 b; __builtin_memcpy(&b, &d, 8); return b; }
static double b2d(u64 b) { double d; __builtin_memcpy(&d, &b, 8); return d; }
static float b2f(unsigned b) { float f; __builtin_memcpy(&f, &b, 4); return f; }

// ---------------------------------------------------------------- the document model
struct M;
struct MN {               // one node seen from outside: scalar (bits), string (len, s), container (cnt members; for an object
    T k; u64 bits; unsigned len; char s[6]; unsigned cnt; unsigned holes; const M *tgt;   // at most `holes` removed slots) or pointer (tgt)
};
struct ME { int key; MN v; };  // object member: key id + value
struct M { MN n; MN e[6]; ME o[6]; };   // a document: node + its members (array: e[], object: o[] in insertion order)

static const char *kstr(int id) { return id == 0 ? "" : (id == 1 ? "a" : (id == 2 ? "b" : "ab")); }
static unsigned klen(int id) { return id == 0 ? 0u : (id == 3 ? 2u : 1u); }

static void mn_clear(MN &n) {
    n.k = T::Undefined; n.bits = 0; n.len = 0; n.cnt = 0; n.holes = 0; n.tgt = nullptr;
    n.s[0] = 0; n.s[1] = 0; n.s[2] = 0; n.s[3] = 0; n.s[4] = 0; n.s[5] = 0;
}
static void m_clear(M &m) {
    mn_clear(m.n);
    for (unsigned i = 0; i < 6; ++i) { mn_clear(m.e[i]); m.o[i].key = 0; mn_clear(m.o[i].v); }
}
static void m_to_object(M &m) { if (m.n.k != T::Object) { m_clear(m); m.n.k = T::Object; } }
static int mo_find(const M &m, int key) {
    for (unsigned i = 0; i < 6; ++i) if (i < m.n.cnt && m.o[i].key == key) return int(i);
    return -1;
}
static MN &mo_get(M &m, int key) {             // the member under `key`, created (Undefined, at the end) when missing
    int i = mo_find(m, key);
    if (i < 0) { i = int(m.n.cnt); ++m.n.cnt; m.o[i].key = key; mn_clear(m.o[i].v); }
    return m.o[i].v;
}
static void mo_remove(M &m, int key) {         // the member disappears, a removed slot may stay behind
    const int i = mo_find(m, key);
    if (i < 0) return;
    for (unsigned j = unsigned(i); j + 1 < 6; ++j) m.o[j] = m.o[j + 1];
    --m.n.cnt; ++m.n.holes;
}
// (member-wise: one big struct copy would be a byte copy of > 512 bytes, which costs CBMC its field sensitivity)
static void m_assign(M &d, const M &src) {
    d.n = src.n;
    for (unsigned i = 0; i < 6; ++i) { d.e[i] = src.e[i]; d.o[i].key = src.o[i].key; d.o[i].v = src.o[i].v; }
}
static void m_copy_of(M &d, const M &src) {     // a deep copy keeps the members and drops every removed slot
    m_assign(d, src);
    d.n.holes = 0;
    for (unsigned i = 0; i < 6; ++i) { d.e[i].holes = 0; d.o[i].v.holes = 0; }
}
static MN mn_copy_of(const MN &n) { MN r = n; r.holes = 0; return r; }
static void mo_merge(M &m, const M &src) {     // replace-or-append in the source's order
    for (unsigned i = 0; i < 6; ++i) if (i < src.n.cnt) mo_get(m, src.o[i].key) = src.o[i].v;
}
static void m_to_array(M &m) { if (m.n.k != T::Array) { m_clear(m); m.n.k = T::Array; } }
static void m_push(M &m, const MN &e) { m.e[m.n.cnt] = e; ++m.n.cnt; }

// Digit::stringToNumber is C09's subject.  Queries that do not look at string->number coercion replace it by this
// constant (never reached on a feasible path there: obs_node does not call the number getters on strings).
extern "C" unsigned char stub_strtonum(QNumber64 *num, const char *content, unsigned *off, unsigned end) { return 0; }
// The coercion queries run the real stringToNumber but cut its big-integer power kernels (C09's subject): the assertions
// on strings with a fraction or an exponent only require the getters to agree with SetNumber, which holds for any
// deterministic kernel; all-digit strings never reach the kernels.
extern "C" void stub_pow(unsigned long long *num, unsigned e) {}

// ---------------------------------------------------------------- observers
static void obs_node(const V &v, const MN &n0) {
    const MN *np = &n0;
    if (n0.k == T::ValuePtr) {             // every observer but Type() forwards to the target
        vf_assert(v.Type() == T::ValuePtr, 100);
        np = &(n0.tgt->n);
    } else {
        vf_assert(v.Type() == n0.k, 101);
    }
    const MN &n = *np; const T k = n.k;
    vf_assert(v.IsUndefined() == (k == T::Undefined), 102);
    vf_assert(v.IsObject() == (k == T::Object), 103);
    vf_assert(v.IsArray() == (k == T::Array), 104);
    vf_assert(v.IsString() == (k == T::String), 105);
    vf_assert(v.IsUInt64() == (k == T::UIntLong), 106);
    vf_assert(v.IsInt64() == (k == T::IntLong), 107);
    vf_assert(v.IsDouble() == (k == T::Double), 108);
    vf_assert(v.IsTrue() == (k == T::True), 109);
    vf_assert(v.IsFalse() == (k == T::False), 110);
    vf_assert(v.IsNull() == (k == T::Null), 111);
    const bool isnum = (k == T::UIntLong || k == T::IntLong || k == T::Double);
    vf_assert(v.IsNumber() == isnum, 112);
    const QNumberType nt = v.GetNumberType();
    vf_assert(nt == (k == T::UIntLong ? QNumberType::Natural : (k == T::IntLong ? QNumberType::Integer : (k == T::Double ? QNumberType::Real : QNumberType::NotANumber))), 113);
    if (k == T::Object) {
        vf_assert(v.Size() >= n.cnt && v.Size() <= n.cnt + n.holes, 114);      // slot count: members plus removed slots not yet dropped
    } else {
        vf_assert(v.Size() == (k == T::Array ? n.cnt : 0u), 114);
    }
    vf_assert(v.Length() == (k == T::String ? n.len : 0u), 115);
    vf_assert((v.GetArray() != nullptr) == (k == T::Array), 116);
    vf_assert((v.GetString() != nullptr) == (k == T::String), 117);
    vf_assert((v.GetObject() != nullptr) == (k == T::Object), 118);
    if (k != T::Object) vf_assert(v.GetKey(0) == nullptr, 119);
    // string content
    const char *sp = v.StringStorage();
    const SVw sv = v.GetStringView();
    vf_assert(sv.Length() == (k == T::String ? n.len : 0u), 120);
    if (k == T::String) {
        vf_assert(sv.First() == sp, 121);
        vf_assert(n.len == 0 || sp != nullptr, 122);
        if (sp != nullptr) {
            for (unsigned i = 0; i < n.len; ++i) vf_assert(sp[i] == n.s[i], 123);
            vf_assert(sp[n.len] == 0, 124);   // terminator
        }
    } else {
        vf_assert(sp == nullptr, 125);
    }
    // SetCharAndLength: strings and the three literals
    const char *cp = nullptr; SizeT cl = 0;
    const bool has_text = v.SetCharAndLength(cp, cl);
    vf_assert(has_text == (k == T::String || k == T::True || k == T::False || k == T::Null), 126);
    if (k == T::String) vf_assert(cp == sp && cl == n.len, 127);
    if (k == T::True) vf_assert(cl == 4 && cp[0] == 't' && cp[1] == 'r' && cp[2] == 'u' && cp[3] == 'e', 128);
    if (k == T::False) vf_assert(cl == 5 && cp[0] == 'f' && cp[1] == 'a' && cp[2] == 'l' && cp[3] == 's' && cp[4] == 'e', 129);
    if (k == T::Null) vf_assert(cl == 4 && cp[0] == 'n' && cp[1] == 'u' && cp[2] == 'l' && cp[3] == 'l', 130);
    // numeric and boolean coercions
    if (k != T::String) {
        QNumber64 q; q.Natural = 0;
        const QNumberType qt = v.SetNumber(q);
        bool bv = false; const bool hb = v.SetBool(bv);
        const u64 gu = v.GetUInt64(); const i64 gi = v.GetInt64(); const u64 gd = d2b(v.GetDouble()); const u64 gn = d2b(v.GetNumber());
        vf_assert(gn == gd, 131);
        switch (k) {
            case T::UIntLong:
                vf_assert(qt == QNumberType::Natural && q.Natural == n.bits, 132);
                vf_assert(gu == n.bits && u64(gi) == n.bits && gd == d2b(double(n.bits)), 133);
                vf_assert(hb && bv == (n.bits > 0), 134);
                break;
            case T::IntLong:
                vf_assert(qt == QNumberType::Integer && u64(q.Integer) == n.bits, 135);
                vf_assert(gu == n.bits && u64(gi) == n.bits && gd == d2b(double(i64(n.bits))), 136);
                vf_assert(hb && bv == (i64(n.bits) > 0), 137);
                break;
            case T::Double: {
                const double d = b2d(n.bits);
                vf_assert(qt == QNumberType::Real && d2b(q.Real) == n.bits, 138);
                vf_assert(gd == n.bits, 139);
                if (d > -4.0e18 && d < 4.0e18) {        // inside the signed 64-bit range the cast is defined: truncation
                    vf_assert(gi == i64(d) && gu == u64(i64(d)), 140);
                }
                vf_assert(hb && bv == (d > 0), 141);
                break;
            }
            case T::True:
                vf_assert(qt == QNumberType::Natural && q.Natural == 1 && gu == 1 && gi == 1 && gd == d2b(1.0), 142);
                vf_assert(hb && bv, 143);
                break;
            case T::False:
            case T::Null:
                vf_assert(qt == QNumberType::Natural && q.Natural == 0 && gu == 0 && gi == 0 && gd == 0, 144);
                vf_assert(hb && !bv, 145);
                break;
            default:   // Undefined, Array, Object: not a number, not a boolean
                vf_assert(qt == QNumberType::NotANumber && gu == 0 && gi == 0 && gd == 0, 146);
                vf_assert(!hb, 147);
        }
    } else if (COERCE) {
        // a string coerces to the number it spells completely ("123", "-5", "1.5"), "true"/"false" to booleans; the text is
        // concrete per query (CSTR) and the expectation comes with it (EXP_T = QNumberType, EXP_BITS, EXP_BOOL 0 none / 1 true / 2 false)
        QNumber64 q; q.Natural = 0;
        const QNumberType qt = v.SetNumber(q);
        const u64 gu = v.GetUInt64(); const i64 gi = v.GetInt64(); const u64 gd = d2b(v.GetDouble());
        vf_assert(unsigned(qt) == EXP_T, 150);
        if (EXP_T == 0) vf_assert(gu == 0 && gi == 0 && gd == 0, 151);
        if (EXP_T == 2) vf_assert(q.Natural == EXP_BITS && gu == EXP_BITS && u64(gi) == EXP_BITS && gd == d2b(double(u64(EXP_BITS))), 152);
        if (EXP_T == 3) vf_assert(u64(q.Integer) == EXP_BITS && gu == EXP_BITS && u64(gi) == EXP_BITS && gd == d2b(double(i64(EXP_BITS))), 153);
        if (EXP_T == 1) vf_assert(d2b(q.Real) == EXP_BITS && gd == EXP_BITS && gi == i64(b2d(EXP_BITS)) && gu == u64(i64(b2d(EXP_BITS))), 154);
        vf_assert(v.GetNumberType() == QNumberType::NotANumber && !v.IsNumber(), 155);   // the stored kind stays String
        bool bv = false; const bool hb = v.SetBool(bv);
        vf_assert(hb == (EXP_BOOL != 0), 158);
        if (hb) vf_assert(bv == (EXP_BOOL == 1), 159);
    }
}

static void obs_doc(const V &v, const M &m) {
    obs_node(v, m.n);
    const M *mp = &m;
    if (m.n.k == T::ValuePtr) mp = m.n.tgt;
    const M &e = *mp;
    const bool arr = (e.n.k == T::Array);
    const unsigned cnt = arr ? e.n.cnt : 0;
    for (unsigned i = 0; i < cnt; ++i) {           // every member (cnt is concrete)
        V *p = v.GetValue(SizeT(i));
        if (e.e[i].k != T::Undefined) {
            vf_assert(p != nullptr, 200);
            if (p != nullptr) obs_node(*p, e.e[i]);
        } else {
            vf_assert(p == nullptr, 201);          // a removed / never written member reads as absent
        }
    }
    unsigned j = vf_u32();                         // any position past the end
    vf_assume(j >= cnt);
    if (e.n.k != T::Object) vf_assert(v.GetValue(SizeT(j)) == nullptr, 202);
    if (arr) {
        const V *f = v.First(); const V *en = v.GetArray()->End(); V *la = v.Last();   // Value::End() does not compile (Value.hpp:1277)
        if (cnt != 0) {
            vf_assert(f != nullptr && en == f + cnt && la == f + (cnt - 1), 203);
            for (unsigned i = 0; i < cnt; ++i) vf_assert(f[i].Type() == e.e[i].k, 204);   // raw iteration sees removed members as Undefined
        } else {
            vf_assert(la == nullptr && en == f, 205);
        }
    } else if (e.n.k == T::Object) {
        const unsigned oc = e.n.cnt;
        for (unsigned i = 0; i < oc; ++i) {                       // every member by key
            const char *ks = kstr(e.o[i].key); const unsigned kl = klen(e.o[i].key);
            V *p = v.GetValue(ks, SizeT(kl));
            vf_assert(p == v.GetValue(SVw(ks, SizeT(kl))), 210);
            if (e.o[i].v.k != T::Undefined) {
                vf_assert(p != nullptr, 211);
                if (p != nullptr) obs_node(*p, e.o[i].v);
            } else {
                vf_assert(p == nullptr, 212);                     // a member that was never written reads as absent
            }
            if (e.n.holes == 0) {                                 // positional access while no slot was removed
                const ST *k = v.GetKey(SizeT(i));
                vf_assert(k != nullptr && k->IsEqual(ks, SizeT(kl)), 213);
                vf_assert(v.GetValue(SizeT(i)) == p, 214);
                const V *sv = nullptr; SVw skey;
                v.SetValueAndKey(SizeT(i), sv, skey);
                vf_assert(sv == p, 215);
                if (p != nullptr) vf_assert(skey.Length() == kl && StringUtils::IsEqual(skey.First(), ks, SizeT(kl)), 216);
                const char *kc = nullptr; SizeT kn = 99;
                vf_assert(v.SetKeyCharAndLength(SizeT(i), kc, kn) && kn == kl && StringUtils::IsEqual(kc, ks, SizeT(kl)), 217);
                const V *sv2 = nullptr; const char *kc2 = nullptr; SizeT kn2 = 99;
                v.SetValueKeyLength(SizeT(i), sv2, kc2, kn2);
                vf_assert(sv2 == p, 218);
                if (p != nullptr) vf_assert(kn2 == kl && StringUtils::IsEqual(kc2, ks, SizeT(kl)), 219);
            }
        }
        for (int key = 0; key < 4; ++key) {                       // every other key of the universe is absent
            if (mo_find(e, key) < 0) vf_assert(v.GetValue(kstr(key), SizeT(klen(key))) == nullptr, 220);
        }
        const unsigned sz = v.Size();                             // iteration: the slots in order, removed ones skipped, give the members in order
        unsigned live = 0;
        for (unsigned s = 0; s < 6; ++s) {
            if (s < sz) {
                const ST *k = v.GetKey(SizeT(s));
                if (k != nullptr) {
                    vf_assert(live < oc, 221);
                    if (live < oc) vf_assert(k->IsEqual(kstr(e.o[live].key), SizeT(klen(e.o[live].key))), 222);
                    ++live;
                } else {
                    vf_assert(v.GetValue(SizeT(s)) == nullptr, 223);
                }
            }
        }
        vf_assert(live == oc, 224);
        vf_assert(v.GetKey(SizeT(sz)) == nullptr && v.GetValue(SizeT(sz)) == nullptr, 225);
    } else {
        vf_assert(v.First() == nullptr && v.Last() == nullptr, 206);
    }
}

// ---------------------------------------------------------------- pre-state builders (public constructors only)
struct Slot { alignas(8) unsigned char raw[24]; };   // storage with arbitrary previous contents (a byte array keeps CBMC field-sensitive)
static void slot_fill(Slot &s) {
    u64 a = vf_u64();
    u64 b = vf_u64();
    u64 c = vf_u64();
#ifdef KF_EXCL_C12_ctor_payload_uninit
    b = 0;                 // concretely clean (an assumption would leave size/capacity symbolic during symbolic execution)
#endif
#ifdef KF_ONLY_C12_ctor_payload_uninit
    b = 0x0000000500000000ULL;   // one concrete instance of "not clean": read back as size 0, capacity 5 (a symbolic one does not decide)
#endif
    for (unsigned i = 0; i < 8; ++i) {
        s.raw[i] = (unsigned char)(a >> (8 * i)); s.raw[8 + i] = (unsigned char)(b >> (8 * i)); s.raw[16 + i] = (unsigned char)(c >> (8 * i));
    }
}

static void slot_scrub(Slot &s) { volatile unsigned char *p = s.raw; for (unsigned i = 0; i < 24; ++i) p[i] = 0; }

template <int K, int LEN> static V *mk_leaf(Slot &slot, MN &n) {   // a scalar or a string of LEN <= 5 units
    slot_fill(slot);
    unsigned sel = vf_u8();
    u64 x = vf_u64();
    char c[6];
    c[0] = char(vf_u8());
    c[1] = char(vf_u8());
    c[2] = 0; c[3] = 0; c[4] = 0; c[5] = 0;
    if (LEN > 2) {
        c[2] = char(vf_u8());
        c[3] = char(vf_u8());
        c[4] = char(vf_u8());
    }
#ifdef CSTR
    if (K == 4) { const char *lit = CSTR; for (unsigned i = 0; i < LEN; ++i) c[i] = lit[i]; sel = 0; }   // coercion queries: concrete text, one constructor
#endif
    mn_clear(n);
    n.k = T(K);
    void *raw = &slot;
    if (K == 0) return (sel & 1) ? new (raw) V() : new (raw) V(T::Undefined);
    if (K == 10) return (sel & 1) ? new (raw) V(nullptr) : new (raw) V(T::Null);
    if (K == 8) return (sel & 1) ? new (raw) V(true) : new (raw) V(T::True);
    if (K == 9) return (sel & 1) ? new (raw) V(false) : new (raw) V(T::False);
    if (K == 5) {
        if ((sel & 3) == 0) { n.bits = x; return new (raw) V(x); }
        if ((sel & 3) == 1) { n.bits = u64(unsigned(x)); return new (raw) V(unsigned(x)); }
        if ((sel & 3) == 2) { n.bits = u64((unsigned short)(x)); return new (raw) V((unsigned short)(x)); }
        return new (raw) V(T::UIntLong);
    }
    if (K == 6) {
        if ((sel & 3) == 0) { n.bits = x; return new (raw) V(i64(x)); }
        if ((sel & 3) == 1) { n.bits = u64(i64(int(x))); return new (raw) V(int(x)); }
        if ((sel & 3) == 2) { n.bits = u64(i64(long(x))); return new (raw) V(long(x)); }
        return new (raw) V(T::IntLong);
    }
    if (K == 7) {
        if ((sel & 1) == 0) { n.bits = x; return new (raw) V(b2d(x)); }
        return new (raw) V(T::Double);
    }
    if (K == 30) {                       // a nested array with a hole: [Undefined, unsigned]  (for Compress)
        n.k = T::Array; n.cnt = 2; n.holes = 1;
        V *v = new (raw) V(T::Array);
        *v += V();
        *v += x;
        return v;
    }
    if (K == 31) {                       // a nested object with a removed member: {"p": unsigned} after "q" was removed  (for Compress)
        n.k = T::Object; n.cnt = 1; n.holes = 1;
        V *v = new (raw) V(T::Object);
        (*v)["p"] = x;
        (*v)["q"] = x;
        v->Remove("q");
        return v;
    }
    // String
    n.len = LEN;
    for (unsigned i = 0; i < LEN; ++i) n.s[i] = c[i];
    if ((sel & 3) == 0) return new (raw) V((const char *)&c[0], SizeT(LEN));
    if ((sel & 3) == 1) return new (raw) V(ST((const char *)&c[0], SizeT(LEN)));
    if ((sel & 3) == 2) { const ST s((const char *)&c[0], SizeT(LEN)); return new (raw) V(s); }
    return new (raw) V(SVw(&c[0], SizeT(LEN)));
}

// Which overloads build an array is concrete (BV): a symbolic choice between paths that allocate member storage at
// different places would make the members' kind tags symbolic again.
template <int N, int E1, int E2> static V *mk_array(Slot &slot, M &m) {   // [E1?, E2?]
    slot_fill(slot);
    m.n.k = T::Array;
    void *raw = &slot;
    if (N == 0) {
        if (BV == 0) return new (raw) V(T::Array);
        if (BV == 1) return new (raw) V(T::Array, SizeT(2));
        if (BV == 2) return new (raw) V(AT());
        const AT a;
        return new (raw) V(a);
    }
    AT a; Slot s1, s2; MN e;
    {
        V *x = mk_leaf<E1, 1>(s1, e);
        if (BV & 1) a += (const V &)*x; else a += Memory::Move(*x);
        x->~V();
        m_push(m, e);
    }
    if (N > 1) {
        V *x = mk_leaf<E2, 1>(s2, e);
        if (BV & 1) a += (const V &)*x; else a += Memory::Move(*x);
        x->~V();
        m_push(m, e);
    }
    if (BV & 2) return new (raw) V(a);
    return new (raw) V(Memory::Move(a));
}

// one object member of kind E under key id KEY, added through the overload family chosen by BV
template <int E, int KEY> static void add_obj_member(V &v, OT *direct, M &m) {
    Slot s1; MN e;
    const char *ks = kstr(KEY); const unsigned kl = klen(KEY);
    if (E == 0) {                                   // created by a keyed read, never written
        if (direct != nullptr) { V &r = (*direct)[ST(ks, SizeT(kl))]; (void)r; } else { V &r = v[ks]; (void)r; }
        mo_get(m, KEY);
        return;
    }
    V *x = mk_leaf<(E == 20 ? 5 : E), 1>(s1, e);
    if (direct != nullptr) {
        if (BV & 1) direct->Insert(ST(ks, SizeT(kl)), Memory::Move(*x)); else (*direct)[ST(ks, SizeT(kl))] = Memory::Move(*x);
    } else {
        if (BV & 1) v.Insert(SVw(ks, SizeT(kl)), Memory::Move(*x)); else v[ks] = Memory::Move(*x);
    }
    x->~V();
    mo_get(m, KEY) = e;
    if (E == 20) {                                  // ... and removed again
        if (direct != nullptr) direct->Remove(ks, SizeT(kl)); else v.Remove(ks, SizeT(kl));
        mo_remove(m, KEY);
    }
}
template <int N, int E1, int E2, int K1, int K2> static V *mk_object(Slot &slot, M &m) {   // {K1: E1, K2: E2}
    slot_fill(slot);
    m.n.k = T::Object;
    void *raw = &slot;
    if (BV < 2) {
        V *v = (BV & 1) ? new (raw) V(T::Object, SizeT(2)) : new (raw) V(T::Object);
        if (N > 0) add_obj_member<E1, K1>(*v, nullptr, m);
        if (N > 1) add_obj_member<E2, K2>(*v, nullptr, m);
        return v;
    }
    OT o;                                           // built as a hash array, then adopted / copied
    V dummy;
    if (N == 0) { o.Insert(ST("a", SizeT(1)), V(1u)); o.Reset(); }   // empty, with explicitly written fields
    if (N > 0) add_obj_member<E1, K1>(dummy, &o, m);
    if (N > 1) add_obj_member<E2, K2>(dummy, &o, m);
    if (BV == 2) return new (raw) V(Memory::Move(o));
    m.n.holes = 0;                                  // a copy drops the removed slots
    return new (raw) V((const OT &)o);
}

template <class C> static void mk(Slot &sv, Slot &st, M &m, M &tm, V *&v, V *&t) {
    m_clear(m); m_clear(tm);
    t = nullptr;
    if (C::K == 3) { v = mk_array<C::N, C::E1, C::E2>(sv, m); return; }
    if (C::K == 2) { v = mk_object<C::N, C::E1, C::E2, C::K1, C::K2>(sv, m); return; }
    if (C::K != 1) { v = mk_leaf<C::K, C::LEN>(sv, m.n); return; }
    // pointer: the target is a document of its own
    if (C::TK == 3) t = mk_array<C::N, C::E1, C::E2>(st, tm);
    else if (C::TK == 2) t = mk_object<C::N, C::E1, C::E2, C::K1, C::K2>(st, tm);
    else t = mk_leaf<(C::TK == 1 ? 0 : C::TK), C::LEN>(st, tm.n);
    slot_fill(sv);
    void *raw = &sv;
    v = new (raw) V();
    v->SetPointerToValue(t);
    m.n.k = T::ValuePtr; m.n.tgt = &tm;
}

// ---------------------------------------------------------------- scalar arguments of = and +=  (SEL fixes the kind)
template <int S> static void scalar_arg(V &v, MN &n, bool append, unsigned w) {   // w: overload; concrete when appending
    u64 x = vf_u64();
    mn_clear(n);
    if (S == 0) { n.k = T::Null; if (append) v += nullptr; else v = nullptr; }
    if (S == 1) { n.k = T::True; if (append) v += true; else v = true; }
    if (S == 2) { n.k = T::False; if (append) v += false; else v = false; }
    if (S == 3) {
        n.k = T::UIntLong;
        switch (w & 3) {
            case 0: n.bits = x; if (append) v += x; else v = x; break;
            case 1: n.bits = u64(unsigned(x)); if (append) v += unsigned(x); else v = unsigned(x); break;
            case 2: n.bits = u64((unsigned char)(x)); if (append) v += (unsigned char)(x); else v = (unsigned char)(x); break;
            default: n.bits = u64((unsigned long)(x)); if (append) v += (unsigned long)(x); else v = (unsigned long)(x); break;
        }
    }
    if (S == 4) {
        n.k = T::IntLong;
        switch (w & 3) {
            case 0: n.bits = x; if (append) v += i64(x); else v = i64(x); break;
            case 1: n.bits = u64(i64(int(x))); if (append) v += int(x); else v = int(x); break;
            case 2: n.bits = u64(i64(short(x))); if (append) v += short(x); else v = short(x); break;
            default: n.bits = u64(i64(long(x))); if (append) v += long(x); else v = long(x); break;
        }
    }
    if (S == 5) {
        n.k = T::Double;
        if (w & 1) {
            n.bits = x; if (append) v += b2d(x); else v = b2d(x);
        } else {
            vf_assume(((unsigned(x) >> 23) & 0xFF) != 0xFF);     // float: finite (NaN payload widening is not the subject)
            const float f = b2f(unsigned(x));
            n.bits = d2b(double(f)); if (append) v += f; else v = f;
        }
    }
}

// change everything reachable from c in place, then release it (independence of copies)
static void mutate(V &c) {
    if (c.Type() == T::String && c.Length() > 0) c.GetString()->Storage()[0] ^= 1;
    if (c.Type() == T::Array && c.Size() > 0) {
        V *e = c.GetArray()->Storage();
        if (e->Type() == T::String && e->Length() > 0) e->GetString()->Storage()[0] ^= 1;
        *e = 77u;
    }
    if (c.Type() == T::Object && c.Size() > 0) {
        V *e = c.GetValue(SizeT(0));
        if (e != nullptr) {
            if (e->Type() == T::String && e->Length() > 0) e->GetString()->Storage()[0] ^= 1;
            *e = 77u;
        }
    }
    c.Reset();
}

extern "C" void h_step() {
    M m; M tm; M sm; M stm;
    Slot sv, st, ss, sst;
    V *v = nullptr; V *t = nullptr; V *src = nullptr; V *srct = nullptr;
    mk<PreC>(sv, st, m, tm, v, t);
    m_clear(sm); m_clear(stm);
    obs_doc(*v, m);                   // the constructed pre-state itself agrees with the model

#if OP == OP_AS_SCALAR
    {
        MN a;
        unsigned w = vf_u8();
        scalar_arg<SEL>(*v, a, false, w);
        m_clear(m); m.n = a;
    }
#elif OP == OP_AS_TYPE
    {
        // finding C12-assign-type-no-reset: the old payload is neither released nor cleared
        // (predicate: the old value has a payload -- a string, an array, a pointer or a number; concrete per query)
        const bool clean = (PRE_K == 0 || PRE_K == 8 || PRE_K == 9 || PRE_K == 10);
#ifdef KF_ONLY_C12_assign_type_no_reset
        vf_assume(!clean && (m.n.k == T::String || m.n.k == T::Array || m.n.k == T::ValuePtr || m.n.bits != 0));
#endif
#ifdef KF_EXCL_C12_assign_type_no_reset
        if (clean)                     // while the finding is open the operation is applied to payload-free values only
#endif
        {
            *v = T(SEL);
            m_clear(m); m.n.k = T(SEL);    // "assignments replace kind and content": an empty value of that kind
        }
    }
#elif OP == OP_AS_STR
    {
        unsigned w = vf_u8();
        char c[3];
        c[0] = char(vf_u8());
        c[1] = char(vf_u8());
        c[2] = 0;
        c[LEN_A] = 0;
        ST s((const char *)&c[0], SizeT(LEN_A));
#if SEL == 1
        const ST *nsp = nullptr; ST *nsq = nullptr;      // null String pointers: no effect
        if (w & 1) *v = nsp; else *v = nsq;
#else
        vf_assume(w < 6);
        if (w == 5) vf_assume((LEN_A < 1 || c[0] != 0) && (LEN_A < 2 || c[1] != 0));
        switch (w) {
            case 0: *v = Memory::Move(s); vf_assert(s.Length() == 0 && s.First() == nullptr, 300); break;
            case 1: *v = (const ST &)s; break;
            case 2: *v = (const ST *)&s; break;
            case 3: *v = (ST *)&s; break;
            case 4: *v = SVw(&c[0], SizeT(LEN_A)); break;
            default: *v = (const char *)&c[0]; break;
        }
        m_clear(m); m.n.k = T::String; m.n.len = LEN_A;
        if (LEN_A > 0) m.n.s[0] = c[0];
        if (LEN_A > 1) m.n.s[1] = c[1];
        if (w >= 1 && w <= 3) {    // the argument is untouched and independent
            vf_assert(s.Length() == LEN_A && (LEN_A < 1 || s.First()[0] == c[0]) && (LEN_A < 2 || s.First()[1] == c[1]), 301);
            if (LEN_A > 0) s.Storage()[0] ^= 1;
        }
#endif
    }
#elif OP == OP_AS_ARR || OP == OP_AP_ARR
    {
        const unsigned w = W;
        AT a; MN ae[2]; Slot s1, s2;
        mn_clear(ae[0]); mn_clear(ae[1]);
        if (AN > 0) { V *x = mk_leaf<5, 1>(s1, ae[0]); a += Memory::Move(*x); x->~V(); }
        if (AN > 1) { V *x = mk_leaf<5, 1>(s2, ae[1]); a += Memory::Move(*x); x->~V(); }
        if (AN == 0) { a += V(1u); a.Clear(); }      // an empty array (with spare room; see META on default-constructed arrays)
#if OP == OP_AS_ARR
        if (w & 1) *v = Memory::Move(a); else *v = (const AT &)a;
        m_clear(m); m.n.k = T::Array;
        for (unsigned i = 0; i < AN; ++i) m_push(m, ae[i]);
#else
        if (w & 1) *v += Memory::Move(a); else *v += (const AT &)a;
        m_to_array(m);                 // += Array: the members are spliced; an empty array becomes a member itself
        if (AN == 0) { MN e; mn_clear(e); e.k = T::Array; m_push(m, e); }
        for (unsigned i = 0; i < AN; ++i) m_push(m, ae[i]);
#endif
        if (w & 1) {
            vf_assert(a.Size() == 0 && a.Storage() == nullptr && a.Capacity() == 0, 302);    // moved-from
        } else {
            vf_assert(a.Size() == AN, 303);
            if (AN > 0) { vf_assert(a.First()->Type() == ae[0].k, 304); a.Storage()[0] = 77u; }
        }
    }
#elif OP == OP_AS_COPY || OP == OP_AS_MOVE || OP == OP_AP_COPY || OP == OP_AP_MOVE || OP == OP_MERGE_COPY || OP == OP_MERGE_MOVE
    {
        mk<SrcC>(ss, sst, sm, stm, src, srct);
#if OP == OP_AS_COPY
        *v = (const V &)*src;
        m_copy_of(m, sm);
#elif OP == OP_AS_MOVE
        *v = Memory::Move(*src);
        m_assign(m, sm);
#elif OP == OP_AP_COPY
        *v += (const V &)*src;                  // object += object merges (replace or append); everything else appends one member
        if (m.n.k == T::Object && sm.n.k == T::Object) mo_merge(m, sm); else { m_to_array(m); m_push(m, mn_copy_of(sm.n)); }
#elif OP == OP_AP_MOVE
        *v += Memory::Move(*src);
        if (m.n.k == T::Object && sm.n.k == T::Object) mo_merge(m, sm); else { m_to_array(m); m_push(m, sm.n); }
#else
        // Merge: an Undefined destination becomes an empty array; array into array splices the defined members; object
        // into object replaces or appends by key; every other combination leaves the destination alone
#if OP == OP_MERGE_COPY
        v->Merge((const V &)*src);
#else
        v->Merge(Memory::Move(*src));
#endif
        if (m.n.k == T::Undefined) m_to_array(m);
        if (m.n.k == T::Array && sm.n.k == T::Array) {
            for (unsigned i = 0; i < SRC_N; ++i)
                if (sm.e[i].k != T::Undefined) m_push(m, sm.e[i]);
        }
        if (m.n.k == T::Object && sm.n.k == T::Object) mo_merge(m, sm);
#endif
#if OP == OP_AS_MOVE || OP == OP_AP_MOVE || OP == OP_MERGE_MOVE
        vf_assert(src->Type() == T::Undefined, 310);          // moved-from (or merged-from) is Undefined
        { M u; m_clear(u); obs_doc(*src, u); }
#else
        obs_doc(*src, sm);                                      // the source is untouched ...
        obs_doc(*v, m);
        mutate(*src);                                           // ... and shares nothing with the destination
#endif
        if (srct != nullptr) obs_doc(*srct, stm);
    }
#elif OP == OP_AS_SELF
    {
        unsigned w = vf_u8();
        V &alias = *v;
        if (w & 1) *v = (const V &)alias; else *v = Memory::Move(alias);
    }
#elif OP == OP_CTOR_COPY
    {
        V c(*v);
        M mc; m_copy_of(mc, m);
        obs_doc(c, mc);
        obs_doc(*v, m);
        mutate(c);
    }
#elif OP == OP_CTOR_MOVE
    {
        V c(Memory::Move(*v));
        obs_doc(c, m);
        m_clear(m);
    }
#elif OP == OP_AP_SCALAR
    {
        MN a;
        scalar_arg<SEL>(*v, a, true, W);
        m_to_array(m); m_push(m, a);
    }
#elif OP == OP_AP_STR
    {
        const unsigned w = W;
        char c[3];
        c[0] = char(vf_u8());
        c[1] = char(vf_u8());
        c[2] = 0;
        c[LEN_A] = 0;
        if (w == 3) vf_assume((LEN_A < 1 || c[0] != 0) && (LEN_A < 2 || c[1] != 0));
        ST s((const char *)&c[0], SizeT(LEN_A));
        switch (w) {
            case 0: *v += Memory::Move(s); vf_assert(s.Length() == 0 && s.First() == nullptr, 320); break;
            case 1: *v += (const ST &)s; break;
            case 2: *v += SVw(&c[0], SizeT(LEN_A)); break;
            default: *v += (const char *)&c[0]; break;
        }
        MN e; mn_clear(e); e.k = T::String; e.len = LEN_A;
        if (LEN_A > 0) e.s[0] = c[0];
        if (LEN_A > 1) e.s[1] = c[1];
        m_to_array(m); m_push(m, e);
        if (w == 1 && LEN_A > 0) s.Storage()[0] ^= 1;
    }
#elif OP == OP_AP_PTR || OP == OP_SET_PTR
    {
        mk<SrcC>(ss, sst, sm, stm, src, srct);     // the new target (a document of its own)
        MN e; mn_clear(e);
#if SEL == 0
        const V *p = src;
        e.k = T::ValuePtr; e.tgt = &sm;
#else
        const V *p = nullptr;
#endif
#if OP == OP_AP_PTR
        v->AddPointerToValue(p);
        m_to_array(m); m_push(m, e);
#else
#if SEL == 0
        v->SetPointerToValue(p);
        m_clear(m); m.n = e;
#else
        // finding C12-setptr-null: a null pointer clears the payload but leaves the kind tag (a ValuePtr then holds a null
        // target).  AddPointerToValue(nullptr) shows the intent: the value becomes Undefined.
#if defined(KF_EXCL_C12_setptr_null)
        if (PRE_K == 0)
#endif
        {
            v->SetPointerToValue(p);
            m_clear(m);
        }
#endif
#endif
        obs_doc(*src, sm);
    }
#elif OP == OP_INDEX
    {
        const unsigned w = W;
        V *r;
        if ((w & 3) == 0) r = &((*v)[SizeT(IDX)]); else if ((w & 3) == 1) r = &((*v)[int(IDX)]); else r = &((*v)[u64(IDX)]);
        MN a;
        unsigned w2 = vf_u8();
        if (m.n.k == T::Object && m.n.holes == 0 && IDX < m.n.cnt) {      // an object's live slot: that member
            vf_assert(r == v->GetObject()->GetValue(SizeT(IDX)), 331);
            obs_node(*r, m.o[IDX].v);
            scalar_arg<3>(*r, a, false, w2);
            m.o[IDX].v = a;
        } else {
            if (!(m.n.k == T::Array && m.n.cnt > IDX)) {     // auto-vivify: becomes an array of IDX+1 members, the new ones Undefined
                m_to_array(m);
                m.n.cnt = IDX + 1;
            }
            vf_assert(r == v->GetArray()->Storage() + IDX, 330);
            obs_node(*r, m.e[IDX]);
            obs_doc(*v, m);
            scalar_arg<3>(*r, a, false, w2);                      // write through the reference
            m.e[IDX] = a;
        }
    }
#elif OP == OP_REMOVE_INDEX
    {
        unsigned w = vf_u8();
        if (w & 1) v->RemoveIndex(SizeT(IDX)); else v->RemoveIndex(int(IDX));
        if (m.n.k == T::Array && IDX < m.n.cnt) mn_clear(m.e[IDX]);
        if (m.n.k == T::Object && IDX < m.n.cnt) mo_remove(m, m.o[IDX].key);     // (queried only while the object has no removed slot)
    }
#elif OP == OP_RESET
    {
        v->Reset();
        m_clear(m);
    }
#elif OP == OP_COMPRESS
    {
        v->Compress();
        if (m.n.k == T::Array) {
            M c; m_clear(c); c.n.k = T::Array;
            for (unsigned i = 0; i < PRE_N; ++i)
                if (m.e[i].k != T::Undefined) m_push(c, m.e[i]);
            m_assign(m, c);
            vf_assert(v->GetArray()->Capacity() == m.n.cnt, 340);   // no spare room left
        }
        if (m.n.k == T::Object) m.n.holes = 0;                      // removed slots are dropped
        for (unsigned i = 0; i < 6; ++i) {                          // nested containers are compressed as well
            if (m.e[i].k == T::Array) { m.e[i].cnt -= m.e[i].holes; m.e[i].holes = 0; }
            if (m.o[i].v.k == T::Array) { m.o[i].v.cnt -= m.o[i].v.holes; m.o[i].v.holes = 0; }
            if (m.e[i].k == T::Object) m.e[i].holes = 0;             // a nested object drops its removed slots as well
            if (m.o[i].v.k == T::Object) m.o[i].v.holes = 0;
        }
    }
#elif OP == OP_REMOVE_KEY
    {
        const char *ks = kstr(KA); const unsigned kl = klen(KA);
        const ST key(ks, SizeT(kl));
        // finding C12-remove-string-key: Remove(const String&) takes the key length from the value's own union storage
        // (string_.Length()), which for an object is its slot count
        const bool bad = (W == 1) && (m.n.k == T::Object) && (v->Size() != kl);
#ifdef KF_ONLY_C12_remove_string_key
        vf_assume(bad);
#endif
#ifdef KF_EXCL_C12_remove_string_key
        if (!bad)
#endif
        {
            if (W == 0) v->Remove(ks, SizeT(kl)); else if (W == 1) v->Remove(key); else v->Remove(ks);
            if (m.n.k == T::Object) mo_remove(m, KA);
        }
    }
#elif OP == OP_GET_KEY
    {
        char c[1];
        c[0] = char(vf_u8());
        unsigned w = vf_u8();
        vf_assume(c[0] >= '0' && c[0] <= '9');
        const unsigned idx = unsigned(c[0] - '0');
        V *p = (w & 1) ? v->GetValue(&c[0], SizeT(1)) : v->GetValue(SVw(&c[0], SizeT(1)));
        const M *mp = &m;
        if (m.n.k == T::ValuePtr) mp = m.n.tgt;
        bool present = false;
        for (unsigned i = 0; i < 2; ++i)
            if (mp->n.k == T::Array && i < mp->n.cnt && i == idx && mp->e[i].k != T::Undefined) present = true;
        if (present) {
            vf_assert(p != nullptr && p == v->GetValue(SizeT(idx)), 350);
        } else {
            vf_assert(p == nullptr, 351);
        }
    }
#elif OP == OP_KEY
    {
        const char *ks = kstr(KA); const unsigned kl = klen(KA);
        V *r;
        if (W == 0) r = &((*v)[ks]);
        else if (W == 1) r = &((*v)[SVw(ks, SizeT(kl))]);
        else if (W == 2) r = &((*v)[ST(ks, SizeT(kl))]);
        else if (W == 3) { const ST key(ks, SizeT(kl)); r = &((*v)[key]); }
        else if (W == 4) r = &(v->Get(ks, SizeT(kl)));
        else r = &(v->Get(SVw(ks, SizeT(kl))));
        m_to_object(m);                                   // anything but an object is replaced by an empty object first
        obs_node(*r, mo_get(m, KA));                      // the existing member, or a fresh Undefined one at the end
        obs_doc(*v, m);
        MN a;
        unsigned w2 = vf_u8();
        scalar_arg<3>(*r, a, false, w2);                  // write through the reference
        mo_get(m, KA) = a;
    }
#elif OP == OP_INSERT
    {
        mk<SrcC>(ss, sst, sm, stm, src, srct);
        v->Insert(SVw(kstr(KA), SizeT(klen(KA))), Memory::Move(*src));
        m_to_object(m);
        mo_get(m, KA) = sm.n;
        vf_assert(src->Type() == T::Undefined, 360);
        if (srct != nullptr) obs_doc(*srct, stm);
    }
#elif OP == OP_AS_OBJ || OP == OP_AP_OBJ
    {
        OT o; M om; Slot s1, s2; MN e;
        m_clear(om); om.n.k = T::Object;
        if (AN > 0) { V *x = mk_leaf<5, 1>(s1, e); o.Insert(ST("a", SizeT(1)), Memory::Move(*x)); x->~V(); mo_get(om, 1) = e; }
        if (AN > 1) { V *x = mk_leaf<5, 1>(s2, e); o.Insert(ST("b", SizeT(1)), Memory::Move(*x)); x->~V(); mo_get(om, 2) = e; }
        if (AN == 0) { o.Insert(ST("a", SizeT(1)), V(1u)); o.Reset(); }     // an empty hash array with explicitly written fields
#if OP == OP_AS_OBJ
        if (W & 1) *v = Memory::Move(o); else *v = (const OT &)o;
        m_assign(m, om);
#else
        if (W & 1) *v += Memory::Move(o); else *v += (const OT &)o;
        if (m.n.k == T::Object) mo_merge(m, om); else { m_to_array(m); m_push(m, om.n); }   // merged by key, or appended as one member
#endif
        if (W & 1) {
            vf_assert(o.Size() == 0 && o.Capacity() == 0, 361);
        } else {
            vf_assert(o.Size() == AN, 362);
            if (AN > 0) { V *p = o.GetValue(SizeT(0)); vf_assert(p != nullptr && p->Type() == T::UIntLong, 363); *p = nullptr; }
        }
    }
#elif OP == OP_AP_ELEM
    {
        V *e0 = v->GetValue(SizeT(0));     // PRE is an array whose first member is defined
        const MN me = m.e[0];
#if SEL == 0
        *v += (const V &)*e0;
        m_push(m, me);
#else
        // finding C12-append-moved-member: when the array has to grow, Array::operator+=(Type_T&&) releases the old storage
        // before it moves `item` out of it (the const& overload copies first)
        const bool grows = (v->GetArray()->Size() == v->GetArray()->Capacity());
#ifdef KF_ONLY_C12_append_moved_member
        vf_assume(grows);
#endif
#ifdef KF_EXCL_C12_append_moved_member
        if (!grows)
#endif
        {
            *v += Memory::Move(*e0);
            mn_clear(m.e[0]);
            m_push(m, me);
        }
#endif
    }
#endif

#ifndef KF_ONLY_C12_ctor_payload_uninit   // (that finding corrupts the value: the operation itself is the counterexample, nothing is observed after it)
    obs_doc(*v, m);
    if (t != nullptr) obs_doc(*t, tm);
    if (src != nullptr) src->~V();
    if (srct != nullptr) srct->~V();
    v->~V();
    if (t != nullptr) t->~V();
    slot_scrub(sv); slot_scrub(st); slot_scrub(ss); slot_scrub(sst);   // no stale pointer keeps a leaked block "reachable" for LeakSanitizer
#endif
    vf_witness();
}

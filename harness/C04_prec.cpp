// C04 (b): operator precedence, modular.
//  * h_tree / h_doc / h_fail: the REAL TemplateCore::evaluate (Template.hpp:1406-1438) walks a REAL Array<QExpression> of K items
//    built by the harness (every operator symbolic).  Its two callees are replaced by harness functions (ll2c stubs):
//      GetExpressionValue -> fn_gev: hands out the item's payload (each item fetched exactly once, in order);
//      evaluateExpression -> the binary kernel under test mode:
//        h_tree  INJECTIVE TREE ENCODER: the "value" of an operation is the prefix code of (operator, left, right).  The result of
//                evaluate() must be the code of exactly the tree that textbook precedence climbing builds with the rank table
//                "rank(op) = QOperation code" (one rank per operator, equal operators associate to the left).  This table refines
//                the documented order: documented level a above level b  =>  every rank in a > every rank in b (checked: h_rank).
//        h_doc   exact integer arithmetic on small operands; the result must equal an independent evaluator using the DOCUMENTED
//                six levels (power remainder | multiply divide | add subtract | bitwise | comparisons | and or), left to right
//                inside a level - on the fragment where the documentation is unambiguous (see ambiguous()).
//        h_fail  the kernel fails at an arbitrary call: evaluate() yields "no value" and stops calling the kernel.
//  * h_gev: the REAL GetExpressionValue (Template.hpp:1440-1498) on one item of every type with evaluate stubbed: numbers and
//    text are copied, a parenthesised item is evaluated from its first sub-item with no pending operator, a variable is
//    converted with SetNumber (not next to == / !=), a lone variable is "non-empty string" truth.
//    Induction over nesting: a parenthesised item behaves as a leaf carrying the value of its own list.
// The arithmetic kernels themselves are layer (a) (C04_kernels.cpp).  Defines: K, VB.
#include "sym_value.hpp"
#include "fixed_stream.hpp"
#include "Template.hpp"
#include "vf.h"
using namespace Qentem;
typedef char C;
typedef TemplateCore<C, SymValue<C>, FixedStream<C, 8>> TC;
typedef QExpression QE; typedef QExpression::ExpressionType ET; typedef QExpression::QOperation OP;
typedef unsigned long long u64; typedef long long i64;
#ifndef K
#define K 3
#endif
#ifndef VB
#define VB 2
#endif
#define NOPS 16u

// ------------------------------------------------------------------ the list
static unsigned top_op[K];
static u64      top_val[K];
static unsigned pick_op() { unsigned o = vf_u8(); vf_assume(o >= 1 && o <= NOPS); return o; }
static void pick_list() {
    for (unsigned i = 0; i < K; i++) { top_val[i] = vf_u8() & ((1u << VB) - 1u); top_op[i] = 0; if (i + 1 < K) top_op[i] = pick_op(); }
}
// item payload: (number, aux) stored in Value.Number.Natural / Value.Offset
struct Pay { u64 n; unsigned aux; };
static void fill(QE &e, Pay p, unsigned op) { e.Type = ET::NaturalNumber; e.Value.Number.Natural = p.n; e.Value.Offset = p.aux; e.Operation = OP(op); }
alignas(8) static unsigned char g_arr_mem[sizeof(Array<QE>)];
static const QE *g_first; static unsigned g_fetch_mask; static bool g_fetch_bad;
// evaluate() takes a plain pointer into the list: the items live in a typed local array of the harness (no heap; the real
// Array<QExpression> made the K = 3 query take minutes)
template <typename F> static void build(QE *items, F leaf) {
    for (unsigned i = 0; i < K; i++) fill(items[i], leaf(i, top_val[i]), top_op[i]);
    g_first = items; g_fetch_mask = 0; g_fetch_bad = false;
}
// stand-in for GetExpressionValue inside the precedence queries: copy the payload; log which item was fetched
extern "C" bool fn_gev(const TC *self, QE *result, const QE *expr, unsigned char op) {
    unsigned idx = unsigned(expr - g_first);
    if (idx >= K || (g_fetch_mask & (1u << idx)) != 0) g_fetch_bad = true;     // inside the list, never twice
    g_fetch_mask = g_fetch_mask | (1u << idx);
    result->Value = expr->Value; result->Type = expr->Type;
    return true;
}

// ------------------------------------------------------------------ tree mode
struct Enc { u64 bits; unsigned len; };
static Enc enc_leaf(unsigned id) { Enc e; e.bits = 1u | (id << 1); e.len = 4; return e; }                    // 1 iii   (K <= 7: 7*4 + 6*6 = 64 bits)
static Enc enc_node(unsigned op, Enc l, Enc r) {                                                             // 0 ooooo <l> <r>
    Enc e; e.bits = (u64)(op << 1) | (l.bits << 6) | (r.bits << (6 + l.len)); e.len = 6 + l.len + r.len; return e;
}
static unsigned g_calls, g_fail_at; static bool g_after_fail;
extern "C" bool fn_tree(const TC *self, QE *l, QE *r, unsigned char op) {
    Enc a, b; a.bits = l->Value.Number.Natural; a.len = l->Value.Offset; b.bits = r->Value.Number.Natural; b.len = r->Value.Offset;
    Enc n = enc_node(op, a, b);
    l->Value.Number.Natural = n.bits; l->Value.Offset = n.len; l->Type = ET::NaturalNumber;
    g_calls = g_calls + 1;
    return true;
}
extern "C" bool fn_fail(const TC *self, QE *l, QE *r, unsigned char op) {
    if (g_calls > g_fail_at) g_after_fail = true;
    bool ok = (g_calls != g_fail_at);
    g_calls = g_calls + 1;
    l->Type = ET::NaturalNumber;
    return ok;
}
#define RANK_FINE(o) (o)
static unsigned doc_level(unsigned o) { return (o <= 2) ? 1u : ((o <= 8) ? 2u : ((o <= 10) ? 3u : ((o <= 12) ? 4u : ((o <= 14) ? 5u : 6u)))); }
// textbook precedence climbing over (prim[0..n), ops[0..n-1)); ops[i] follows prim[i]; equal ranks associate to the left
static Enc climb_tree(const unsigned *ops, const Enc *prim, unsigned n, unsigned &i, unsigned min_rank) {
    Enc lhs = prim[i];
    while (i + 1 < n && RANK_FINE(ops[i]) >= min_rank) {
        unsigned op = ops[i]; i = i + 1;
        Enc rhs = climb_tree(ops, prim, n, i, RANK_FINE(op) + 1);
        lhs = enc_node(op, lhs, rhs);
    }
    return lhs;
}
extern "C" void h_tree() {
    pick_list();
    QE items[K]; const QE *first = items;
    build(items, [](unsigned id, u64 v) { Enc e = enc_leaf(id); Pay p; p.n = e.bits; p.aux = e.len; return p; });
    TC tc{nullptr, 0};
    const QE *expr = first; QE result;
    g_calls = 0;
    bool ok = tc.evaluate(result, expr, OP::NoOp);
    // reference
    Enc tp[K];
    for (unsigned i = 0; i < K; i++) tp[i] = enc_leaf(i);
    unsigned ti = 0; Enc want = climb_tree(top_op, tp, K, ti, 0);
    vf_assert(ok, 1);
    vf_assert(result.Value.Number.Natural == want.bits && result.Value.Offset == want.len, 2);      // the same tree
    vf_assert(g_calls == K - 1 && !g_fetch_bad && g_fetch_mask == (1u << K) - 1u, 3);               // every operator applied once, every item fetched once
    vf_assert(expr == first + (K - 1), 4);                                                    // cursor on the last item
    vf_witness();
}
extern "C" void h_fail() {
    pick_list();
    QE items[K]; const QE *first = items;
    build(items, [](unsigned id, u64 v) { Pay p; p.n = v; p.aux = 0; return p; });
    TC tc{nullptr, 0};
    const QE *expr = first; QE result;
    g_calls = 0; g_after_fail = false; g_fail_at = vf_u8();
    const unsigned total = K - 1;
    vf_assume(g_fail_at < total);
    bool ok = tc.evaluate(result, expr, OP::NoOp);
    vf_assert(!ok, 1);                       // one undefined operation anywhere: the whole expression has no value
    vf_assert(!g_after_fail, 2);             // and nothing is evaluated after it
    vf_witness();
}

// ------------------------------------------------------------------ documented-order mode (exact small-integer arithmetic)
static bool g_unsupported;                  // an operation outside the integer fragment was requested (assumed away)
// 32-bit arithmetic (cheap to bit-blast); anything that could leave the range is flagged and assumed away
typedef int i32;
static unsigned mag(i32 v) { return v < 0 ? (unsigned)(0 - v) : (unsigned)v; }
static bool arith(unsigned op, i32 a, i32 b, i32 &out) {   // false = no value
    bool ta = a > 0, tb = b > 0;
    if (mag(a) > 0xFFFFFu || mag(b) > 0xFFFFFu) g_unsupported = true;
    switch (op) {
        case 1: out = (ta || tb); return true;
        case 2: out = (ta && tb); return true;
        case 3: out = (a == b); return true;
        case 4: out = (a != b); return true;
        case 5: out = (a >= b); return true;
        case 6: out = (a <= b); return true;
        case 7: out = (a > b); return true;
        case 8: out = (a < b); return true;
        case 9: out = (a | b); return true;
        case 10: out = (a & b); return true;
        case 11: out = a + b; return true;
        case 12: out = a - b; return true;
        case 13: if (mag(a) > 0x3FFu || mag(b) > 0x3FFu) g_unsupported = true; out = a * b; return true;
        case 15: if (b == 0) return false; out = a % b; return true;
        case 16: {
            if (b < 0 || b > 4 || mag(a) > 31u || (a == 0 && b == 0)) { g_unsupported = true; out = 0; return true; }
            i32 v = 1; i32 i = 0; while (i < b) { v = v * a; ++i; } out = v; return true;
        }
        default: g_unsupported = true; out = 0; return true;      // real division is not part of the integer fragment
    }
}
extern "C" bool fn_arith(const TC *self, QE *l, QE *r, unsigned char op) {
    i32 out = 0; bool ok = arith(op, (i32)l->Value.Number.Integer, (i32)r->Value.Number.Integer, out);
    l->Value.Number.Integer = (i64)out; l->Type = ET::IntegerNumber;
    g_calls = g_calls + 1;
    return ok;
}
struct DV { i32 v; i32 ok; };     // no padding: ll2c widens the i24 padding copy to a 4-byte load (spurious out-of-bounds)
static DV climb_doc(const unsigned *ops, const DV *prim, unsigned n, unsigned &i, unsigned min_level) {
    DV lhs = prim[i];
    while (i + 1 < n && doc_level(ops[i]) >= min_level) {
        unsigned op = ops[i]; i = i + 1;
        DV rhs = climb_doc(ops, prim, n, i, doc_level(op) + 1);
        i32 out = 0; bool ok = arith(op, lhs.v, rhs.v, out);
        lhs.ok = (lhs.ok != 0 && rhs.ok != 0 && ok) ? 1 : 0; lhs.v = out;
    }
    return lhs;
}
// inside one documented level the documentation does not say how DIFFERENT operators group; for + - (and * alone) every
// grouping has the same exact value, for the other levels it has not: such lists are outside this query (open question)
static bool ambiguous(const unsigned *ops, unsigned n) {
    bool amb = false;
    for (unsigned i = 0; i + 1 < n; i++)
        for (unsigned j = i + 1; j + 1 < n; j++)
            if (ops[i] != ops[j] && doc_level(ops[i]) == doc_level(ops[j]) && doc_level(ops[i]) != 4) amb = true;
    return amb;
}
extern "C" void h_doc() {
    pick_list();
    vf_assume(!ambiguous(top_op, K));
    QE items[K]; const QE *first = items;
    build(items, [](unsigned id, u64 v) { Pay p; p.n = v; p.aux = 0; return p; });
    TC tc{nullptr, 0};
    const QE *expr = first; QE result;
    g_calls = 0; g_unsupported = false;
    bool ok = tc.evaluate(result, expr, OP::NoOp);
    DV tp[K];
    for (unsigned i = 0; i < K; i++) { tp[i].v = (i32)top_val[i]; tp[i].ok = 1; }
    unsigned ti = 0; DV want = climb_doc(top_op, tp, K, ti, 0);
    vf_assume(!g_unsupported);
    vf_assert(ok == (want.ok != 0), 1);
    if (ok) vf_assert(result.Value.Number.Integer == (i64)want.v, 2);
    vf_witness();
}

// ------------------------------------------------------------------ the documented order is refined by the rank table
extern "C" void h_rank() {
    unsigned a = pick_op(); unsigned b = pick_op();
    if (doc_level(a) > doc_level(b)) vf_assert(RANK_FINE(a) > RANK_FINE(b), 1);
    vf_witness();
}

// ------------------------------------------------------------------ GetExpressionValue alone (evaluate stubbed)
#ifndef ITYPE
#define ITYPE 2
#endif
static const QE *g_ev_expr; static unsigned g_ev_prev, g_ev_calls; static bool g_ev_ret; static u64 g_ev_val;
extern "C" bool fn_evaluate(const TC *self, QE *left, const QE **expr, unsigned char prev) {
    g_ev_expr = *expr; g_ev_prev = prev; g_ev_calls = g_ev_calls + 1;
    left->Type = ET::NaturalNumber; left->Value.Number.Natural = g_ev_val;
    return g_ev_ret;
}
static SymValue<C> g_root, g_ka;
extern "C" void h_gev() {
    unsigned oper = vf_u8(); vf_assume(oper <= NOPS);            // the operator the value is fetched for
    unsigned own = vf_u8(); vf_assume(own <= NOPS);              // the item's own pending operator
    u64 bits = vf_u64(); unsigned off = vf_u32(); unsigned len = vf_u32();
    C *content = vf_buf<C>(1); content[0] = C('a');
    g_ka.ntype = QNumberType(vf_u8() & 3); g_ka.stype = QNumberType(vf_u8() & 3); g_ka.bits = vf_u64();
    g_ka.has_text = vf_u8() & 1; g_ka.is_string = vf_u8() & 1; g_ka.text = content; g_ka.text_len = vf_u8() & 1;
    vf_assume(sym_value_consistent(g_ka));
    bool missing = vf_u8() & 1;
    g_root.kid_a = missing ? nullptr : &g_ka;
    g_ev_calls = 0; g_ev_ret = vf_u8() & 1; g_ev_val = vf_u64();
    Array<QE> &arr = *new (g_arr_mem) Array<QE>{SizeT(1)};
    if (ITYPE == 6) {
        Array<QE> sub{SizeT(1)};
        QE leaf; Pay p; p.n = bits; p.aux = off; fill(leaf, p, 0); sub += Memory::Move(leaf);
        arr += QE{Memory::Move(sub), OP(own)};
    } else if (ITYPE == 5) {
        QE e{ET::Variable, OP(own)}; e.Variable.Offset = 0; e.Variable.Length = 1; e.Variable.IDLength = 0; e.Variable.Level = 0;
        arr += Memory::Move(e);
    } else {
        QE e; e.Type = ET(ITYPE); e.Operation = OP(own); e.Value.Number.Natural = bits; e.Value.Offset = off; e.Value.Length = len;
        arr += Memory::Move(e);
    }
    const QE *item = arr.First();
    TC tc{content, 1}; tc.value_ = &g_root;
    QE result;
    bool ok = tc.GetExpressionValue(result, item, OP(oper));
    if (ITYPE == 6) {
        vf_assert(g_ev_calls == 1 && g_ev_expr == item->SubExpressions.First() && g_ev_prev == 0, 1);   // its own list, from the start, nothing pending
        vf_assert(ok == g_ev_ret && result.Value.Number.Natural == g_ev_val, 2);
    } else if (ITYPE == 5) {
        vf_assert(g_ev_calls == 0, 3);
        if (oper != 3 && oper != 4) {
            bool conv = !missing && g_ka.stype != QNumberType::NotANumber;
            if (conv) vf_assert(ok && unsigned(result.Type) == unsigned(g_ka.stype) && result.Value.Number.Natural == g_ka.bits, 4);
            else if (oper == 0 && own == 0)                       // a lone variable: "is a non-empty string"
                vf_assert(ok && result.Type == ET::NaturalNumber &&
                          result.Value.Number.Natural == ((!missing && g_ka.is_string && g_ka.text_len != 0) ? 1ULL : 0ULL), 5);
            else vf_assert(!ok, 6);                               // not a number inside arithmetic: no value
        } else vf_assert(ok && result.Type == ET::Variable && result.Variable.Offset == 0 && result.Variable.Length == 1, 7);   // left to isEqual
    } else {
        vf_assert(g_ev_calls == 0, 8);
        vf_assert(ok && unsigned(result.Type) == ITYPE && result.Value.Number.Natural == bits && result.Value.Offset == off && result.Value.Length == len, 9);
    }
    vf_witness();
}

// ================================================================== ONE FRAME of evaluate() against the contract of its recursive call
// evaluate(left, expr = item i, prev = p), called only with p == NoOp or p < op(i) (a caller descends only to a higher rank):
//   consumes items i .. j where j is the first index >= i whose pending operator is <= p (the last item's NoOp always is),
//   leaves expr on item j and left = TREE(i..j), the precedence-climbing tree of that stretch under rank(op) = QOperation code.
// The frame under test runs the REAL body; its recursive call (Template.hpp:1425) is replaced by fn_eval_contract (ll2c self_stub),
// which asserts the precondition and delivers exactly that postcondition.  Every K' <= K is a query, so by induction on the
// number of items the contract holds for the real recursion, for lists of up to K items and every starting rank.
static unsigned g_ops[K];
static unsigned first_leq(unsigned from, unsigned p) { unsigned t = from; while (t + 1 < K && g_ops[t] > p) ++t; return t; }   // g_ops[K-1] == 0
// shunting yard over items i..j (pending operator of j ignored); equal ranks pop: left associative
static Enc ref_tree(unsigned i, unsigned j) {
    Enc vs[K + 1]; unsigned os[K + 1]; unsigned nv = 0, no = 0;
    for (unsigned t = i; t <= j; t++) {
        vs[nv] = enc_leaf(t); ++nv;
        unsigned op = (t == j) ? 0u : g_ops[t];
        while (no > 0 && os[no - 1] >= op) { Enc r = vs[nv - 1]; Enc l = vs[nv - 2]; nv = nv - 2; no = no - 1; vs[nv] = enc_node(os[no], l, r); ++nv; }
        os[no] = op; ++no;
    }
    return vs[0];
}
static bool g_pre_bad; static unsigned g_rec_calls;
extern "C" bool fn_eval_contract(const TC *self, QE *left, const QE **expr, unsigned char prev) {
    unsigned i = unsigned(*expr - g_first);
    if (i >= K || prev == 0 || !(prev < g_ops[i])) g_pre_bad = true;       // pre: inside the list, descending to a higher rank
    if (i >= K) i = K - 1;
    unsigned j = first_leq(i, prev);
    Enc t = ref_tree(i, j);
    left->Value.Number.Natural = t.bits; left->Value.Offset = t.len; left->Type = ET::NaturalNumber;
    for (unsigned u = i; u <= j; u++) { if (g_fetch_mask & (1u << u)) g_fetch_bad = true; g_fetch_mask = g_fetch_mask | (1u << u); }   // it fetches its items
    *expr = g_first + j;
    if (g_calls > g_fail_at) g_after_fail = true;
    bool ok = (g_calls != g_fail_at);
    g_calls = g_calls + 1; g_rec_calls = g_rec_calls + 1;
    return ok;
}
extern "C" bool fn_tree_f(const TC *self, QE *l, QE *r, unsigned char op) {   // tree kernel that can be told to fail at one call
    Enc a, b; a.bits = l->Value.Number.Natural; a.len = l->Value.Offset; b.bits = r->Value.Number.Natural; b.len = r->Value.Offset;
    Enc n = enc_node(op, a, b);
    l->Value.Number.Natural = n.bits; l->Value.Offset = n.len; l->Type = ET::NaturalNumber;
    if (g_calls > g_fail_at) g_after_fail = true;
    bool ok = (g_calls != g_fail_at);
    g_calls = g_calls + 1;
    return ok;
}
// the frame's own chain under the CORRECT rule; true when, right after a nested stretch, the next operator belongs to the caller
// (0 < op <= p) - the situation in which the engine carries on instead of returning (finding C04-prec-return)
static bool frame_hits_finding(unsigned p) {
    unsigned t = 0; bool hit = false; unsigned guard = 0;
    while (guard < K && g_ops[t] > p) {
        if (g_ops[t] >= g_ops[t + 1]) t = t + 1;                          // g_ops[t] > p >= 0: t is not the last item
        else { t = first_leq(t + 1, g_ops[t]); if (g_ops[t] != 0 && g_ops[t] <= p) { hit = true; break; } }
        ++guard;
    }
    return hit;
}
extern "C" void h_frame() {
    unsigned p = vf_u8(); vf_assume(p <= NOPS);
    pick_list();
    for (unsigned i = 0; i < K; i++) g_ops[i] = top_op[i];
    vf_assume(p == 0 || p < g_ops[0]);                                    // pre
    bool hit = frame_hits_finding(p);
#ifdef KF_EXCL_C04_prec_return
    vf_assume(!hit);
#endif
#ifdef KF_ONLY_C04_prec_return
    vf_assume(hit);
    for (unsigned i = 0; i < K; i++) vf_assume(g_ops[i] != 15);          // keep x % 0 (a different finding, a trap) out of the native replay
#endif
#ifdef WITH_FAILURE
    g_fail_at = vf_u8();
#else
    g_fail_at = 0xFFFFu;
#endif
    QE items[K]; const QE *first = items;
    build(items, [](unsigned id, u64 v) { Enc e = enc_leaf(id); Pay q; q.n = e.bits; q.aux = e.len; return q; });
    TC tc{nullptr, 0};
    const QE *expr = first; QE result;
    g_calls = 0; g_rec_calls = 0; g_after_fail = false; g_pre_bad = false;
    bool ok = tc.evaluate(result, expr, OP(p));
    unsigned J = first_leq(0, p);
    Enc want = ref_tree(0, J);
    vf_assert(!g_pre_bad, 1);                                             // recursive calls respect the precondition
#ifdef WITH_FAILURE
    if (g_fail_at < g_calls) { vf_assert(!ok, 6); vf_assert(!g_after_fail, 7); }   // an undefined operation anywhere: no value, nothing evaluated after it
    else {
#endif
    vf_assert(ok, 2);
    vf_assert(expr == first + J, 3);                                      // stops on the first operator that belongs to the caller
    vf_assert(result.Value.Number.Natural == want.bits && result.Value.Offset == want.len, 4);   // with exactly the climbing tree
    vf_assert(!g_fetch_bad && g_fetch_mask == (1u << (J + 1)) - 1u, 5);   // every item of the stretch fetched exactly once, none beyond
#ifdef WITH_FAILURE
    }
#endif
    vf_witness();
}

// ------------------------------------------------------------------ rank table vs documented levels, as values (no engine code)
// On every list where the documentation is unambiguous (see ambiguous()), grouping by the engine's rank table and grouping by the
// six documented levels (left to right inside a level) give the same exact value / the same "no value".
static DV yard(bool fine) {
    DV vs[K + 1]; unsigned os[K + 1]; unsigned nv = 0, no = 0;
    for (unsigned t = 0; t < K; t++) {
        vs[nv].v = (i32)top_val[t]; vs[nv].ok = 1; ++nv;
        unsigned op = top_op[t];
        unsigned rk = (op == 0) ? 0u : (fine ? op : doc_level(op));
        while (no > 0 && ((os[no - 1] == 0) ? 0u : (fine ? os[no - 1] : doc_level(os[no - 1]))) >= rk) {
            DV r = vs[nv - 1]; DV l = vs[nv - 2]; nv = nv - 2; no = no - 1;
            i32 out = 0; bool ok = arith(os[no], l.v, r.v, out);
            vs[nv].v = out; vs[nv].ok = (l.ok != 0 && r.ok != 0 && ok) ? 1 : 0; ++nv;
        }
        os[no] = op; ++no;
    }
    return vs[0];
}
extern "C" void h_docfine() {
    pick_list();
    vf_assume(!ambiguous(top_op, K));
    g_unsupported = false;
    DV a = yard(true); DV b = yard(false);
    vf_assume(!g_unsupported);
    vf_assert((a.ok != 0) == (b.ok != 0), 1);
    if (a.ok != 0) vf_assert(a.v == b.v, 2);
    vf_witness();
}

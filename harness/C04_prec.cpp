// C04 (b): operator precedence, modular.
//  * h_tree / h_doc / h_fail: the REAL TemplateCore::evaluate (Template.hpp:1406-1438) walks a REAL Array<QExpression> of K items
//    built by the harness (every operator symbolic).  Its two callees are replaced by harness functions (ll2c stubs):
//      GetExpressionValue -> fn_gev: hands out the item's payload (each item fetched exactly once, in order);
//      evaluateExpression -> the binary kernel under test mode:
//        h_tree  INJECTIVE TREE ENCODER: the "value" of an operation is the prefix code of (operator, left, right).  The result of
//                evaluate() must be the code of exactly the tree that textbook precedence climbing builds with the rank table
//                "rank(op) = QOperation code" (one rank per operator, equal operators associate to the left).  This table refines
//                the documented order: documented level a above level b  =>  every rank in a > every rank in b (checked: h_rank).
//        h_doc   exact integer arithmetic on small operands; the result must equal an independent evaluator using the DOCUMENTED
//                six levels (power remainder | multiply divide | add subtract | bitwise | comparisons | and or), left to right
//                inside a level - on the fragment where the documentation is unambiguous (see ambiguous()).
//        h_fail  the kernel fails at an arbitrary call: evaluate() yields "no value" and stops calling the kernel.
//  * h_gev: the REAL GetExpressionValue (Template.hpp:1440-1498) on one item of every type with evaluate stubbed: numbers and
//    text are copied, a parenthesised item is evaluated from its first sub-item with no pending operator, a variable is
//    converted with SetNumber (not next to == / !=), a lone variable is "non-empty string" truth.
//    Induction over nesting: a parenthesised item behaves as a leaf carrying the value of its own list.
// The arithmetic kernels themselves are layer (a) (C04_kernels.cpp).  Defines: K, VB.
#include "sym_value.hpp"
#include "fixed_stream.hpp"
#include "Template.hpp"
#include "vf.h"
using namespace Qentem;
typedef char C;
typedef TemplateCore<C, SymValue<C>, FixedStream<C, 8>> TC;
typedef QExpression QE; typedef QExpression::ExpressionType ET; typedef QExpression::QOperation OP;
typedef unsigned long long u64; typedef long long i64;
#ifndef K
#define K 3
#endif
#ifndef VB
#define VB 2
#endif
#define NOPS 16u

// ------------------------------------------------------------------ the list
static unsigned top_op[K];
static u64      top_val[K];
static unsigned pick_op() { unsigned o = vf_u8(); vf_assume(o >= 1 && o <= NOPS); return o; }
static void pick_list() {
    for (unsigned i = 0; i < K; i++) { top_val[i] = vf_u8() & ((1u << VB) - 1u); top_op[i] = 0; if (i + 1 < K) top_op[i] = pick_op(); }
}
// item payload: (number, aux) stored in Value.Number.Natural / Value.Offset
struct Pay { u64 n; unsigned aux; };
static void fill(QE &e, Pay p, unsigned op) { e.Type = ET::NaturalNumber; e.Value.Number.Natural = p.n; e.Value.Offset = p.aux; e.Operation = OP(op); }
alignas(8) static unsigned char g_arr_mem[sizeof(Array<QE>)];
static const QE *g_first; static unsigned g_fetch_mask; static bool g_fetch_bad;
// evaluate() takes a plain pointer into the list: the items live in a typed local array of the harness (no heap; the real
// Array<QExpression> made the K = 3 query take minutes)
template <typename F> static void build(QE *items, F leaf) {
    for (unsigned i = 0; i < K; i++) fill(items[i], leaf(i, top_val[i]), top_op[i]);
    g_first = items; g_fetch_mask = 0; g_fetch_bad = false;
}
// stand-in for GetExpressionValue inside the precedence queries: copy the payload; log which item was fetched
extern "C" bool fn_gev(const TC *self, QE *result, const QE *expr, unsigned char op) {
    unsigned idx = unsigned(expr - g_first);
    if (idx >= K || (g_fetch_mask & (1u << idx)) != 0) g_fetch_bad = true;     // inside the list, never twice
    g_fetch_mask = g_fetch_mask | (1u << idx);
    result->Value = expr->Value; result->Type = expr->Type;
    return true;
}

// ------------------------------------------------------------------ tree mode
struct Enc { u64 bits; unsigned len; };
static Enc enc_leaf(unsigned id) { Enc e; e.bits = 1u | (id << 1); e.len = 5; return e; }                    // 1 iiii
static Enc enc_node(unsigned op, Enc l, Enc r) {                                                             // 0 ooooo <l> <r>
    Enc e; e.bits = (u64)(op << 1) | (l.bits << 6) | (r.bits << (6 + l.len)); e.len = 6 + l.len + r.len; return e;
}
static unsigned g_calls, g_fail_at; static bool g_after_fail;
extern "C" bool fn_tree(const TC *self, QE *l, QE *r, unsigned char op) {
    Enc a, b; a.bits = l->Value.Number.Natural; a.len = l->Value.Offset; b.bits = r->Value.Number.Natural; b.len = r->Value.Offset;
    Enc n = enc_node(op, a, b);
    l->Value.Number.Natural = n.bits; l->Value.Offset = n.len; l->Type = ET::NaturalNumber;
    g_calls = g_calls + 1;
    return true;
}
extern "C" bool fn_fail(const TC *self, QE *l, QE *r, unsigned char op) {
    if (g_calls > g_fail_at) g_after_fail = true;
    bool ok = (g_calls != g_fail_at);
    g_calls = g_calls + 1;
    l->Type = ET::NaturalNumber;
    return ok;
}
#define RANK_FINE(o) (o)
static unsigned doc_level(unsigned o) { return (o <= 2) ? 1u : ((o <= 8) ? 2u : ((o <= 10) ? 3u : ((o <= 12) ? 4u : ((o <= 14) ? 5u : 6u)))); }
// textbook precedence climbing over (prim[0..n), ops[0..n-1)); ops[i] follows prim[i]; equal ranks associate to the left
static Enc climb_tree(const unsigned *ops, const Enc *prim, unsigned n, unsigned &i, unsigned min_rank) {
    Enc lhs = prim[i];
    while (i + 1 < n && RANK_FINE(ops[i]) >= min_rank) {
        unsigned op = ops[i]; i = i + 1;
        Enc rhs = climb_tree(ops, prim, n, i, RANK_FINE(op) + 1);
        lhs = enc_node(op, lhs, rhs);
    }
    return lhs;
}
extern "C" void h_tree() {
    pick_list();
    QE items[K]; const QE *first = items;
    build(items, [](unsigned id, u64 v) { Enc e = enc_leaf(id); Pay p; p.n = e.bits; p.aux = e.len; return p; });
    TC tc{nullptr, 0};
    const QE *expr = first; QE result;
    g_calls = 0;
    bool ok = tc.evaluate(result, expr, OP::NoOp);
    // reference
    Enc tp[K];
    for (unsigned i = 0; i < K; i++) tp[i] = enc_leaf(i);
    unsigned ti = 0; Enc want = climb_tree(top_op, tp, K, ti, 0);
    vf_assert(ok, 1);
    vf_assert(result.Value.Number.Natural == want.bits && result.Value.Offset == want.len, 2);      // the same tree
    vf_assert(g_calls == K - 1 && !g_fetch_bad && g_fetch_mask == (1u << K) - 1u, 3);               // every operator applied once, every item fetched once
    vf_assert(expr == first + (K - 1), 4);                                                    // cursor on the last item
    vf_witness();
}
extern "C" void h_fail() {
    pick_list();
    QE items[K]; const QE *first = items;
    build(items, [](unsigned id, u64 v) { Pay p; p.n = v; p.aux = 0; return p; });
    TC tc{nullptr, 0};
    const QE *expr = first; QE result;
    g_calls = 0; g_after_fail = false; g_fail_at = vf_u8();
    const unsigned total = K - 1;
    vf_assume(g_fail_at < total);
    bool ok = tc.evaluate(result, expr, OP::NoOp);
    vf_assert(!ok, 1);                       // one undefined operation anywhere: the whole expression has no value
    vf_assert(!g_after_fail, 2);             // and nothing is evaluated after it
    vf_witness();
}

// ------------------------------------------------------------------ documented-order mode (exact small-integer arithmetic)
static bool g_unsupported;                  // an operation outside the integer fragment was requested (assumed away)
// 32-bit arithmetic (cheap to bit-blast); anything that could leave the range is flagged and assumed away
typedef int i32;
static unsigned mag(i32 v) { return v < 0 ? (unsigned)(0 - v) : (unsigned)v; }
static bool arith(unsigned op, i32 a, i32 b, i32 &out) {   // false = no value
    bool ta = a > 0, tb = b > 0;
    if (mag(a) > 0xFFFFFu || mag(b) > 0xFFFFFu) g_unsupported = true;
    switch (op) {
        case 1: out = (ta || tb); return true;
        case 2: out = (ta && tb); return true;
        case 3: out = (a == b); return true;
        case 4: out = (a != b); return true;
        case 5: out = (a >= b); return true;
        case 6: out = (a <= b); return true;
        case 7: out = (a > b); return true;
        case 8: out = (a < b); return true;
        case 9: out = (a | b); return true;
        case 10: out = (a & b); return true;
        case 11: out = a + b; return true;
        case 12: out = a - b; return true;
        case 13: if (mag(a) > 0x3FFu || mag(b) > 0x3FFu) g_unsupported = true; out = a * b; return true;
        case 15: if (b == 0) return false; out = a % b; return true;
        case 16: {
            if (b < 0 || b > 4 || mag(a) > 31u || (a == 0 && b == 0)) { g_unsupported = true; out = 0; return true; }
            i32 v = 1; i32 i = 0; while (i < b) { v = v * a; ++i; } out = v; return true;
        }
        default: g_unsupported = true; out = 0; return true;      // real division is not part of the integer fragment
    }
}
extern "C" bool fn_arith(const TC *self, QE *l, QE *r, unsigned char op) {
    i32 out = 0; bool ok = arith(op, (i32)l->Value.Number.Integer, (i32)r->Value.Number.Integer, out);
    l->Value.Number.Integer = (i64)out; l->Type = ET::IntegerNumber;
    g_calls = g_calls + 1;
    return ok;
}
struct DV { i32 v; i32 ok; };     // no padding: ll2c widens the i24 padding copy to a 4-byte load (spurious out-of-bounds)
static DV climb_doc(const unsigned *ops, const DV *prim, unsigned n, unsigned &i, unsigned min_level) {
    DV lhs = prim[i];
    while (i + 1 < n && doc_level(ops[i]) >= min_level) {
        unsigned op = ops[i]; i = i + 1;
        DV rhs = climb_doc(ops, prim, n, i, doc_level(op) + 1);
        i32 out = 0; bool ok = arith(op, lhs.v, rhs.v, out);
        lhs.ok = (lhs.ok != 0 && rhs.ok != 0 && ok) ? 1 : 0; lhs.v = out;
    }
    return lhs;
}
// inside one documented level the documentation does not say how DIFFERENT operators group; for + - (and * alone) every
// grouping has the same exact value, for the other levels it has not: such lists are outside this query (open question)
static bool ambiguous(const unsigned *ops, unsigned n) {
    bool amb = false;
    for (unsigned i = 0; i + 1 < n; i++)
        for (unsigned j = i + 1; j + 1 < n; j++)
            if (ops[i] != ops[j] && doc_level(ops[i]) == doc_level(ops[j]) && doc_level(ops[i]) != 4) amb = true;
    return amb;
}
extern "C" void h_doc() {
    pick_list();
    vf_assume(!ambiguous(top_op, K));
    QE items[K]; const QE *first = items;
    build(items, [](unsigned id, u64 v) { Pay p; p.n = v; p.aux = 0; return p; });
    TC tc{nullptr, 0};
    const QE *expr = first; QE result;
    g_calls = 0; g_unsupported = false;
    bool ok = tc.evaluate(result, expr, OP::NoOp);
    DV tp[K];
    for (unsigned i = 0; i < K; i++) { tp[i].v = (i32)top_val[i]; tp[i].ok = 1; }
    unsigned ti = 0; DV want = climb_doc(top_op, tp, K, ti, 0);
    vf_assume(!g_unsupported);
    vf_assert(ok == (want.ok != 0), 1);
    if (ok) vf_assert(result.Value.Number.Integer == (i64)want.v, 2);
    vf_witness();
}

// ------------------------------------------------------------------ the documented order is refined by the rank table
extern "C" void h_rank() {
    unsigned a = pick_op(); unsigned b = pick_op();
    if (doc_level(a) > doc_level(b)) vf_assert(RANK_FINE(a) > RANK_FINE(b), 1);
    vf_witness();
}

// ------------------------------------------------------------------ GetExpressionValue alone (evaluate stubbed)
#ifndef ITYPE
#define ITYPE 2
#endif
static const QE *g_ev_expr; static unsigned g_ev_prev, g_ev_calls; static bool g_ev_ret; static u64 g_ev_val;
extern "C" bool fn_evaluate(const TC *self, QE *left, const QE **expr, unsigned char prev) {
    g_ev_expr = *expr; g_ev_prev = prev; g_ev_calls = g_ev_calls + 1;
    left->Type = ET::NaturalNumber; left->Value.Number.Natural = g_ev_val;
    return g_ev_ret;
}
static SymValue<C> g_root, g_ka;
extern "C" void h_gev() {
    unsigned oper = vf_u8(); vf_assume(oper <= NOPS);            // the operator the value is fetched for
    unsigned own = vf_u8(); vf_assume(own <= NOPS);              // the item's own pending operator
    u64 bits = vf_u64(); unsigned off = vf_u32(); unsigned len = vf_u32();
    C *content = vf_buf<C>(1); content[0] = C('a');
    g_ka.ntype = QNumberType(vf_u8() & 3); g_ka.stype = QNumberType(vf_u8() & 3); g_ka.bits = vf_u64();
    g_ka.has_text = vf_u8() & 1; g_ka.is_string = vf_u8() & 1; g_ka.text = content; g_ka.text_len = vf_u8() & 1;
    vf_assume(sym_value_consistent(g_ka));
    bool missing = vf_u8() & 1;
    g_root.kid_a = missing ? nullptr : &g_ka;
    g_ev_calls = 0; g_ev_ret = vf_u8() & 1; g_ev_val = vf_u64();
    Array<QE> &arr = *new (g_arr_mem) Array<QE>{SizeT(1)};
    if (ITYPE == 6) {
        Array<QE> sub{SizeT(1)};
        QE leaf; Pay p; p.n = bits; p.aux = off; fill(leaf, p, 0); sub += Memory::Move(leaf);
        arr += QE{Memory::Move(sub), OP(own)};
    } else if (ITYPE == 5) {
        QE e{ET::Variable, OP(own)}; e.Variable.Offset = 0; e.Variable.Length = 1; e.Variable.IDLength = 0; e.Variable.Level = 0;
        arr += Memory::Move(e);
    } else {
        QE e; e.Type = ET(ITYPE); e.Operation = OP(own); e.Value.Number.Natural = bits; e.Value.Offset = off; e.Value.Length = len;
        arr += Memory::Move(e);
    }
    const QE *item = arr.First();
    TC tc{content, 1}; tc.value_ = &g_root;
    QE result;
    bool ok = tc.GetExpressionValue(result, item, OP(oper));
    if (ITYPE == 6) {
        vf_assert(g_ev_calls == 1 && g_ev_expr == item->SubExpressions.First() && g_ev_prev == 0, 1);   // its own list, from the start, nothing pending
        vf_assert(ok == g_ev_ret && result.Value.Number.Natural == g_ev_val, 2);
    } else if (ITYPE == 5) {
        vf_assert(g_ev_calls == 0, 3);
        if (oper != 3 && oper != 4) {
            bool conv = !missing && g_ka.stype != QNumberType::NotANumber;
            if (conv) vf_assert(ok && unsigned(result.Type) == unsigned(g_ka.stype) && result.Value.Number.Natural == g_ka.bits, 4);
            else if (oper == 0 && own == 0)                       // a lone variable: "is a non-empty string"
                vf_assert(ok && result.Type == ET::NaturalNumber &&
                          result.Value.Number.Natural == ((!missing && g_ka.is_string && g_ka.text_len != 0) ? 1ULL : 0ULL), 5);
            else vf_assert(!ok, 6);                               // not a number inside arithmetic: no value
        } else vf_assert(ok && result.Type == ET::Variable && result.Variable.Offset == 0 && result.Variable.Length == 1, 7);   // left to isEqual
    } else {
        vf_assert(g_ev_calls == 0, 8);
        vf_assert(ok && unsigned(result.Type) == ITYPE && result.Value.Number.Natural == bits && result.Value.Offset == off && result.Value.Length == len, 9);
    }
    vf_witness();
}

// C04 (b): operator precedence.  The REAL TemplateCore::evaluate / GetExpressionValue (Template.hpp:1406-1498) walk a REAL
// Array<QExpression> built by the harness (K top-level items, optionally one parenthesised item holding SUBK items; every
// operator symbolic), with the binary kernel evaluateExpression replaced (ll2c stub) by a harness function:
//   h_tree  kernel = INJECTIVE TREE ENCODER: the "value" of an operation is the prefix code of (operator, left, right).
//           The result of evaluate() must be the code of exactly the tree that textbook precedence climbing builds with the
//           rank table "rank(op) = QOperation code" (one rank per operator, equal operators associate to the left).
//           This rank table refines the documented order: documented level a above level b  =>  every rank in a > every rank in b.
//   h_doc   kernel = exact integer arithmetic on small operands; the result must equal an independent evaluator that uses the
//           DOCUMENTED six levels (power remainder | multiply divide | add subtract | bitwise | comparisons | and or), left to
//           right inside a level - on the fragment where the documentation is unambiguous (see ambiguous()).
//   h_fail  kernel fails at an arbitrary call: evaluate() yields "no value" and stops calling the kernel.
// The kernels themselves are layer (a) (C04_kernels.cpp).  Defines: K, PAR (index of the parenthesised item or -1), SUBK, VB.
#include "sym_value.hpp"
#include "fixed_stream.hpp"
#include "Template.hpp"
#include "vf.h"
using namespace Qentem;
typedef char C;
typedef TemplateCore<C, SymValue<C>, FixedStream<C, 8>> TC;
typedef QExpression QE; typedef QExpression::ExpressionType ET; typedef QExpression::QOperation OP;
typedef unsigned long long u64; typedef long long i64;
#ifndef K
#define K 3
#endif
#ifndef PAR
#define PAR (-1)
#endif
#ifndef SUBK
#define SUBK 2
#endif
#ifndef VB
#define VB 2
#endif
#define NOPS 16u

// ------------------------------------------------------------------ the list
static unsigned top_op[K], sub_op[SUBK];
static u64      top_val[K], sub_val[SUBK];
static unsigned pick_op() { unsigned o = vf_u8(); vf_assume(o >= 1 && o <= NOPS); return o; }
static void pick_list() {
    for (unsigned i = 0; i < K; i++) { top_val[i] = vf_u8() & ((1u << VB) - 1u); top_op[i] = 0; if (i + 1 < K) top_op[i] = pick_op(); }
    for (unsigned j = 0; j < SUBK; j++) { sub_val[j] = vf_u8() & ((1u << VB) - 1u); sub_op[j] = 0; if (j + 1 < SUBK) sub_op[j] = pick_op(); }
}
// leaf payload: (number, aux) stored in Value.Number.Natural / Value.Offset
struct Pay { u64 n; unsigned aux; };
static void fill(QE &e, Pay p, unsigned op) { e.Type = ET::NaturalNumber; e.Value.Number.Natural = p.n; e.Value.Offset = p.aux; e.Operation = OP(op); }
template <typename F> static void build(Array<QE> &arr, F leaf) {
    for (unsigned i = 0; i < K; i++) {
        if (int(i) == PAR) {
            Array<QE> sub{SizeT(SUBK)};
            for (unsigned j = 0; j < SUBK; j++) { QE e; fill(e, leaf(K + j, sub_val[j]), sub_op[j]); sub += Memory::Move(e); }
            arr += QE{Memory::Move(sub), OP(top_op[i])};
        } else { QE e; fill(e, leaf(i, top_val[i]), top_op[i]); arr += Memory::Move(e); }
    }
}

// ------------------------------------------------------------------ tree mode
struct Enc { u64 bits; unsigned len; };
static Enc enc_leaf(unsigned id) { Enc e; e.bits = 1u | (id << 1); e.len = 5; return e; }                    // 1 iiii
static Enc enc_node(unsigned op, Enc l, Enc r) {                                                             // 0 ooooo <l> <r>
    Enc e; e.bits = (u64)(op << 1) | (l.bits << 6) | (r.bits << (6 + l.len)); e.len = 6 + l.len + r.len; return e;
}
static unsigned g_calls, g_fail_at; static bool g_after_fail;
extern "C" bool fn_tree(const TC *self, QE *l, QE *r, unsigned char op) {
    Enc a, b; a.bits = l->Value.Number.Natural; a.len = l->Value.Offset; b.bits = r->Value.Number.Natural; b.len = r->Value.Offset;
    Enc n = enc_node(op, a, b);
    l->Value.Number.Natural = n.bits; l->Value.Offset = n.len; l->Type = ET::NaturalNumber;
    g_calls = g_calls + 1;
    return true;
}
extern "C" bool fn_fail(const TC *self, QE *l, QE *r, unsigned char op) {
    if (g_calls > g_fail_at) g_after_fail = true;
    bool ok = (g_calls != g_fail_at);
    g_calls = g_calls + 1;
    l->Type = ET::NaturalNumber;
    return ok;
}
#define RANK_FINE(o) (o)
static unsigned doc_level(unsigned o) { return (o <= 2) ? 1u : ((o <= 8) ? 2u : ((o <= 10) ? 3u : ((o <= 12) ? 4u : ((o <= 14) ? 5u : 6u)))); }
// textbook precedence climbing over (prim[0..n), ops[0..n-1)); ops[i] follows prim[i]; equal ranks associate to the left
static Enc climb_tree(const unsigned *ops, const Enc *prim, unsigned n, unsigned &i, unsigned min_rank) {
    Enc lhs = prim[i];
    while (i + 1 < n && RANK_FINE(ops[i]) >= min_rank) {
        unsigned op = ops[i]; i = i + 1;
        Enc rhs = climb_tree(ops, prim, n, i, RANK_FINE(op) + 1);
        lhs = enc_node(op, lhs, rhs);
    }
    return lhs;
}
extern "C" void h_tree() {
    pick_list();
    Array<QE> arr{SizeT(K)};
    build(arr, [](unsigned id, u64 v) { Enc e = enc_leaf(id); Pay p; p.n = e.bits; p.aux = e.len; return p; });
    TC tc{nullptr, 0};
    const QE *expr = arr.First(); QE result;
    g_calls = 0;
    bool ok = tc.evaluate(result, expr, OP::NoOp);
    // reference
    Enc sp[SUBK], tp[K];
    for (unsigned j = 0; j < SUBK; j++) sp[j] = enc_leaf(K + j);
    unsigned si = 0; Enc subtree = climb_tree(sub_op, sp, SUBK, si, 0);
    for (unsigned i = 0; i < K; i++) { tp[i] = enc_leaf(i); if (int(i) == PAR) tp[i] = subtree; }
    unsigned ti = 0; Enc want = climb_tree(top_op, tp, K, ti, 0);
    vf_assert(ok, 1);
    vf_assert(result.Value.Number.Natural == want.bits && result.Value.Offset == want.len, 2);      // the same tree
    vf_assert(g_calls == (K - 1) + ((PAR >= 0) ? (SUBK - 1) : 0), 3);                               // every operator applied exactly once
    vf_assert(expr == arr.First() + (K - 1), 4);                                                    // cursor on the last item
    vf_witness();
}
extern "C" void h_fail() {
    pick_list();
    Array<QE> arr{SizeT(K)};
    build(arr, [](unsigned id, u64 v) { Pay p; p.n = v; p.aux = 0; return p; });
    TC tc{nullptr, 0};
    const QE *expr = arr.First(); QE result;
    g_calls = 0; g_after_fail = false; g_fail_at = vf_u8();
    const unsigned total = (K - 1) + ((PAR >= 0) ? (SUBK - 1) : 0);
    vf_assume(g_fail_at < total);
    bool ok = tc.evaluate(result, expr, OP::NoOp);
    vf_assert(!ok, 1);                       // one undefined operation anywhere: the whole expression has no value
    vf_assert(!g_after_fail, 2);             // and nothing is evaluated after it
    vf_witness();
}

// ------------------------------------------------------------------ documented-order mode (exact small-integer arithmetic)
static bool g_unsupported;                  // an operation outside the integer fragment was requested (assumed away)
static u64 mag(i64 v) { return v < 0 ? (u64)(0 - v) : (u64)v; }
static bool arith(unsigned op, i64 a, i64 b, i64 &out) {   // false = no value
    bool ta = a > 0, tb = b > 0;
    switch (op) {
        case 1: out = (ta || tb); return true;
        case 2: out = (ta && tb); return true;
        case 3: out = (a == b); return true;
        case 4: out = (a != b); return true;
        case 5: out = (a >= b); return true;
        case 6: out = (a <= b); return true;
        case 7: out = (a > b); return true;
        case 8: out = (a < b); return true;
        case 9: out = (a | b); return true;
        case 10: out = (a & b); return true;
        case 11: out = a + b; return true;
        case 12: out = a - b; return true;
        case 13: if (mag(a) > 0x7FFFFFFFull || mag(b) > 0x7FFFFFFFull) g_unsupported = true; out = a * b; return true;
        case 15: if (b == 0) return false; out = a % b; return true;
        case 16: {
            if (b < 0 || b > 8 || mag(a) > 127 || (a == 0 && b == 0)) { g_unsupported = true; out = 0; return true; }
            i64 v = 1; i64 i = 0; while (i < b) { v = v * a; ++i; } out = v; return true;
        }
        default: g_unsupported = true; out = 0; return true;      // real division is not part of the integer fragment
    }
}
extern "C" bool fn_arith(const TC *self, QE *l, QE *r, unsigned char op) {
    i64 out = 0; bool ok = arith(op, l->Value.Number.Integer, r->Value.Number.Integer, out);
    l->Value.Number.Integer = out; l->Type = ET::IntegerNumber;
    g_calls = g_calls + 1;
    return ok;
}
struct DV { i64 v; bool ok; };
static DV climb_doc(const unsigned *ops, const DV *prim, unsigned n, unsigned &i, unsigned min_level) {
    DV lhs = prim[i];
    while (i + 1 < n && doc_level(ops[i]) >= min_level) {
        unsigned op = ops[i]; i = i + 1;
        DV rhs = climb_doc(ops, prim, n, i, doc_level(op) + 1);
        i64 out = 0; bool ok = arith(op, lhs.v, rhs.v, out);
        lhs.ok = lhs.ok && rhs.ok && ok; lhs.v = out;
    }
    return lhs;
}
// inside one documented level the documentation does not say how DIFFERENT operators group; for + - (and * alone) every
// grouping has the same exact value, for the other levels it has not: such lists are outside this query (open question)
static bool ambiguous(const unsigned *ops, unsigned n) {
    bool amb = false;
    for (unsigned i = 0; i + 1 < n; i++)
        for (unsigned j = i + 1; j + 1 < n; j++)
            if (ops[i] != ops[j] && doc_level(ops[i]) == doc_level(ops[j]) && doc_level(ops[i]) != 4) amb = true;
    return amb;
}
extern "C" void h_doc() {
    pick_list();
    vf_assume(!ambiguous(top_op, K) && !ambiguous(sub_op, SUBK));
    Array<QE> arr{SizeT(K)};
    build(arr, [](unsigned id, u64 v) { Pay p; p.n = v; p.aux = 0; return p; });
    TC tc{nullptr, 0};
    const QE *expr = arr.First(); QE result;
    g_calls = 0; g_unsupported = false;
    bool ok = tc.evaluate(result, expr, OP::NoOp);
    DV sp[SUBK], tp[K];
    for (unsigned j = 0; j < SUBK; j++) { sp[j].v = (i64)sub_val[j]; sp[j].ok = true; }
    unsigned si = 0; DV sub = climb_doc(sub_op, sp, SUBK, si, 0);
    for (unsigned i = 0; i < K; i++) { tp[i].v = (i64)top_val[i]; tp[i].ok = true; if (int(i) == PAR) tp[i] = sub; }
    unsigned ti = 0; DV want = climb_doc(top_op, tp, K, ti, 0);
    vf_assume(!g_unsupported);
#ifdef KF_EXCL_C04_rem_zero
    // (nothing to exclude here: the kernel is the harness arithmetic, x % 0 is "no value" by construction)
#endif
    vf_assert(ok == want.ok, 1);
    if (ok) vf_assert(result.Value.Number.Integer == want.v, 2);
    vf_witness();
}

// C15 (c): Memory::Sort<ascend|descend> (Memory.hpp:116-147) and Array<T>::Sort on arrays of int and of Key2:
// the output is ordered under the relation and is a permutation of the input; nothing outside [start,end) is touched.
#include "Array.hpp"
#include "key2.hpp"
#include "vf.h"
using namespace Qentem;
#ifndef N
#define N 4
#endif
#ifndef ASC
#define ASC 1
#endif
#ifndef PROP
#define PROP 3      // 1 = ordered, 2 = permutation, 3 = both in one query
#endif
#ifndef RANGE
#define RANGE 0     // int elements: 0 = all 2^32 values, r = values in [-r, r] (Sort only compares, so order types are what matters)
#endif

struct MKey { char d[2]; unsigned n; };
static bool mk_eq(const MKey &a, const MKey &b) { return a.n == b.n && a.d[0] == b.d[0] && a.d[1] == b.d[1]; }
// reference order: lexicographic by char's own '<', a proper prefix first
static int ref_cmp(const MKey &a, const MKey &b) {
    unsigned i = 0;
    while (i < a.n && i < b.n) {
        if (a.d[i] < b.d[i]) return -1;
        if (b.d[i] < a.d[i]) return 1;
        ++i;
    }
    return (a.n < b.n) ? -1 : ((b.n < a.n) ? 1 : 0);
}
static MKey sym_key() {   // length 0..2, every unit value (NUL included); unused units normalised to 0
    MKey k;
    k.n = vf_u8(); vf_assume(k.n <= 2);
    k.d[0] = (char)vf_u8();
    k.d[1] = (char)vf_u8();
    if (k.n < 2) k.d[1] = 0;
    if (k.n < 1) k.d[0] = 0;
    return k;
}
static MKey from_key(const Key2 &k) {
    MKey r; r.n = k.n; r.d[0] = (k.n > 0) ? k.d[0] : (char)0; r.d[1] = (k.n > 1) ? k.d[1] : (char)0;
    return r;
}

// int: a[0] and a[N+1] are guards outside the sorted range [1, N+1)
extern "C" void h_sort_int() {
    int *a = vf_buf<int>(N + 2);
    int  in[N + 2];
    for (unsigned i = 0; i < N + 2; ++i) { if (RANGE) vf_assume(a[i] >= -RANGE && a[i] <= RANGE); in[i] = a[i]; }
    Memory::Sort<(ASC != 0)>(a, SizeT{1}, SizeT{N + 1});
    vf_assert(a[0] == in[0] && a[N + 1] == in[N + 1], 1);
    unsigned i = vf_u32();
    if ((PROP & 1) && i < N - 1) vf_assert(ASC ? (a[1 + i] <= a[2 + i]) : (a[1 + i] >= a[2 + i]), 2);      // ordered
    int      x = (int)vf_u32();
    unsigned ci = 0, co = 0;
    for (unsigned j = 1; j <= N; ++j) { if (in[j] == x) ++ci; if (a[j] == x) ++co; }
    if (PROP & 2) vf_assert(ci == co, 3);                                                     // permutation
    vf_witness();
}

// whole-range call as HashTable::Sort / Array::Sort make it: Sort(arr, 0, n)
extern "C" void h_sort_key() {
    Key2 a[N];
    MKey in[N];
    for (unsigned i = 0; i < N; ++i) { in[i] = sym_key(); a[i] = Key2(in[i].d, in[i].n); }
    Memory::Sort<(ASC != 0)>(&a[0], SizeT{0}, SizeT{N});
    unsigned i = vf_u32();
    if (i < N - 1) {
        MKey l = from_key(a[i]), r = from_key(a[i + 1]);
        int  c = ref_cmp(l, r);
        if (PROP & 1) vf_assert(ASC ? (c <= 0) : (c >= 0), 2);                                // ordered (reference order)
        if (PROP & 1) vf_assert(ASC ? !(a[i + 1] < a[i]) : !(a[i + 1] > a[i]), 4);            // and under the type's own relation
    }
    MKey     x = sym_key();
    unsigned ci = 0, co = 0;
    for (unsigned j = 0; j < N; ++j) { MKey o = from_key(a[j]); if (mk_eq(in[j], x)) ++ci; if (mk_eq(o, x)) ++co; }
    if (PROP & 2) vf_assert(ci == co, 3);                                                     // permutation
    vf_witness();
}

// Array<int>::Sort(ascend) on an array filled through the public API; capacity and size concrete (N)
extern "C" void h_array_sort() {
    Array<int> arr(SizeT{N});
    int        in[N];
    for (unsigned i = 0; i < N; ++i) { in[i] = (int)vf_u32(); if (RANGE) vf_assume(in[i] >= -RANGE && in[i] <= RANGE); arr += int(in[i]); }
    vf_assert(arr.Size() == N, 1);
    arr.Sort(ASC != 0);
    vf_assert(arr.Size() == N, 5);
    const int *a = arr.First();
    unsigned   i = vf_u32();
    if ((PROP & 1) && i < N - 1) vf_assert(ASC ? (a[i] <= a[i + 1]) : (a[i] >= a[i + 1]), 2);
    int      x = (int)vf_u32();
    unsigned ci = 0, co = 0;
    for (unsigned j = 0; j < N; ++j) { if (in[j] == x) ++ci; if (a[j] == x) ++co; }
    if (PROP & 2) vf_assert(ci == co, 3);
    vf_witness();
}

#include "Value.hpp"
#include "vf.h"
using namespace Qentem;
typedef Value<char> V;
extern "C" void h_obj() {
    V v; unsigned long long x = vf_u64();
    v["a"] = x;
    vf_assert(v.IsObject() && v.Size() == 1, 1);
    const V *e = v.GetValue("a", SizeT{1});
    vf_assert(e != nullptr && e->GetUInt64() == x, 2);
    vf_witness();
}
extern "C" void h_obj2() {
    V v; unsigned long long x = vf_u64(), y = vf_u64();
    v["a"] = x; v["b"] = y;
    vf_assert(v.IsObject() && v.Size() == 2, 1);
    v.Remove("a");
    const V *e = v.GetValue("a", SizeT{1});
    vf_assert(e == nullptr, 2);
    const V *f = v.GetValue("b", SizeT{1});
    vf_assert(f != nullptr && f->GetUInt64() == y, 3);
    vf_witness();
}

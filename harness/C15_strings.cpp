// C15 (a): string comparison primitives and the StringView operator family vs the lexicographic order
#include "StringUtils.hpp"
#include "StringView.hpp"
#include "vf.h"
using namespace Qentem;
#ifndef N
#define N 4
#endif
#ifndef CHAR
#define CHAR char
#endif
typedef CHAR C;

// reference: lexicographic by C's own '<'; a proper prefix sorts first.  -1 / 0 / 1
static int ref_cmp(const C *a, unsigned la, const C *b, unsigned lb) {
    unsigned i = 0;
    while (i < la && i < lb) {
        if (a[i] < b[i]) return -1;
        if (b[i] < a[i]) return 1;
        ++i;
    }
    return (la < lb) ? -1 : ((lb < la) ? 1 : 0);
}

extern "C" void h_order() {   // every relation agrees with the reference order (=> trichotomy, unions)
    unsigned la = vf_u32(), lb = vf_u32();
    vf_assume(la <= N && lb <= N);
    const C *a = vf_buf<C>(la), *b = vf_buf<C>(lb);
    int  r  = ref_cmp(a, la, b, lb);
    bool lt = StringUtils::IsLess(a, b, la, lb, false), le = StringUtils::IsLess(a, b, la, lb, true);
    bool gt = StringUtils::IsGreater(a, b, la, lb, false), ge = StringUtils::IsGreater(a, b, la, lb, true);
    bool eq = (la == lb) && StringUtils::IsEqual(a, b, la);
    vf_assert(lt == (r < 0), 1);
    vf_assert(gt == (r > 0), 2);
    vf_assert(eq == (r == 0), 3);
    vf_assert(le == (r <= 0), 4);
    vf_assert(ge == (r >= 0), 5);
    vf_assert((lt ? 1 : 0) + (gt ? 1 : 0) + (eq ? 1 : 0) == 1, 6);
    vf_witness();
}

extern "C" void h_transitive() {   // a<b && b<c => a<c ; a<=b && b<=c => a<=c, directly on the real functions
    unsigned la = vf_u32(), lb = vf_u32(), lc = vf_u32();
    vf_assume(la <= N && lb <= N && lc <= N);
    const C *a = vf_buf<C>(la), *b = vf_buf<C>(lb), *c = vf_buf<C>(lc);
    if (StringUtils::IsLess(a, b, la, lb, false) && StringUtils::IsLess(b, c, lb, lc, false))
        vf_assert(StringUtils::IsLess(a, c, la, lc, false), 1);
    if (StringUtils::IsGreater(a, b, la, lb, false) && StringUtils::IsGreater(b, c, lb, lc, false))
        vf_assert(StringUtils::IsGreater(a, c, la, lc, false), 2);
    if (StringUtils::IsLess(a, b, la, lb, true) && StringUtils::IsLess(b, c, lb, lc, true))
        vf_assert(StringUtils::IsLess(a, c, la, lc, true), 3);
    vf_witness();
}

extern "C" void h_view_ops() {   // StringView operator family
    unsigned la = vf_u32(), lb = vf_u32();
    vf_assume(la <= N && lb <= N);
    const C *a = vf_buf<C>(la), *b = vf_buf<C>(lb);
    StringView<C> x{a, la}, y{b, lb};
    int r = ref_cmp(a, la, b, lb);
    vf_assert((x < y) == (r < 0), 1);
    vf_assert((x > y) == (r > 0), 2);
    vf_assert((x == y) == (r == 0), 3);
    vf_assert((x != y) == (r != 0), 4);
    vf_assert((x <= y) == (r <= 0), 5);
    vf_assert((x >= y) == (r >= 0), 6);
    vf_witness();
}

// C15 (a): string comparison primitives and the StringView operator family vs the lexicographic order
#include "StringUtils.hpp"
#include "StringView.hpp"
#include "String.hpp"
#include "vf.h"
using namespace Qentem;
#ifndef N
#define N 4
#endif
#ifndef CHAR
#define CHAR char
#endif
typedef CHAR C;

// reference: lexicographic by C's own '<'; a proper prefix sorts first.  -1 / 0 / 1
static int ref_cmp(const C *a, unsigned la, const C *b, unsigned lb) {
    unsigned i = 0;
    while (i < la && i < lb) {
        if (a[i] < b[i]) return -1;
        if (b[i] < a[i]) return 1;
        ++i;
    }
    return (la < lb) ? -1 : ((lb < la) ? 1 : 0);
}

extern "C" void h_order() {   // every relation agrees with the reference order (=> trichotomy, unions)
    unsigned la = vf_u32(), lb = vf_u32();
    vf_assume(la <= N && lb <= N);
    const C *a = vf_buf<C>(la), *b = vf_buf<C>(lb);
    int  r  = ref_cmp(a, la, b, lb);
    bool lt = StringUtils::IsLess(a, b, la, lb, false), le = StringUtils::IsLess(a, b, la, lb, true);
    bool gt = StringUtils::IsGreater(a, b, la, lb, false), ge = StringUtils::IsGreater(a, b, la, lb, true);
    bool eq = (la == lb) && StringUtils::IsEqual(a, b, la);
    vf_assert(lt == (r < 0), 1);
    vf_assert(gt == (r > 0), 2);
    vf_assert(eq == (r == 0), 3);
    vf_assert(le == (r <= 0), 4);
    vf_assert(ge == (r >= 0), 5);
    vf_assert((lt ? 1 : 0) + (gt ? 1 : 0) + (eq ? 1 : 0) == 1, 6);
    vf_witness();
}

extern "C" void h_transitive() {   // a<b && b<c => a<c ; a<=b && b<=c => a<=c, directly on the real functions
    unsigned la = vf_u32(), lb = vf_u32(), lc = vf_u32();
    vf_assume(la <= N && lb <= N && lc <= N);
    const C *a = vf_buf<C>(la), *b = vf_buf<C>(lb), *c = vf_buf<C>(lc);
    if (StringUtils::IsLess(a, b, la, lb, false) && StringUtils::IsLess(b, c, lb, lc, false))
        vf_assert(StringUtils::IsLess(a, c, la, lc, false), 1);
    if (StringUtils::IsGreater(a, b, la, lb, false) && StringUtils::IsGreater(b, c, lb, lc, false))
        vf_assert(StringUtils::IsGreater(a, c, la, lc, false), 2);
    if (StringUtils::IsLess(a, b, la, lb, true) && StringUtils::IsLess(b, c, lb, lc, true))
        vf_assert(StringUtils::IsLess(a, c, la, lc, true), 3);
    vf_witness();
}

extern "C" void h_view_ops() {   // StringView operator family
    unsigned la = vf_u32(), lb = vf_u32();
    vf_assume(la <= N && lb <= N);
    const C *a = vf_buf<C>(la), *b = vf_buf<C>(lb);
    StringView<C> x{a, la}, y{b, lb};
    int r = ref_cmp(a, la, b, lb);
    vf_assert((x < y) == (r < 0), 1);
    vf_assert((x > y) == (r > 0), 2);
    vf_assert((x == y) == (r == 0), 3);
    vf_assert((x != y) == (r != 0), 4);
    vf_assert((x <= y) == (r <= 0), 5);
    vf_assert((x >= y) == (r >= 0), 6);
    vf_witness();
}

// the overloads that take a NUL-terminated string on the right: b holds lb non-NUL units followed by the terminator
static unsigned make_cstr(C *bz) {
    unsigned lb = vf_u32(); vf_assume(lb <= N);
    for (unsigned i = 0; i < N + 1; i++) { C u = vf_any<C>(); if (i < lb) { vf_assume(u != C{0}); bz[i] = u; } else bz[i] = C{0}; }
    return lb;
}
extern "C" void h_view_cstr() {   // StringView (op) const Char_T*
    unsigned la = vf_u32(); vf_assume(la <= N);
    const C *a = vf_buf<C>(la);
    C bz[N + 1]; unsigned lb = make_cstr(bz);
    StringView<C> x{a, la};
    int r = ref_cmp(a, la, bz, lb);
    vf_assert((x < bz) == (r < 0), 1);
    vf_assert((x > bz) == (r > 0), 2);
    vf_assert((x == bz) == (r == 0), 3);
    vf_assert((x != bz) == (r != 0), 4);
    vf_assert((x <= bz) == (r <= 0), 5);
    vf_assert((x >= bz) == (r >= 0), 6);
    vf_witness();
}
extern "C" void h_string_ops() {   // String (op) String and String (op) const Char_T*
    unsigned la = vf_u32(); vf_assume(la <= N);
    const C *a = vf_buf<C>(la);
    C bz[N + 1]; unsigned lb = make_cstr(bz);
    String<C> x{a, SizeT(la)}, y{static_cast<const C *>(bz), SizeT(lb)};   // (the non-const pointer overload ADOPTS the buffer)
    int r = ref_cmp(a, la, bz, lb);
    vf_assert((x < y) == (r < 0), 1);
    vf_assert((x > y) == (r > 0), 2);
    vf_assert((x == y) == (r == 0), 3);
    vf_assert((x != y) == (r != 0), 4);
    vf_assert((x <= y) == (r <= 0), 5);
    vf_assert((x >= y) == (r >= 0), 6);
    vf_assert((x < bz) == (r < 0), 11);
    vf_assert((x > bz) == (r > 0), 12);
    vf_assert((x == bz) == (r == 0), 13);
    vf_assert((x != bz) == (r != 0), 14);
    vf_assert((x <= bz) == (r <= 0), 15);
    vf_assert((x >= bz) == (r >= 0), 16);
    vf_assert(x.IsEqual(bz, SizeT(lb)) == (r == 0), 17);
    vf_witness();
}

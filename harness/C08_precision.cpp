// C08 (stringify): the caller's precision reaches EVERY number of the tree.  Digit::realToString is replaced by a recorder that
// logs the precision it is handed (the digits themselves are C10's subject): a real number directly in the root container and one
// nested two levels down must both be formatted with the precision passed to Stringify.
#include "Value.hpp"
#include "vf.h"
using namespace Qentem;
typedef Value<char> V; typedef StringStream<char> SS;
static unsigned g_prec[4]; static unsigned g_n;
extern "C" void rec_real(void *stream, unsigned long long bits, unsigned long long fmt) {     // RealFormatInfo{Precision, Type} arrives as one 64-bit word
    if (g_n < 4) g_prec[g_n] = unsigned(fmt & 0xFFFFFFFFULL);
    ++g_n;
}
extern "C" void h_precision() {
    unsigned p = vf_u8(); vf_assume(p >= 1 && p <= 40);
    alignas(V) static char raw[sizeof(V)];
    V &v = *new (&raw[0]) V;
#if ROOT == 0     /* [d, [d, {"k": d}]] */
    { V in2; in2["k"] = 0.5; V in1; in1 += 1.5; in1 += static_cast<V &&>(in2); v += 2.5; v += static_cast<V &&>(in1); }
#else             /* {"a": d, "o": {"b": [d]}} */
    { V arr; arr += 0.5; V o; o["b"] = static_cast<V &&>(arr); v["a"] = 2.5; v["o"] = static_cast<V &&>(o); }
#endif
    SS out;
    g_n = 0;
    v.Stringify(out, SizeT32(p));
#if ROOT == 0
    vf_assert(g_n == 3, 1);
#else
    vf_assert(g_n == 2, 1);
#endif
    unsigned i = vf_u32(); vf_assume(i < g_n && i < 4);
    vf_assert(g_prec[i] == p, 2);                      // every real of the tree, at every depth, with the caller's precision
    vf_witness();
}

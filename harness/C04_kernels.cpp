// C04 (a): the typed arithmetic / comparison kernels of QExpression (QExpression.hpp:162-901) driven through the real
// TemplateCore::evaluateExpression / isEqual (Template.hpp:1500-1783), for symbolic kinds (Natural / Integer / Real) and
// symbolic 64-bit payloads, against a reference written with __int128 (exact integers) and IEEE double.
//   "value"    = evaluateExpression returned true; the result is left.Type / left.Value.Number
//   "no value" = evaluateExpression returned false
// Domain restriction (as in the property): the exact result fits the 64-bit kind the promotion rule gives it
// (Natural op Natural -> Natural, anything with Integer -> Integer, anything with Real -> Real).
// Defines: OPER (QOperation code), LK / RK (1 Real, 2 Natural, 3 Integer; undefined = symbolic kind),
//          (LK / RK may also be 16 + bitmask of kinds: 28 = Natural or Integer)
//          KF_EXCL_* / KF_ONLY_* known findings (C04-rem-zero, C04-rem-overflow, C04-natural-rem, C04-natural-cmp,
//          C04-pow-neg-even-sign, C04-pow-fraction-trunc), PB / PE (power: base bits / the concrete exponent), REM_WIDE, NT, SKL / SKR
#include "sym_value.hpp"
#include "fixed_stream.hpp"
#include "Template.hpp"
#include "vf.h"
using namespace Qentem;
#ifndef CHAR
#define CHAR char
#endif
typedef CHAR C;
typedef TemplateCore<C, SymValue<C>, FixedStream<C, 8>> TC;
typedef QExpression QE; typedef QExpression::ExpressionType ET; typedef QExpression::QOperation OP;
typedef unsigned long long u64; typedef long long i64; typedef __int128 i128;
enum { K_REAL = 1, K_NAT = 2, K_INT = 3 };
#define I64_MIN ((i64)0x8000000000000000ULL)
#define I64_MAX ((i64)0x7FFFFFFFFFFFFFFFLL)
#define TWO63 9223372036854775808.0

static double b2d(u64 b) { QNumber64 q; q.Natural = b; return q.Real; }
static u64    d2b(double d) { QNumber64 q; q.Real = d; return q.Natural; }
static bool   finite_bits(u64 b) { return ((b >> 52) & 0x7FFu) != 0x7FFu; }
static bool   is_nan(double d) { return d != d; }
static bool   same_real(double a, double b) { return (is_nan(a) && is_nan(b)) || d2b(a) == d2b(b); }
static i128   ival(unsigned k, u64 b) { return (k == K_NAT) ? (i128)b : (i128)(i64)b; }                 // exact value of an integer kind
static double rval(unsigned k, u64 b) { return (k == K_REAL) ? b2d(b) : ((k == K_NAT) ? (double)b : (double)(i64)b); }   // promotion to real
static bool   fits_u64(i128 v) { return v >= 0 && v <= (i128)0xFFFFFFFFFFFFFFFFULL; }
static bool   fits_i64(i128 v) { return v >= (i128)I64_MIN && v <= (i128)I64_MAX; }
static bool   in_i64_range(double d) { return d > -TWO63 && d < TWO63; }                                // truncation to int64 is defined
static void   mk(QE &e, unsigned k, u64 b) { e.Type = ET(k); e.Value.Number.Natural = b; }

// truncating remainder (sign of the dividend) on magnitudes; |x|, |y| < 2^64 (no 128-bit division: ll2c mistranslates srem i128)
static i128 ref_rem(i128 x, i128 y) {
    u64 mx = (x < 0) ? (u64)(0 - x) : (u64)x, my = (y < 0) ? (u64)(0 - y) : (u64)y;
    u64 m = mx % my;
    return (x < 0) ? -(i128)m : (i128)m;
}
struct Opd { unsigned k; u64 b; };
// LK / RK: a kind (1..3), or a set of kinds as 16 + bitmask (bit k), or 0 = any kind
static unsigned pick_kind(int spec) {
    if (spec >= 1 && spec <= 3) return unsigned(spec);
    unsigned k = vf_u8(); vf_assume(k >= 1 && k <= 3);
    if (spec >= 16) vf_assume(((unsigned(spec) - 16u) >> k) & 1u);
    return k;
}
static Opd pick(int fixed) {                       // symbolic operand; reals are finite
    Opd o;
    o.k = pick_kind(fixed);
    o.b = vf_u64();
    if (o.k == K_REAL) vf_assume(finite_bits(o.b));
    return o;
}
#ifndef LK
#define LK 0
#endif
#ifndef RK
#define RK 0
#endif
#ifndef OPER
#define OPER 11
#endif
// the exact integer result v of kind-rule "both Natural -> Natural else Integer" is what the engine produced
static void expect_int(const QE &l, bool both_nat, i128 v, u64 low) {     // low = (u64)v (passed separately for the product, see h_arith)
    if (both_nat && v >= 0) {
        vf_assume(fits_u64(v));
        vf_assert(l.Type == ET::NaturalNumber && l.Value.Number.Natural == low, 2);
    } else {
        vf_assume(fits_i64(v));
        vf_assert(l.Type == ET::IntegerNumber && l.Value.Number.Natural == low, 3);
    }
}

// ---------------------------------------------------------------- + - *
extern "C" void h_arith() {
    Opd a = pick(LK); Opd b = pick(RK);
    QE l, r; mk(l, a.k, a.b); mk(r, b.k, b.b);
    TC tc{nullptr, 0};
    bool ok = tc.evaluateExpression(l, r, OP(OPER));
    vf_assert(ok, 1);
    if (a.k != K_REAL && b.k != K_REAL) {
        i128 x = ival(a.k, a.b), y = ival(b.k, b.b);
        if (OPER == 13) {
            // product: whenever the exact product fits the result kind it equals the 64-bit wrap-around product (truncation
            // commutes with multiplication), so the kind rule plus "payload == low word of the product" is asserted for ALL
            // operands; no back end proves a 128-vs-64-bit multiplier equivalence, so the exact product is not formed
            u64 low = (u64)x * (u64)y;
            if (a.k == K_NAT && b.k == K_NAT) vf_assert(l.Type == ET::NaturalNumber && l.Value.Number.Natural == low, 5);
            else vf_assert(l.Type == ET::IntegerNumber && l.Value.Number.Natural == low, 6);
        } else {
            i128 v = (OPER == 11) ? (x + y) : (x - y);
            expect_int(l, a.k == K_NAT && b.k == K_NAT, v, (u64)v);
        }
    } else {
        double x = rval(a.k, a.b), y = rval(b.k, b.b);
        double v = (OPER == 11) ? (x + y) : ((OPER == 12) ? (x - y) : (x * y));
        vf_assert(l.Type == ET::RealNumber && same_real(l.Value.Number.Real, v), 4);
    }
    vf_witness();
}

// ---------------------------------------------------------------- /   (always real; x/0 -> no value)
extern "C" void h_div() {
    Opd a = pick(LK); Opd b = pick(RK);
    QE l, r; mk(l, a.k, a.b); mk(r, b.k, b.b);
    TC tc{nullptr, 0};
    bool ok = tc.evaluateExpression(l, r, OP::Division);
    double x = rval(a.k, a.b), y = rval(b.k, b.b);
    bool zero = (b.k == K_REAL) ? (y == 0.0) : (b.b == 0);
    vf_assert(ok == !zero, 1);
    if (ok) vf_assert(l.Type == ET::RealNumber && same_real(l.Value.Number.Real, x / y), 2);
    vf_witness();
}

// ---------------------------------------------------------------- %   (truncating integer remainder, sign of the dividend)
extern "C" void h_rem() {
    Opd a = pick(LK); Opd b = pick(RK);
    if (a.k == K_REAL) vf_assume(in_i64_range(b2d(a.b)));
    if (b.k == K_REAL) vf_assume(in_i64_range(b2d(b.b)));
    i128 x = (a.k == K_REAL) ? (i128)(i64)b2d(a.b) : ival(a.k, a.b);
    i128 y = (b.k == K_REAL) ? (i128)(i64)b2d(b.b) : ival(b.k, b.b);
    bool big_nat = (a.k == K_NAT && a.b > (u64)I64_MAX) || (b.k == K_NAT && b.b > (u64)I64_MAX);
    bool zero = ((i64)y == 0);                             // 64-bit form (y is a 64-bit word zero- or sign-extended)
    bool ovf  = ((i64)x == I64_MIN && (i64)y == -1);         // as 64-bit signed words: the hardware remainder traps although the result (0) is representable
    // DIVCLS splits the divisor (as a truncated 64-bit signed word) into classes, one query each, so that the solver never has to
    // relate the engine's guarded remainder to the reference across the special cases: 0 = zero, 1 = minus one, 2 = anything else
#ifdef DIVCLS
    if (DIVCLS == 0) vf_assume(zero);
    else if (DIVCLS == 1) vf_assume(!zero && (i64)y == -1);
    else vf_assume(!zero && (i64)y != -1);
#endif
#ifdef KF_EXCL_C04_rem_zero
    vf_assume(!zero);
#endif
#ifdef KF_ONLY_C04_rem_zero
    vf_assume(zero);
#endif
#ifdef KF_EXCL_C04_rem_overflow
    vf_assume(!ovf);
#endif
#ifdef KF_ONLY_C04_rem_overflow
    vf_assume(ovf);
#endif
#ifdef KF_EXCL_C04_natural_rem
    vf_assume(!big_nat);
#endif
#if defined(KF_ONLY_C04_natural_rem) || defined(REM_WIDE)
    vf_assume(big_nat && !zero && !ovf);
#endif
    // The reference remainder is formed BEFORE the engine runs: once evaluateExpression is inlined, its `divisor == 0 / -1` tests are
    // tests on this harness' own operand variable, CBMC's symex re-versions that variable at the join (x := c in the taken branch), and a
    // reference formed afterwards would no longer have syntactically the engine's operands (no back end proves two 64-bit remainders
    // equivalent otherwise).  x % -1 is 0 for every x.
    i128 v = 0;
    if (!(zero || ovf)) {
#ifdef REM_WIDE                                           // Natural operands >= 2^63: remainder on the magnitudes
        v = ref_rem(x, y);
#else                                                     // both operands inside int64: plain C remainder (the wide case is a separate query)
        vf_assume(fits_i64(x) && fits_i64(y));
        v = ((i64)y == -1) ? (i128)0 : (i128)((i64)x % (i64)y);
#endif
        vf_assume(fits_i64(v));
    }
    QE l, r; mk(l, a.k, a.b); mk(r, b.k, b.b);
    TC tc{nullptr, 0};
    bool ok = tc.evaluateExpression(l, r, OP::Remainder);   // x % 0 and INT64_MIN % -1: CBMC's division-by-zero / signed-mod-overflow
                                                            // properties fire inside operator% (the hardware instruction traps)
    if (zero) vf_assert(!ok, 1);                            // no value for a zero divisor
    else if (ovf) vf_assert(!ok || (l.Type == ET::IntegerNumber && l.Value.Number.Integer == 0), 3);   // x % -1 is 0 (or no value), never a trap
    else {
        vf_assert(ok, 4);
        vf_assert(l.Type == ET::IntegerNumber && l.Value.Number.Integer == (i64)v, 2);
    }
    vf_witness();
}

// ---------------------------------------------------------------- & |
extern "C" void h_bit() {
    Opd a = pick(LK); Opd b = pick(RK);
    // reals: only integral values inside the int64 range have an unambiguous bit pattern
    if (a.k == K_REAL) { double d = b2d(a.b); vf_assume(in_i64_range(d) && (double)(i64)d == d); }
    if (b.k == K_REAL) { double d = b2d(b.b); vf_assume(in_i64_range(d) && (double)(i64)d == d); }
    i128 x = (a.k == K_REAL) ? (i128)(i64)b2d(a.b) : ival(a.k, a.b);
    i128 y = (b.k == K_REAL) ? (i128)(i64)b2d(b.b) : ival(b.k, b.b);
    QE l, r; mk(l, a.k, a.b); mk(r, b.k, b.b);
    TC tc{nullptr, 0};
    bool ok = tc.evaluateExpression(l, r, OP(OPER));
    vf_assert(ok, 1);
    i128 v = (OPER == 10) ? (x & y) : (x | y);
    expect_int(l, a.k == K_NAT && b.k == K_NAT, v, (u64)v);
    vf_witness();
}

// ---------------------------------------------------------------- < <= > >= == != && ||   (yield Natural 1 / 0)
extern "C" void h_cmp() {
    Opd a = pick(LK); Opd b = pick(RK);
    bool big_nat = ((a.k == K_NAT && a.b > (u64)I64_MAX) || (b.k == K_NAT && b.b > (u64)I64_MAX)) &&
                   !(a.k == K_REAL && b.k == K_REAL) && !(a.k == K_NAT && b.k == K_REAL);
#ifdef KF_EXCL_C04_natural_cmp
    vf_assume(!big_nat);
#endif
#ifdef KF_ONLY_C04_natural_cmp
    vf_assume(big_nat);
#endif
    QE l, r; mk(l, a.k, a.b); mk(r, b.k, b.b);
    TC tc{nullptr, 0};
    bool ok = tc.evaluateExpression(l, r, OP(OPER));
    vf_assert(ok, 1);
    bool lt, eq;
    if (a.k != K_REAL && b.k != K_REAL) { i128 x = ival(a.k, a.b), y = ival(b.k, b.b); lt = x < y; eq = x == y; }
    else { double x = rval(a.k, a.b), y = rval(b.k, b.b); lt = x < y; eq = x == y; }
    bool tl = (a.k == K_REAL) ? (b2d(a.b) > 0.0) : (ival(a.k, a.b) > 0);       // 'greater than zero' is truth
    bool tr = (b.k == K_REAL) ? (b2d(b.b) > 0.0) : (ival(b.k, b.b) > 0);
    bool v;
    switch (OPER) {
        case 1: v = tl || tr; break;
        case 2: v = tl && tr; break;
        case 3: v = eq; break;
        case 4: v = !eq; break;
        case 5: v = !lt; break;           // >=
        case 6: v = lt || eq; break;      // <=
        case 7: v = !lt && !eq; break;    // >
        default: v = lt; break;           // <
    }
    vf_assert(l.Type == ET::NaturalNumber && l.Value.Number.Natural == (v ? 1ULL : 0ULL), 2);
    vf_witness();
}

// ---------------------------------------------------------------- ^
// integral base b (any kind, |b| < 2^PB, structural bits) and a CONCRETE integral exponent PE (any kind that can hold it).
// reference: |b|^|PE| by repeated multiplication in 64 bits, sign = (b < 0 and PE odd), reciprocal for PE < 0.
// PB <= 4 and |PE| <= 15: the power is below 2^63, so the wrap-around product IS the exact value.
// PB = 64 (|PE| <= 3): the claim is "payload == low word of the exact power" for all bases (exact whenever it fits).
#ifndef PB
#define PB 4
#endif
#ifndef PE
#define PE 2
#endif
#if PB >= 64
#define PB_MASK 0xFFFFFFFFFFFFFFFFULL
#else
#define PB_MASK ((1ULL << PB) - 1ULL)
#endif
static u64 ref_pow(u64 base, unsigned e) { if (e == 0) return 1; u64 v = base; unsigned i = 1; while (i < e) { v = v * base; ++i; } return v; }
static Opd pick_integral(int spec, u64 mask, bool fixed, i64 fixed_val) {   // integral value of any kind; reals are exact integers
    Opd o; o.k = pick_kind(spec);
    u64 mag = vf_u64(); bool neg = vf_u8() & 1;
    mag &= mask;
    if (fixed) { neg = fixed_val < 0; mag = neg ? (u64)(0 - fixed_val) : (u64)fixed_val; }
    if (o.k == K_NAT) { vf_assume(!neg); o.b = mag; }
    else if (o.k == K_INT) { vf_assume(mag <= (u64)I64_MAX); o.b = neg ? (0ULL - mag) : mag; }
    else { vf_assume(mag < (1ULL << 53)); double d = (double)mag; o.b = d2b(neg ? -d : d); }
    return o;
}
extern "C" void h_pow() {
    Opd a = pick_integral(LK, PB_MASK, false, 0); Opd b = pick_integral(RK, 0xFFu, true, PE);
    QE l, r; mk(l, a.k, a.b); mk(r, b.k, b.b);
    // the reference reads the payload back from the operand object (volatile: no store forwarding), so that both sides start from
    // the same memory expression - the 64-bit multiplier / divider equivalence is then syntactic for the SMT back end
    const u64 ab = *(volatile u64 *)&l.Value.Number.Natural;
    bool xneg = (a.k == K_INT) ? ((i64)ab < 0) : ((a.k == K_REAL) ? (b2d(ab) < 0.0) : false);
    u64  mx = (a.k == K_NAT) ? ab : ((a.k == K_INT) ? (xneg ? (0ULL - ab) : ab) : (u64)(xneg ? -b2d(ab) : b2d(ab)));
    const unsigned e = (PE < 0) ? unsigned(-(PE)) : unsigned(PE);
    bool neg_even = xneg && (PE < 0) && ((e & 1u) == 0);
#ifdef KF_EXCL_C04_pow_neg_even_sign
    vf_assume(!neg_even);
#endif
#ifdef KF_ONLY_C04_pow_neg_even_sign
    vf_assume(neg_even);
#endif
    if (PE <= 0) vf_assume(mx != 0);                      // 0^0 and 0^-n: see open questions (engine: 0)
    TC tc{nullptr, 0};
    bool ok = tc.evaluateExpression(l, r, OP::Exponent);
    vf_assert(ok, 1);
    u64  pm  = ref_pow(mx, e);
    bool neg = xneg && ((e & 1u) == 1u);
    if (PE >= 0) {
        // any faithful integer representation is accepted (the kind after ^ is not documented)
        if (l.Type == ET::NaturalNumber) vf_assert(!neg && l.Value.Number.Natural == pm, 2);
        else vf_assert(l.Type == ET::IntegerNumber && l.Value.Number.Natural == (neg ? (0ULL - pm) : pm) && (neg || pm <= (u64)I64_MAX), 3);
    } else {
        vf_assume(pm < (1ULL << 53));                     // the reciprocal of an exactly representable integer
        double want = 1.0 / (double)pm;
        vf_assert(l.Type == ET::RealNumber && same_real(l.Value.Number.Real, neg ? -want : want), 4);
    }
    vf_witness();
}
// fractional base or exponent: never an integer-truncated answer.  |x| in (0,1) -> no value (documented);
// any other non-integral real must not be silently truncated
extern "C" void h_pow_frac() {
    Opd a = pick(LK); Opd b = pick(RK);
    vf_assume(a.k == K_REAL || b.k == K_REAL);
    bool fa = false, fb = false;
    if (a.k == K_REAL) { double d = b2d(a.b); vf_assume(in_i64_range(d)); fa = ((double)(i64)d != d); }
    if (b.k == K_REAL) { double d = b2d(b.b); vf_assume(in_i64_range(d)); fb = ((double)(i64)d != d); }
    vf_assume(fa || fb);
    bool small = false;                                  // a fractional operand of magnitude below one
    if (fa) { double d = b2d(a.b); small = small || (d < 1.0 && d > -1.0); }
    if (fb) { double d = b2d(b.b); small = small || (d < 1.0 && d > -1.0); }
#ifdef KF_EXCL_C04_pow_fraction_trunc
    vf_assume(small);
#endif
#ifdef KF_ONLY_C04_pow_fraction_trunc
    vf_assume(!small);
#endif
    // keep the (irrelevant) integer power short
    if (b.k != K_REAL) vf_assume(ival(b.k, b.b) >= -3 && ival(b.k, b.b) <= 3);
    else { double d = b2d(b.b); vf_assume(d > -4.0 && d < 4.0); }
    QE l, r; mk(l, a.k, a.b); mk(r, b.k, b.b);
    TC tc{nullptr, 0};
    bool ok = tc.evaluateExpression(l, r, OP::Exponent);
    vf_assert(!ok, 1);
    vf_witness();
}

// ---------------------------------------------------------------- == / != on text and variables (isEqual)
#ifndef NT
#define NT 3
#endif
#ifndef SKL
#define SKL (-1)
#endif
#ifndef SKR
#define SKR (-1)
#endif
// kinds of an operand of == : 0 literal text, 1..3 literal number, 4 variable
struct EqSide { unsigned kind; u64 bits; unsigned off, len; };
static SymValue<C> g_root, g_ka, g_kb;
static void mk_sym(SymValue<C> &v, const C *txt) {
    v.ntype = QNumberType(vf_u8() & 3); v.stype = QNumberType(vf_u8() & 3); v.bits = vf_u64();
    v.has_text = vf_u8() & 1; v.is_string = vf_u8() & 1;
    unsigned o = vf_u8(); unsigned n = vf_u8(); vf_assume(o <= NT && n <= NT - o);
    v.text = txt + o; v.text_len = n;
    // the numeric comparison itself is h_cmp's subject: here only the dispatch, so integer kinds suffice
    vf_assume(v.stype != QNumberType::Real);
    vf_assume(sym_value_consistent(v));
}
extern "C" void h_eq_mixed() {
    // content: "a" "b" (variable names at 0 and 1) followed by NT symbolic text units; values' texts live in a second buffer
    C *content = vf_buf<C>(2 + NT); content[0] = C('a'); content[1] = C('b');
    const C *vtxt = vf_buf<C>(NT);
    mk_sym(g_ka, vtxt); mk_sym(g_kb, vtxt);
    bool miss_a = vf_u8() & 1; bool miss_b = vf_u8() & 1;
    g_root.kid_a = miss_a ? nullptr : &g_ka; g_root.kid_b = miss_b ? nullptr : &g_kb;
    EqSide s[2]; QE e[2];
    for (unsigned i = 0; i < 2; i++) {
        s[i].kind = vf_u8(); vf_assume(s[i].kind <= 4);
        { const int want = (i == 0) ? SKL : SKR;            // 0 text, 1 number (any kind), 4 variable, -1 anything
          if (want == 0 || want == 4) vf_assume(s[i].kind == unsigned(want));
          if (want == 1) vf_assume(s[i].kind >= 2 && s[i].kind <= 3);
          vf_assume(s[i].kind != K_REAL); }
        s[i].bits = vf_u64(); s[i].off = vf_u8(); s[i].len = vf_u8();
        if (s[i].kind == 0) {
            vf_assume(s[i].off >= 2 && s[i].off <= 2 + NT && s[i].len <= 2 + NT - s[i].off);
            e[i].Type = ET::NotANumber; e[i].Value.Offset = s[i].off; e[i].Value.Length = s[i].len;
        } else if (s[i].kind <= 3) {
            if (s[i].kind == K_REAL) vf_assume(finite_bits(s[i].bits));
            mk(e[i], s[i].kind, s[i].bits);
        } else {
            vf_assume(s[i].off <= 1);
            e[i].Type = ET::Variable; e[i].Variable.Offset = s[i].off; e[i].Variable.Length = 1; e[i].Variable.IDLength = 0; e[i].Variable.Level = 0;
        }
    }
    TC tc{content, 2 + NT};
    tc.value_ = &g_root;
    bool ok = tc.evaluateExpression(e[0], e[1], OP(OPER));     // OPER 3 (==) or 4 (!=)
    // reference
    bool defined = true, isnum[2], gen[2]; unsigned nk[2]; u64 nb[2]; const C *tp[2]; unsigned tl[2]; bool hastxt[2];
    for (unsigned i = 0; i < 2; i++) {
        isnum[i] = false; gen[i] = false; nk[i] = 0; nb[i] = 0; tp[i] = nullptr; tl[i] = 0; hastxt[i] = false;
        if (s[i].kind == 0) { tp[i] = content + s[i].off; tl[i] = s[i].len; hastxt[i] = true; }
        else if (s[i].kind <= 3) { isnum[i] = true; gen[i] = true; nk[i] = s[i].kind; nb[i] = s[i].bits; }
        else {
            const SymValue<C> *v = (s[i].off == 0) ? g_root.kid_a : g_root.kid_b;
            if (v == nullptr) defined = false;                  // missing variable
            else {
                gen[i] = (v->ntype != QNumberType::NotANumber);
                if (v->stype != QNumberType::NotANumber) { isnum[i] = true; nk[i] = unsigned(v->stype); nb[i] = v->bits; }
                if (v->has_text) { hastxt[i] = true; tp[i] = v->text; tl[i] = v->text_len; }
            }
        }
    }
    bool v = false;
    if (defined) {
        if (gen[0] || gen[1]) {                                 // numeric when either side is a number: the other one is converted
            if (!(isnum[0] && isnum[1])) defined = false;
            else {
                bool big_nat = ((nk[0] == K_NAT && nb[0] > (u64)I64_MAX) || (nk[1] == K_NAT && nb[1] > (u64)I64_MAX)) &&
                               !(nk[0] == K_REAL && nk[1] == K_REAL) && !(nk[0] == K_NAT && nk[1] == K_REAL) && !(nk[0] == K_NAT && nk[1] == K_NAT);
#ifdef KF_EXCL_C04_natural_cmp
                vf_assume(!big_nat);
#endif
                if (nk[0] != K_REAL && nk[1] != K_REAL) v = (ival(nk[0], nb[0]) == ival(nk[1], nb[1]));
                else v = (rval(nk[0], nb[0]) == rval(nk[1], nb[1]));
            }
        } else {                                                // textual when neither is
            if (!(hastxt[0] && hastxt[1])) defined = false;
            else {
                v = (tl[0] == tl[1]);
                if (v) { unsigned j = 0; while (j < tl[0]) { if (tp[0][j] != tp[1][j]) v = false; ++j; } }
            }
        }
    }
    vf_assert(ok == defined, 1);
    if (ok) vf_assert(e[0].Type == ET::NaturalNumber && e[0].Value.Number.Natural == (((OPER == 3) ? v : !v) ? 1ULL : 0ULL), 2);
    vf_witness();
}

// C16: hash arrays with OWNING keys and values (HArray<String<char>, String<char>>): a short concrete history of inserts / replacements / removals,
// then destruction; CBMC's memory-leak, double-free and deallocated-object properties decide "released exactly once".  Key texts are concrete per query
// (a symbolic key makes the table shape symbolic); the value contents are symbolic.
#include "HArray.hpp"
#include "String.hpp"
#include "vf.h"
using namespace Qentem;
typedef String<char> S;
typedef HArray<S, S> H;
#ifndef OP
#define OP 0
#endif
#ifndef SAME
#define SAME 1     /* second key equals the first (replacement) or not */
#endif
static S mk(unsigned n) { char b[4]; for (unsigned i = 0; i < 4; i++) b[i] = (char)vf_u8(); return S{static_cast<const char *>(b), SizeT(n)}; }
extern "C" void h_harray() {
    {
        H h;
        const char k1 = 'a', k2 = (SAME ? 'a' : 'b');
        h.Insert(S{&k1, SizeT{1}}, mk(3));
        unsigned expect = SAME ? 1u : 2u;
#if OP == 0          /* Insert(Key&&, Value&&) */
        h.Insert(S{&k2, SizeT{1}}, mk(2));
#elif OP == 1        /* Insert(const Key&, const Value&) */
        { S k{&k2, SizeT{1}}; S v = mk(2); h.Insert(k, v); }
#elif OP == 2        /* Insert(ptr, len, Value&&) */
        h.Insert(&k2, SizeT{1}, mk(2));
#elif OP == 3        /* operator[] then assignment */
        h[S{&k2, SizeT{1}}] = mk(2);
#elif OP == 4        /* Get() then assignment */
        h.Get(&k2, SizeT{1}) = mk(2);
#elif OP == 5        /* replacement, then removal of the key, then the same key again */
        h.Insert(S{&k2, SizeT{1}}, mk(2)); h.Remove(&k2, SizeT{1}); h.Insert(S{&k2, SizeT{1}}, mk(1)); 
#elif OP == 6        /* copy of the table, replacement in the copy */
        { H c{h}; c.Insert(S{&k2, SizeT{1}}, mk(2)); vf_assert(c.Size() >= 1, 3); }
        expect = 1u;
#endif
#if OP != 5
        vf_assert(h.ActualSize() == expect, 1);
#endif
        const S *v = h.GetValue(&k2, SizeT{1});
        vf_assert(OP == 6 ? (SAME ? v != nullptr : v == nullptr) : (v != nullptr), 2);
    }
    vf_witness();
}

// C10 (b), stage (iii): the decimal string kernels of Digit::realToString --
//   formatStringNumberFixed<true|false>, formatStringNumberDefault, roundStringNumber
// driven directly over a symbolic REVERSED digit run (what bigIntToString leaves in the stream) with the side values
// realToString passes along.  Model of the call site (Digit.hpp:752-855), for a finite non-zero value V:
//   the run holds the NDIG decimal digits (least significant first, top digit non-zero) of  B = floor(V * 10^fl),
//   fl = fraction_length;  round_up ("sticky") is true iff V * 10^fl is not an integer;  calculated_digits = digits(2^|e|).
//   MODE 0  integer-valued V            : fl = 0, sticky = 0, cd in {I-1, I}                     (I = integer digits = NDIG)
//   MODE 1  V >= 1 with a fraction      : 1 <= fl <= p+1, sticky => fl = p+1, I = NDIG - fl >= 1, cd in {I-1, I}
//   MODE 2  V < 1                       : fl <= cd+p+1, sticky => fl = cd+p+1, NDIG in {fl-cd+1, fl-cd+2}, NDIG <= fl
// Oracle (Fixed / SemiFixed):  text == printf("%.{p}f", V): R = round-half-even(V * 10^p) computed on the digit run
// (rounding digit, sticky = lower digits non-zero or round_up, parity of the digit above), printed with p decimals;
// SemiFixed additionally drops trailing fractional zeros and a then-bare point.  Existing stream content is untouched.
#include "fixed_stream.hpp"
#include "Digit.hpp"
#include "vf.h"
using namespace Qentem;
#ifndef NDIG
#define NDIG 3
#endif
#ifndef MODE
#define MODE 1
#endif
#ifndef FIXED
#define FIXED 1
#endif
#ifndef CHAR
#define CHAR char
#endif
#ifndef PMAX
#define PMAX 4
#endif
#ifndef CDMAX
#define CDMAX 3
#endif
typedef CHAR C;
typedef unsigned long long u64;
enum : unsigned { CAP = 40 };
struct FS : FixedStream<C, CAP> {     // see C10_int.cpp: plain `char` arguments must convert like in StringStream
    void operator+=(C c) { FixedStream<C, CAP>::operator+=(c); }
};
static bool is_digit(C c) { return c >= C('0') && c <= C('9'); }

struct In {
    unsigned pl, p, fl, cd; bool ru; C p0, p1; C d[NDIG];
};
static void draw(In &in) {
    in.pl = vf_u8(); in.p0 = vf_any<C>(); in.p1 = vf_any<C>();
    in.p = vf_u8(); in.fl = vf_u8(); in.cd = vf_u8(); in.ru = (vf_u8() & 1U) != 0U;
    vf_assume(in.pl <= 2U && in.p <= PMAX && in.cd >= 1U && in.cd <= CDMAX + NDIG);
    unsigned i = 0;
    while (i < NDIG) { in.d[i] = vf_any<C>(); vf_assume(is_digit(in.d[i])); ++i; }
    vf_assume(in.d[NDIG - 1U] != C('0'));
    if (MODE == 0) {
        vf_assume(in.fl == 0U && !in.ru && (in.cd == NDIG || in.cd + 1U == NDIG));
    } else if (MODE == 1) {
        vf_assume(in.fl >= 1U && in.fl <= in.p + 1U && in.fl < NDIG && (!in.ru || in.fl == in.p + 1U));
        vf_assume(in.cd == NDIG - in.fl || in.cd + 1U == NDIG - in.fl);
    } else {
        vf_assume(in.cd <= CDMAX && in.fl <= in.cd + in.p + 1U && (!in.ru || in.fl == in.cd + in.p + 1U));
        vf_assume(NDIG <= in.fl && (NDIG + in.cd == in.fl + 1U || NDIG + in.cd == in.fl + 2U));
    }
}
static void fill(FS &s, const In &in) {
    if (in.pl >= 1U) s += in.p0;
    if (in.pl >= 2U) s += in.p1;
    unsigned i = 0;
    while (i < NDIG) { s += in.d[i]; ++i; }
}
static unsigned digit_at(const In &in, unsigned pos) { return (pos < NDIG) ? unsigned(in.d[pos] - C('0')) : 0U; }

// R = round-half-even(V * 10^p), from the digit run of B = floor(V * 10^fl) and the sticky flag
static u64 ref_round(const In &in) {
    u64 q = 0;
    if (in.fl <= in.p) {                      // nothing to cut: R = B * 10^(p - fl)   (sticky is false here by the model)
        unsigned i = NDIG;
        while (i > 0U) { --i; q = q * 10U + digit_at(in, i); }
        unsigned z = in.p - in.fl;
        while (z > 0U) { q *= 10U; --z; }
        return q;
    }
    const unsigned k = in.fl - in.p;          // digits cut: positions 0 .. k-1
    unsigned i = NDIG;
    while (i > k) { --i; q = q * 10U + digit_at(in, i); }
    const unsigned rd = digit_at(in, k - 1U);
    bool lower = in.ru;
    unsigned j = 0;
    while (j + 1U < k) { if (digit_at(in, j) != 0U) lower = true; ++j; }
    const bool up = (rd > 5U) || (rd == 5U && (lower || (digit_at(in, k) & 1U) != 0U));
    return q + (up ? 1U : 0U);
}

// parse  digits [ '.' digits ]  from o[0..n): value of all digits, number of fraction digits; false if malformed
struct Out { bool ok, dot; unsigned nint, nfrac; u64 val; C first, last; };
static Out parse(const C *o, unsigned n) {
    Out r; r.ok = true; r.dot = false; r.nint = 0; r.nfrac = 0; r.val = 0; r.first = C('0'); r.last = C('0');
    unsigned i = 0;
    while (i < n) {
        const C c = o[i];
        if (c == C('.')) { if (r.dot) r.ok = false; r.dot = true; }
        else if (is_digit(c)) {
            if (i == 0U) r.first = c;
            r.val = r.val * 10U + u64(c - C('0'));
            if (r.dot) ++r.nfrac; else ++r.nint;
            r.last = c;
        } else r.ok = false;
        ++i;
    }
    return r;
}

extern "C" void h_fixed() {
    In in;
    draw(in);
    const u64 R = ref_round(in);
    // known finding classes, identified by the shape of the input
    //  * precision 0 in Fixed format: a bare '.' is appended
    const bool prec0_dot = (FIXED != 0) && in.p == 0U;
    //  * the integer part ends in '0', the kept fraction is all zeros after rounding, and calculated_digits is the low
    //    estimate (I-1): trimmed integer zeros are not all restored
    bool low_zero = true;                      // the last integer digit and every kept fraction digit of R are '0'
    {
        u64 t = R;
        unsigned i = 0;
        while (i <= in.p) { if (t % 10U != 0U) low_zero = false; t /= 10U; ++i; }
    }
    const bool trim_zeros = (MODE != 2) && low_zero && (in.cd + 1U == NDIG - in.fl);
#ifdef KF_EXCL_C10_trim_integer_zeros
    vf_assume(!trim_zeros);
#endif
#ifdef KF_ONLY_C10_trim_integer_zeros
    vf_assume(trim_zeros);
#endif
#ifdef KF_EXCL_C10_prec0_dot
    vf_assume(!prec0_dot);
#endif
#ifdef KF_ONLY_C10_prec0_dot
    vf_assume(prec0_dot);
#endif
    FS s;
    fill(s, in);
    if (FIXED) Digit::formatStringNumberFixed<true>(s, SizeT(in.pl), in.p, in.cd, in.fl, in.ru);
    else Digit::formatStringNumberFixed<false>(s, SizeT(in.pl), in.p, in.cd, in.fl, in.ru);
    vf_assert(!s.overflow && s.Length() > in.pl, 1);
    if (in.pl >= 1U) vf_assert(s.First()[0] == in.p0, 2);
    if (in.pl >= 2U) vf_assert(s.First()[1] == in.p1, 3);
    const Out o = parse(s.First() + in.pl, s.Length() - in.pl);
    vf_assert(o.ok && o.nint >= 1U, 4);
    vf_assert(o.nint == 1U || o.first != C('0'), 5);                 // no leading zero
    if (FIXED) {
        vf_assert(o.nfrac == in.p, 6);
        vf_assert(o.dot == (in.p != 0U), 7);
        vf_assert(o.val == R, 8);
    } else {
        vf_assert(o.nfrac <= in.p, 9);
        vf_assert(o.dot == (o.nfrac != 0U), 10);                     // no bare point
        vf_assert(o.nfrac == 0U || o.last != C('0'), 11);            // trailing fractional zeros removed
        u64 v = o.val;
        unsigned z = in.p - o.nfrac;
        while (z > 0U && z <= PMAX) { v *= 10U; --z; }
        vf_assert(v == R, 12);
    }
    vf_witness();
}

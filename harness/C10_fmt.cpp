// C10 (b), stage (iii): the decimal string kernels of Digit::realToString --
//   formatStringNumberFixed<true|false>, formatStringNumberDefault, roundStringNumber
// driven directly over a symbolic REVERSED digit run (what bigIntToString leaves in the stream) with the side values
// realToString passes along.  Model of the call site (Digit.hpp:752-855), for a finite non-zero value V:
//   the run holds the NDIG decimal digits (least significant first, top digit non-zero) of  B = floor(V * 10^fl),
//   fl = fraction_length;  round_up ("sticky") is true iff V * 10^fl is not an integer;  calculated_digits = digits(2^|e|).
//   MODE 0  integer-valued V            : fl = 0, sticky = 0, cd in {I-1, I}                     (I = integer digits = NDIG)
//   MODE 1  V >= 1 with a fraction      : 1 <= fl <= p+1, sticky => fl = p+1, I = NDIG - fl >= 1, cd in {I-1, I}
//   MODE 2  V < 1                       : fl <= cd+p+1, sticky => fl = cd+p+1, NDIG in {fl-cd+1, fl-cd+2}, NDIG <= fl
// Oracle (Fixed / SemiFixed):  text == printf("%.{p}f", V): R = round-half-even(V * 10^p) computed digit-wise on the run
// (rounding digit, sticky = lower digits non-zero or round_up, parity of the digit above, ripple carry), printed with p
// decimals; SemiFixed additionally drops trailing fractional zeros and a then-bare point.  The expected text is built as
// a digit array and compared unit by unit (no arithmetic on either side).  Existing stream content is untouched.
#include "fixed_stream.hpp"
#include "Digit.hpp"
#include "vf.h"
using namespace Qentem;
#ifndef NDIG
#define NDIG 3
#endif
#ifndef MODE
#define MODE 1
#endif
#ifndef FIXED
#define FIXED 1
#endif
#ifndef CHAR
#define CHAR char
#endif
#ifndef PMAX
#define PMAX 4
#endif
#ifndef CDMAX
#define CDMAX 3
#endif
typedef CHAR C;
typedef unsigned long long u64;
#ifndef PMIN
#define PMIN 0      /* lowest precision drawn (a high PMIN with PMAX == PMIN exercises the long zero padding) */
#endif
#ifndef CAPX
#define CAPX 24
#endif
enum : unsigned { CAP = CAPX };
struct FS : FixedStream<C, CAP> {     // see C10_int.cpp: plain `char` arguments must convert like in StringStream
    void operator+=(C c) { FixedStream<C, CAP>::operator+=(c); }
};
static bool is_digit(C c) { return c >= C('0') && c <= C('9'); }

struct In {
    unsigned pl, p, fl, cd; bool ru; C p0, p1; C d[NDIG];
};
static unsigned digit_at(const In &in, unsigned pos) { return (pos < NDIG) ? unsigned(in.d[pos] - C('0')) : 0U; }
static void draw(In &in) {
    in.pl = vf_u8(); in.p0 = vf_any<C>(); in.p1 = vf_any<C>();
    // a pinned precision (PMIN == PMAX: the long-padding queries) is a constant, so that the padding lengths fold
    in.p = (PMIN == PMAX) ? unsigned(PMAX) : unsigned(vf_u8()); in.fl = vf_u8(); in.cd = vf_u8(); in.ru = (vf_u8() & 1U) != 0U;
    vf_assume(in.pl <= 2U && in.p <= PMAX && in.p >= PMIN && in.cd >= 1U && in.cd <= CDMAX + NDIG);
    unsigned i = 0;
    while (i < NDIG) { in.d[i] = vf_any<C>(); vf_assume(is_digit(in.d[i])); ++i; }
    vf_assume(in.d[NDIG - 1U] != C('0'));
    // without sticky the run is exact: V * 10^fl = odd * 5^fl, so (for fl >= 1) its last digit is 5
    // (B is odd * 5^fl: last two digits 25/75 for fl >= 2, last three 125/375/625/875 for fl >= 3, last four x625-pattern)
    if (MODE != 0 && !in.ru) {
        const unsigned d0 = digit_at(in, 0), d1 = digit_at(in, 1), d2 = digit_at(in, 2), d3 = digit_at(in, 3);
        vf_assume(d0 == 5U);
        if (in.fl >= 2U) vf_assume(d1 == 2U || d1 == 7U);
        if (in.fl >= 3U) vf_assume((d1 == 2U) ? (d2 == 1U || d2 == 6U) : (d2 == 3U || d2 == 8U));
        if (in.fl >= 4U) {
            const unsigned low3 = d2 * 100U + d1 * 10U + d0;     // 125 375 625 875
            const unsigned low4 = d3 * 1000U + low3;
            vf_assume(low4 == 625U || low4 == 1875U || low4 == 3125U || low4 == 4375U || low4 == 5625U || low4 == 6875U || low4 == 8125U || low4 == 9375U);
        }
    }
    if (MODE == 0) {
        vf_assume(in.fl == 0U && !in.ru && (in.cd == NDIG || in.cd + 1U == NDIG));
    } else if (MODE == 1) {
        vf_assume(in.fl >= 1U && in.fl <= in.p + 1U && in.fl < NDIG && (!in.ru || in.fl == in.p + 1U));
        vf_assume(in.cd == NDIG - in.fl || in.cd + 1U == NDIG - in.fl);
    } else {
        vf_assume(in.cd <= CDMAX && in.fl <= in.cd + in.p + 1U && (!in.ru || in.fl == in.cd + in.p + 1U));
        vf_assume(NDIG <= in.fl && (NDIG + in.cd == in.fl + 1U || NDIG + in.cd == in.fl + 2U));
    }
}
static void fill(FS &s, const In &in) {
    // the bytes beyond the stream's length are arbitrary but fixed (stale content of a reused buffer), so that a read past
    // the end is replayable
    unsigned g = 0;
    while (g < CAP) { s.buf[g] = vf_any<C>(); ++g; }
    if (in.pl >= 1U) s += in.p0;
    if (in.pl >= 2U) s += in.p1;
    unsigned i = 0;
    while (i < NDIG) { s += in.d[i]; ++i; }
}

enum : unsigned { RCAP = NDIG + PMAX + 2 };
// digits of R = round-half-even(V * 10^p), least significant first, from the run of B = floor(V * 10^fl) and the sticky flag
struct Rd { unsigned char g[RCAP]; unsigned m; bool tie, up; };   // m == 0 means R == 0; tie: exact half (no sticky)
static Rd ref_round(const In &in) {
    Rd r; r.m = 0; r.tie = false; r.up = false;
    unsigned i = 0;
    while (i < RCAP) { r.g[i] = 0; ++i; }
    if (in.fl <= in.p) {                      // nothing to cut: R = B * 10^(p - fl)   (sticky is false here by the model)
        const unsigned z = in.p - in.fl;
        i = 0;
        while (i < NDIG) { r.g[z + i] = (unsigned char)digit_at(in, i); ++i; }
        r.m = z + NDIG;
        return r;
    }
    const unsigned k = in.fl - in.p;          // digits cut: positions 0 .. k-1
    i = k;
    while (i < NDIG) { r.g[i - k] = (unsigned char)digit_at(in, i); ++i; }
    r.m = (NDIG > k) ? (NDIG - k) : 0U;
    const unsigned rd = digit_at(in, k - 1U);
    bool lower = in.ru;
    unsigned j = 0;
    while (j + 1U < k) { if (digit_at(in, j) != 0U) lower = true; ++j; }
    r.tie = (rd == 5U) && !lower;
    r.up = (rd > 5U) || (rd == 5U && (lower || (digit_at(in, k) & 1U) != 0U));
    if (r.up) {                               // ripple carry
        i = 0;
        bool carry = true;
        while (carry && i < r.m) { if (r.g[i] == 9) { r.g[i] = 0; } else { ++r.g[i]; carry = false; } ++i; }
        if (carry) { r.g[r.m] = 1; ++r.m; }
    }
    return r;
}
// expected text for R with p decimals; SemiFixed drops trailing fractional zeros and the bare point
struct Txt { C t[RCAP + 3]; unsigned n; };
static Txt ref_text(const Rd &r, unsigned p, bool fixed) {
    Txt x; x.n = 0;
    unsigned i = r.m;
    if (r.m <= p) { x.t[x.n] = C('0'); ++x.n; }                        // integer part
    while (i > p) { --i; x.t[x.n] = C('0' + r.g[i]); ++x.n; }
    unsigned keep = p;                                                  // fraction digits to print
    if (!fixed) {
        unsigned lo = 0;
        while (lo < p && r.g[lo] == 0) ++lo;                            // trailing zeros (positions 0 .. lo-1)
        keep = p - lo;
    }
    if (keep != 0U) {
        x.t[x.n] = C('.'); ++x.n;
        unsigned j = 0;
        while (j < keep) { x.t[x.n] = C('0' + r.g[p - 1U - j]); ++x.n; ++j; }
    }
    return x;
}

extern "C" void h_fixed() {
    In in;
    draw(in);
    const Rd R = ref_round(in);
    const Txt want = ref_text(R, in.p, FIXED != 0);
    // ---- known finding classes, identified by the shape of the input ----
    // (1) Fixed format, precision 0: a bare '.' is appended ("7." for 7)
    const bool prec0_dot = (FIXED != 0) && in.p == 0U;
    // (2) after rounding, the last integer digit and every kept fraction digit are '0' and calculated_digits is the low
    //     estimate (I-1): the zero-trimming loop runs into the integer part and not all zeros are restored (11150.001 -> 1115)
    bool low_zero = (R.m > in.p);
    {
        unsigned i = 0;
        while (i <= in.p) { if (R.g[i] != 0) low_zero = false; ++i; }
    }
    const bool trim_zeros = (MODE != 2) && low_zero && (in.cd + 1U == NDIG - in.fl);
    // (3) V < 0.1 (leading fraction zeros missing from the run) and the cut is an exact half: rounded up instead of to even
    const bool tie_lead = (MODE == 2) && in.fl > in.p && R.tie && NDIG < in.fl;
    // (4) precision 0, V < 1 rounding up to 1: nothing / a lone point is printed
    const bool prec0_one = (MODE == 2) && in.p == 0U && R.m == 1U;
    // (5) the rounding digit is the top digit of the run, an exact half, nothing sticky: the parity is read from the unit
    //     after the end of the stream content (0.5 at precision 0)
    const bool past_end = in.fl > in.p && in.fl - in.p == NDIG && R.tie && !(NDIG < in.fl);
#ifdef KF_EXCL_C10_round_reads_past_end
    vf_assume(!past_end);
#endif
#ifdef KF_ONLY_C10_round_reads_past_end
    vf_assume(past_end);
#endif
#ifdef KF_EXCL_C10_prec0_dot
    vf_assume(!prec0_dot);
#endif
#ifdef KF_ONLY_C10_prec0_dot
    vf_assume(prec0_dot);
#endif
#ifdef KF_EXCL_C10_trim_integer_zeros
    vf_assume(!trim_zeros);
#endif
#ifdef KF_ONLY_C10_trim_integer_zeros
    vf_assume(trim_zeros);
#endif
#ifdef KF_EXCL_C10_tie_leading_zeros
    vf_assume(!tie_lead);
#endif
#ifdef KF_ONLY_C10_tie_leading_zeros
    vf_assume(tie_lead);
#endif
#ifdef KF_EXCL_C10_prec0_round_to_one
    vf_assume(!prec0_one);
#endif
#ifdef KF_ONLY_C10_prec0_round_to_one
    vf_assume(prec0_one);
#endif
    FS s;
    fill(s, in);
    if (FIXED) Digit::formatStringNumberFixed<true>(s, SizeT(in.pl), in.p, in.cd, in.fl, in.ru);
    else Digit::formatStringNumberFixed<false>(s, SizeT(in.pl), in.p, in.cd, in.fl, in.ru);
    vf_assert(!s.overflow && s.Length() >= in.pl, 1);
    if (in.pl >= 1U) vf_assert(s.First()[0] == in.p0, 2);
    if (in.pl >= 2U) vf_assert(s.First()[1] == in.p1, 3);
    vf_assert(s.Length() - in.pl == want.n, 4);
    unsigned i = vf_u8();
    vf_assume(i < want.n);
    vf_assert(s.First()[in.pl + i] == want.t[i], 5);
    vf_witness();
}

// ---- Default format ("%.{p}g") ----------------------------------------------------------------------------------------
// Call-site model (Digit.hpp:758-833, Default): cd = digits(2^|e|);
//   MODE 0  V >= 1 printed without fraction digits (integer-valued, or cd > p): fl = 0, the run is floor(V / 10^drop) with
//           drop = cd > p ? cd - (p+1) : 0, NDIG = I - drop, I in {cd, cd+1}; sticky = (drop != 0) is what the call site passes
//   MODE 1  V >= 1, cd <= p, fraction present: 1 <= fl <= p - cd + 1, sticky => fl = p - cd + 1, I = NDIG - fl in {cd, cd+1}
//   MODE 2  V < 1: as for Fixed
// Oracle: P = max(p,1) significant digits, round-half-even on the run, X = decimal exponent after rounding, trailing
// zeros removed; scientific form d[.ddd]e(+|-)XX iff X < -4 or X >= P, else positional.
#ifndef DROPMAX
#define DROPMAX 3
#endif
struct TxtD { C t[NDIG + PMAX + 16]; unsigned n; };
extern "C" void h_default() {
    In in;
    in.pl = vf_u8(); in.p0 = vf_any<C>(); in.p1 = vf_any<C>();
    in.p = vf_u8(); in.fl = vf_u8(); in.cd = vf_u8(); in.ru = (vf_u8() & 1U) != 0U;
    vf_assume(in.pl <= 2U && in.p <= PMAX && in.p >= PMIN && in.cd >= 1U);
    {
        unsigned i = 0;
        while (i < NDIG) { in.d[i] = vf_any<C>(); vf_assume(is_digit(in.d[i])); ++i; }
    }
    vf_assume(in.d[NDIG - 1U] != C('0'));
    unsigned drop = 0;
    if (MODE == 0) {
        drop = (in.cd > in.p) ? (in.cd - (in.p + 1U)) : 0U;
        vf_assume(drop <= DROPMAX && in.fl == 0U && (in.cd == NDIG + drop || in.cd + 1U == NDIG + drop) && (in.ru == (drop != 0U)));
    } else if (MODE == 1) {
        vf_assume(in.cd <= in.p && in.fl >= 1U && in.fl <= in.p - in.cd + 1U && in.fl < NDIG && (!in.ru || in.fl == in.p - in.cd + 1U));
        vf_assume(in.cd == NDIG - in.fl || in.cd + 1U == NDIG - in.fl);
    } else {
        vf_assume(in.cd <= CDMAX && in.fl <= in.cd + in.p + 1U && (!in.ru || in.fl == in.cd + in.p + 1U));
        vf_assume(NDIG <= in.fl && (NDIG + in.cd == in.fl + 1U || NDIG + in.cd == in.fl + 2U));
    }
    if (MODE != 0 && !in.ru) {
        const unsigned d0 = digit_at(in, 0), d1 = digit_at(in, 1), d2 = digit_at(in, 2);
        vf_assume(d0 == 5U);
        if (in.fl >= 2U) vf_assume(d1 == 2U || d1 == 7U);
        if (in.fl >= 3U) vf_assume((d1 == 2U) ? (d2 == 1U || d2 == 6U) : (d2 == 3U || d2 == 8U));
    }
    // ---- reference ----
    const unsigned P = (in.p == 0U) ? 1U : in.p;
    unsigned char g[NDIG + 1];          // significant digits after rounding, most significant first
    unsigned L = NDIG;                  // their count
    int X = int(NDIG) - 1 - int(in.fl) + int(drop);
    {
        unsigned i = 0;
        while (i < NDIG) { g[i] = (unsigned char)digit_at(in, NDIG - 1U - i); ++i; }
        g[NDIG] = 0;
    }
    bool lost = false;
    if (NDIG > P) {
        const unsigned rd = g[P];
        bool lower = in.ru;
        unsigned j = P + 1U;
        while (j < NDIG) { if (g[j] != 0) lower = true; ++j; }
        lost = (rd == 5U) && lower && !in.ru;      // a non-zero digit below the rounding digit inside the run, sticky not set
        const bool up = (rd > 5U) || (rd == 5U && (lower || (g[P - 1U] & 1U) != 0U));
        L = P;
        if (up) {
            unsigned i = P;
            bool carry = true;
            while (carry && i > 0U) { --i; if (g[i] == 9) g[i] = 0; else { ++g[i]; carry = false; } }
            if (carry) { g[0] = 1; ++X; }      // 99..9 -> 100..0 : digits after the 1 are already 0
        }
    }
    while (L > 1U && g[L - 1U] == 0) --L;     // %g removes trailing zeros
    TxtD w; w.n = 0;
    const bool sci = (X < -4) || (X >= int(P));
    if (sci) {
        w.t[w.n] = C('0' + g[0]); ++w.n;
        if (L > 1U) {
            w.t[w.n] = C('.'); ++w.n;
            unsigned i = 1;
            while (i < L) { w.t[w.n] = C('0' + g[i]); ++w.n; ++i; }
        }
        w.t[w.n] = C('e'); ++w.n;
        w.t[w.n] = (X < 0) ? C('-') : C('+'); ++w.n;
        const unsigned ax = unsigned(X < 0 ? -X : X);
        w.t[w.n] = C('0' + (ax / 10U) % 10U); ++w.n;
        w.t[w.n] = C('0' + ax % 10U); ++w.n;
    } else if (X >= 0) {
        unsigned i = 0;
        while (i <= unsigned(X)) { w.t[w.n] = (i < L) ? C('0' + g[i]) : C('0'); ++w.n; ++i; }
        if (L > unsigned(X) + 1U) {
            w.t[w.n] = C('.'); ++w.n;
            while (i < L) { w.t[w.n] = C('0' + g[i]); ++w.n; ++i; }
        }
    } else {
        w.t[w.n] = C('0'); ++w.n;
        w.t[w.n] = C('.'); ++w.n;
        unsigned z = unsigned(-X) - 1U;
        while (z > 0U) { w.t[w.n] = C('0'); ++w.n; --z; }
        unsigned i = 0;
        while (i < L) { w.t[w.n] = C('0' + g[i]); ++w.n; ++i; }
    }
    // ---- known finding classes ----
    const bool d_prec0 = (in.p == 0U);                                   // precision 0 is not treated as 1
    // positional form whose integer part ends in zeros that are not significant digits any more, low estimate cd = I-1
    const bool d_trim = (MODE == 1) && !sci && X >= 0 && L < unsigned(X) + 1U && (in.cd + 1U == NDIG - in.fl);
#ifdef KF_EXCL_C10_trim_integer_zeros
    vf_assume(!d_trim);
#endif
#ifdef KF_ONLY_C10_trim_integer_zeros
    vf_assume(d_trim);
#endif
    // the run is two digits longer than the precision (digit-count estimate one short): the digit below the rounding
    // digit is not folded into the sticky flag, values just above a tie round down (12455 at 3 -> 1.24e+04)
#ifdef KF_EXCL_C10_default_sticky_lost
    vf_assume(!lost);
#endif
#ifdef KF_ONLY_C10_default_sticky_lost
    vf_assume(lost);
#endif
#ifdef KF_EXCL_C10_default_prec0
    vf_assume(!d_prec0);
#endif
#ifdef KF_ONLY_C10_default_prec0
    vf_assume(d_prec0);
#endif
    FS s;
    fill(s, in);
    Digit::formatStringNumberDefault(s, SizeT(in.pl), in.p, in.cd, in.fl, MODE != 2, in.ru);
    vf_assert(!s.overflow && s.Length() >= in.pl, 1);
    if (in.pl >= 1U) vf_assert(s.First()[0] == in.p0, 2);
    if (in.pl >= 2U) vf_assert(s.First()[1] == in.p1, 3);
    vf_assert(s.Length() - in.pl == w.n, 4);
    unsigned i = vf_u8();
    vf_assume(i < w.n);
    vf_assert(s.First()[in.pl + i] == w.t[i], 5);
    vf_witness();
}

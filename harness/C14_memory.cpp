// C14 (b): Memory::Copy / Memory::SetToZero vs the byte-wise definition, in the scalar, SSE2 and AVX2 builds
// (the build configuration is chosen by the query's cflags: none | -DQENTEM_SSE2=1 -msse2 | -DQENTEM_AVX2=1 -mavx2).
// LEN (bytes) and the offsets of the operated range inside its allocation are concrete per query; contents symbolic.
// The buffers are exact-size heap allocations with PRE guard bytes before and POST guard bytes after the range,
// so that any access outside [0,LEN) that stays inside the allocation shows up as a changed guard byte, and any
// access outside the allocation as a CBMC bounds failure.
#include "Memory.hpp"
#include "vf.h"
using namespace Qentem;
#ifndef LEN
#define LEN 5
#endif
#ifndef PRE
#define PRE 1
#endif
#ifndef POST
#define POST 1
#endif
#ifndef SPRE          // misalignment of the source relative to the destination
#define SPRE 0
#endif
#ifndef NUM
#define NUM SizeT
#endif

extern "C" void h_copy() {
    const unsigned total = PRE + LEN + POST;
    unsigned char *d = vf_buf<unsigned char>(total);
    unsigned char *s = vf_buf<unsigned char>(SPRE + LEN);
    unsigned i = vf_u32();
    vf_assume(i < total);
    const unsigned char before = d[i];
    unsigned j = vf_u32();
    vf_assume(j < SPRE + LEN);
    const unsigned char sbefore = s[j];
    NUM len = vf_any<NUM>();                            // opaque to the compiler, concrete for the solver
    vf_assume(len == LEN);
    Memory::Copy<NUM>(d + PRE, s + SPRE, len);
    vf_assert(s[j] == sbefore, 3);                      // the source is only read
    if (i >= PRE && i < PRE + LEN) {
        vf_assert(d[i] == s[SPRE + (i - PRE)], 1);      // destination equals source
    } else {
        vf_assert(d[i] == before, 2);                   // bytes outside [0,LEN) untouched
    }
    vf_witness();
}

extern "C" void h_zero() {
    const unsigned total = PRE + LEN + POST;
    unsigned char *d = vf_buf<unsigned char>(total);
    unsigned i = vf_u32();
    vf_assume(i < total);
    const unsigned char before = d[i];
    NUM len = vf_any<NUM>();
    vf_assume(len == LEN);
    Memory::SetToZero<NUM>(d + PRE, len);
    if (i >= PRE && i < PRE + LEN) {
        vf_assert(d[i] == 0, 1);
    } else {
        vf_assert(d[i] == before, 2);
    }
    vf_witness();
}

// forward-overlapping copy inside ONE block (destination below the source by SHIFT bytes), as done by
// `stream = view-of-its-own-storage`: every build must behave like the byte-wise forward loop, i.e. like memmove
#ifndef SHIFT
#define SHIFT 1
#endif
extern "C" void h_copy_fwd() {
    const unsigned total = LEN + SHIFT;
    unsigned char *d = vf_buf<unsigned char>(total);
    unsigned i = vf_u32();
    vf_assume(i < total);
    const unsigned char old_i = d[i];
    const unsigned char old_s = (i < LEN) ? d[i + SHIFT] : (unsigned char)0;
    NUM len = vf_any<NUM>();
    vf_assume(len == LEN);
    Memory::Copy<NUM>(d, d + SHIFT, len);
    if (i < LEN) {
        vf_assert(d[i] == old_s, 1);
    } else {
        vf_assert(d[i] == old_i, 2);
    }
    vf_witness();
}

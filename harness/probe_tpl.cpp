#define private public
#include "fixed_stream.hpp"
#include "Template.hpp"
#include "vf.h"
using namespace Qentem;
#ifndef TPL
#define TPL "<loop value=\"v\">{var:v}</loop>"
#endif
struct NoValue {};
extern "C" void h_parse() {
    const char t[] = TPL;
    const unsigned n = sizeof(t) - 1;
    char *b = (char *)vf_alloc(n);
    for (unsigned i = 0; i < n; i++) b[i] = t[i];
#ifdef HOLE
    b[HOLE] = (char)vf_u8();
#endif
    Array<Tags::TagBit> tags;
    unsigned len = n;
#ifdef SYMLEN
    len = vf_u32(); vf_assume(len <= n);
#endif
    TemplateCore<char, NoValue, FixedStream<char, 64>>::Parse(b, len, tags);
    vf_assert(tags.Size() <= 4, 1);
    vf_witness();
}

// C09 (a): scanner + integer path of Digit::StringToNumber / stringToNumber, power kernels cut.
//
// Input: a numeral of CONCRETE length LEN; every unit is one of [0-9+-.eE] or one arbitrary other unit X (X is not 'x'/'X':
// the 0x.. hexadecimal spelling is outside this check).  A reference scanner for the dialect the repo's own tests pin down
//     numeral := [+-]? ( D+ ( '.' D* )? | '.' D+ ) ( [eE] [+-]? D+ )?          no leading zeros ("01"), no second '.'
// computes: rejected / consumed length, sign, the integer M of all mantissa digits, the number of fraction digits and the
// written exponent.  The real function must reject exactly what the reference rejects, consume exactly the numeral, return
// exact integers on the integer path, +-0 for zero mantissas, and hand (M, |E|) with E = exponent - fraction digits to the
// right power kernel.  The kernels (powerOfPositiveTen / powerOfNegativeTen) are replaced by contract stubs that record
// their arguments and return an arbitrary word; a numeral whose value M*10^E is >= 2^1024 must have been rejected (or come
// back as infinity) -- this is integer reasoning on (digits of M, E).
#include "Digit.hpp"
#include "vf.h"
#ifdef SAFETY_ONLY   /* reused by C05 (memory safety of the number scanner): the value oracle is C09's subject, only CBMC's own bounds/pointer checks and termination count */
#define vf_assert(c, id) ((void)(c))
#endif
using namespace Qentem;
#ifndef LEN
#define LEN 4
#endif
#ifndef CHAR
#define CHAR char
#endif
typedef CHAR C;
typedef unsigned long long u64;

// ---- contract stubs for the power kernels --------------------------------------------------------------------------
static unsigned g_calls = 0, g_exp = 0;
static bool     g_negk = false, g_probe = false;
static u64      g_m = 0, g_out = 0;
static void kernel_stub(u64 *number, unsigned exponent, bool negk) {
    ++g_calls;
    if (g_probe) return;
    g_m = *number; g_exp = exponent; g_negk = negk;
    g_out = vf_u64();            // arbitrary result word (drawn last on the tape: nothing symbolic is read after the call)
    *number = g_out;
}
static bool g_ref_too_big = false;      // set by the harness before the call: the numeral denotes a value >= 2^1024
extern "C" void stub_p10pos(u64 *number, unsigned exponent) { kernel_stub(number, exponent, false); }
// variant for a powerOfPositiveTen that reports overflow (bool result, false = not a finite double); selected by specs/C09.py
extern "C" bool stub_p10pos_b(u64 *number, unsigned exponent) { kernel_stub(number, exponent, false); return !g_ref_too_big; }
extern "C" void stub_p10neg(u64 *number, unsigned exponent) { kernel_stub(number, exponent, true); }
// Is this build running with the stubs in place?  (CBMC: yes; native replay / translator self-check: the real kernels run.)
static bool stubbed() {
    const unsigned c = g_calls;
    u64 one = 1;
    g_probe = true;
    Digit::powerOfPositiveTen(one, 0U);
    g_probe = false;
    const bool s = (g_calls != c);
    g_calls = c;
    return s;
}

// ---- reference scanner ---------------------------------------------------------------------------------------------
static bool is_digit(C c) { return c >= C('0') && c <= C('9'); }
struct Ref {
    bool     ok, neg, has_dot, has_exp, eneg;
    bool     mant_ok;                 // mantissa well formed (set before the exponent part is looked at)
    unsigned len, nint, nfrac, sig;   // sig: number of digits of M without leading zeros (0 when M == 0)
    unsigned mant_end;                // index of the first unit after the mantissa
    u64      M, EX;                   // EX saturates at 10^9
};
static Ref ref_scan(const C *b, unsigned n) {
    Ref r; r.ok = false; r.neg = false; r.has_dot = false; r.has_exp = false; r.eneg = false;
    r.mant_ok = false; r.mant_end = 0; r.len = 0; r.nint = 0; r.nfrac = 0; r.sig = 0; r.M = 0; r.EX = 0;
    unsigned i = 0;
    if (i < n && (b[i] == C('-') || b[i] == C('+'))) { r.neg = (b[i] == C('-')); ++i; }
    const unsigned first = i;
    while (i < n && is_digit(b[i])) {
        r.M = r.M * 10U + u64(b[i] - C('0'));
        if (r.M != 0) ++r.sig;
        ++i; ++r.nint;
    }
    if (r.nint >= 2U && b[first] == C('0')) return r;                      // leading zero
    if (i < n && b[i] == C('.')) {
        r.has_dot = true; ++i;
        while (i < n && is_digit(b[i])) {
            r.M = r.M * 10U + u64(b[i] - C('0'));
            if (r.M != 0) ++r.sig;
            ++i; ++r.nfrac;
        }
        if (i < n && b[i] == C('.')) return r;                             // repeated dot
    }
    if (r.nint == 0U && r.nfrac == 0U) return r;                           // no digit at all: "", "-", ".", "+."
    r.mant_ok = true; r.mant_end = i;
    if (i < n && (b[i] == C('e') || b[i] == C('E'))) {
        unsigned p = i + 1U;
        if (p < n && (b[p] == C('-') || b[p] == C('+'))) { r.eneg = (b[p] == C('-')); ++p; }
        const unsigned q = p;
        while (p < n && is_digit(b[p])) {
            if (r.EX < 1000000000ULL) r.EX = r.EX * 10U + u64(b[p] - C('0'));
            ++p;
        }
        if (p == q) return r;                                              // empty exponent
        r.has_exp = true; i = p;
    }
    r.ok = true; r.len = i;
    return r;
}
static const u64 P10[11] = {1ULL, 10ULL, 100ULL, 1000ULL, 10000ULL, 100000ULL, 1000000ULL, 10000000ULL, 100000000ULL, 1000000000ULL, 10000000000ULL};

extern "C" void h_scan() {
    C X = vf_any<C>();
    vf_assume(X != C('x') && X != C('X'));
    C *b = vf_buf<C>(LEN);
    {
        unsigned i = 0;
        while (i < LEN) {
            const C c = b[i];
            vf_assume(is_digit(c) || c == C('+') || c == C('-') || c == C('.') || c == C('e') || c == C('E') || c == X);
            ++i;
        }
    }
    const Ref r = ref_scan(b, LEN);
    // decimal exponent of the value M * 10^E, and the range classes that need nothing but digit counting
    const long long E = (r.eneg ? -(long long)r.EX : (long long)r.EX) - (long long)r.nfrac;
    const bool real_numeral = r.has_dot || r.has_exp;
    bool too_big = false;            // M * 10^E >= 2^1024 = 1.797693134862315907...e308   (M has at most 10 digits here)
    if (r.M != 0) {
        const long long top = (long long)r.sig + E;                       // value in [10^(top-1), 10^top)
        if (top > 309) too_big = true;
        else if (top == 309) too_big = (r.M * P10[10U - r.sig] >= 1797693135ULL);   // 10-digit normal form of M
    }
    const bool tiny = (r.M != 0) && ((long long)r.sig + E < -323);        // below the smallest subnormal's decade: rejecting is tolerated
#ifdef KF_EXCL_C09_overflow_finite
    vf_assume(!(r.ok && too_big && (long long)r.sig + E == 309));
#endif
#ifdef KF_ONLY_C09_overflow_finite
    vf_assume(r.ok && too_big && (long long)r.sig + E == 309);
#endif
    // zero mantissa directly followed by an exponent marker ("0e5", "0.0E1", "-0e", ...)
    const bool zero_exp = r.mant_ok && r.M == 0 && r.mant_end < LEN && (b[r.mant_end] == C('e') || b[r.mant_end] == C('E'));
#ifdef KF_EXCL_C09_zero_exponent
    vf_assume(!zero_exp);
#endif
#ifdef KF_ONLY_C09_zero_exponent
    vf_assume(zero_exp);
#endif
    const bool st = stubbed();
    g_ref_too_big = too_big;
    QNumber64 num;
    SizeT off = 0;
    const QNumberType kind = Digit::stringToNumber(num, (const C *)b, off, SizeT(LEN));
    const u64 bits = num.Natural;
    const u64 sign = r.neg ? 0x8000000000000000ULL : 0ULL;

    vf_assert(off <= LEN, 1);
    if (!r.ok) {
        vf_assert(kind == QNumberType::NotANumber, 2);
    } else if (!real_numeral) {
        vf_assert(off == r.len, 3);
        if (!r.neg) vf_assert(kind == QNumberType::Natural && bits == r.M, 4);
        else if (r.M == 0) vf_assert(kind == QNumberType::Real && bits == sign, 5);
        else vf_assert(kind == QNumberType::Integer && num.Integer == -(long long)r.M, 6);
        vf_assert(g_calls == 0, 7);
    } else if (r.M == 0) {
        vf_assert(off == r.len, 8);
        vf_assert(kind == QNumberType::Real && bits == sign, 9);
        vf_assert(g_calls == 0, 10);
    } else if (too_big) {
        vf_assert(kind == QNumberType::NotANumber || (kind == QNumberType::Real && (bits & 0x7FFFFFFFFFFFFFFFULL) == 0x7FF0000000000000ULL), 11);
    } else if (kind == QNumberType::NotANumber) {
        vf_assert(tiny, 12);                                              // the only tolerated range rejection
    } else {
        vf_assert(off == r.len, 13);
        vf_assert(kind == QNumberType::Real, 14);
        if (st) {
            vf_assert(g_calls == 1, 15);
            // the kernel receives (m, +-e): m * 10^e must denote M * 10^E exactly (the code drops a lone trailing ".0")
            const long long se = g_negk ? -(long long)g_exp : (long long)g_exp;
            const long long df = se - E;
            vf_assert(df >= -9 && df <= 9 && g_m != 0 && g_m < 10000000000ULL, 16);
            if (df >= 0) vf_assert(g_m * P10[df] == r.M, 17);
            else vf_assert(r.M * P10[-df] == g_m, 17);
            vf_assert(!(g_negk && g_exp == 0U), 20);
            vf_assert(bits == (g_out | sign), 18);
        } else {
            vf_assert((bits >> 63) == (sign >> 63), 19);
        }
    }
    vf_witness();
}

// ---- long integer numerals: the 19-digit window, the 2^63 / 2^64 boundaries ------------------------------------------
// [sign] d1 d2 ... dND   (d1 != '0'; ND = 19, 20, 21; SIGN 0 none, 1 '-', 2 '+')
#ifndef ND
#define ND 20
#endif
#ifndef SIGN
#define SIGN 0
#endif
#ifndef PFX
#define PFX ""
#endif
// The leading digits are pinned to PFX (a window around a boundary); the remaining ND - strlen(PFX) digits are symbolic.
// Fully symbolic 19..21-digit numerals were not decided by any back end within 200 s (Horner over 19 symbolic digits).
static const char pfx[] = PFX;
extern "C" void h_int() {
    const unsigned sl = (SIGN != 0) ? 1U : 0U, n = sl + ND;
    C *b = vf_buf<C>(n);
    if (SIGN == 1) vf_assume(b[0] == C('-'));
    if (SIGN == 2) vf_assume(b[0] == C('+'));
    u64 W = 0;                      // first min(ND,19) digits
    unsigned i = 0;
    while (i < ND) {
        const C c = b[sl + i];
        vf_assume(is_digit(c) && (i != 0U || c != C('0')));
        if (i + 1U < sizeof(pfx)) vf_assume(c == C(pfx[i]));
        if (i < 19U) { W *= 10U; W += u64(c); W -= u64('0'); }      // same association as the code's accumulation
        ++i;
    }
    const bool neg = (SIGN == 1);
    // do the first 20 digits fit 64 bits?  (the code extends its 19-digit window by one digit when they do)
    bool fits20 = false; u64 M = W;
    if (ND >= 20) {
        const u64 d20 = u64(b[sl + 19U] - C('0'));
        fits20 = (W < 1844674407370955161ULL) || (W == 1844674407370955161ULL && d20 <= 5U);
        if (fits20) M = W * 10U + d20;
    }
    const bool fits = (ND <= 19) || (ND == 20 && fits20);       // the whole numeral fits 64 bits
    const unsigned used = (ND >= 20 && fits20) ? 20U : 19U;     // digits in the mantissa handed to the kernel
    const bool int64_min = neg && fits && M == 0x8000000000000000ULL;
#ifdef KF_EXCL_C09_int64_min_real
    vf_assume(!int64_min);
#endif
#ifdef KF_ONLY_C09_int64_min_real
    vf_assume(int64_min);
#endif
    const bool st = stubbed();
    QNumber64 num;
    SizeT off = 0;
    const QNumberType kind = Digit::StringToNumber(num, (const C *)b, off, SizeT(n));
    const u64 bits = num.Natural;
    vf_assert(off == n, 1);
    if (fits && !neg) {
        vf_assert(kind == QNumberType::Natural && bits == M, 2);
        vf_assert(g_calls == 0, 3);
    } else if (fits && M <= 0x8000000000000000ULL) {
        vf_assert(kind == QNumberType::Integer && bits == (0ULL - M), 4);      // includes -2^63
        vf_assert(g_calls == 0, 5);
    } else {
        vf_assert(kind == QNumberType::Real, 6);
        if (st) {
            vf_assert(g_calls == 1 && !g_negk, 7);
            // the kernel gets the 19-digit window and the number of digits cut off; or the exact 20-digit value and 0
            if (fits) vf_assert(g_m == M && g_exp == 0U, 8);
            else vf_assert(g_m == M && g_exp == ND - used, 9);
            vf_assert(bits == (g_out | (neg ? 0x8000000000000000ULL : 0ULL)), 10);
        } else {
            vf_assert((bits >> 63) == (neg ? 1ULL : 0ULL), 11);
        }
    }
    vf_witness();
}

// ---- long integer part followed by a fraction or an exponent: "<ND digits>[.eE]<digit>" must be consumed entirely and read as Real
extern "C" void h_int_tail() {
    const unsigned sl = (SIGN != 0) ? 1U : 0U, n = sl + ND + 2U;
    C *b = vf_buf<C>(n);
    if (SIGN == 1) vf_assume(b[0] == C('-'));
    if (SIGN == 2) vf_assume(b[0] == C('+'));
    unsigned i = 0;
    while (i < ND) {
        const C c = b[sl + i];
        vf_assume(is_digit(c) && (i != 0U || c != C('0')));
        if (i + 1U < sizeof(pfx)) vf_assume(c == C(pfx[i]));
        ++i;
    }
    const C t0 = b[sl + ND], t1 = b[sl + ND + 1U];
    vf_assume(t0 == C('.') || t0 == C('e') || t0 == C('E'));
    vf_assume(is_digit(t1));
    QNumber64 num;
    SizeT off = 0;
    const QNumberType kind = Digit::StringToNumber(num, (const C *)b, off, SizeT(n));
    vf_assert(off == n, 1);                                  // the whole numeral is consumed, whichever marker follows the digits
    vf_assert(kind == QNumberType::Real, 2);                 // a fraction or an exponent makes it a real
    vf_witness();
}

// ---- long written exponents: "1e[-]ddd...d" with NE exponent digits (leading zeros allowed) ----------------------------
#ifndef NE
#define NE 10
#endif
#ifndef ESIGN
#define ESIGN 0
#endif
extern "C" void h_exp() {
    const unsigned sl = (ESIGN != 0) ? 1U : 0U, n = 2U + sl + NE;
    C *b = vf_buf<C>(n);
    vf_assume(b[0] == C('1') && (b[1] == C('e') || b[1] == C('E')));
    if (ESIGN == 1) vf_assume(b[2] == C('-'));
    if (ESIGN == 2) vf_assume(b[2] == C('+'));
    u64 EX = 0;                     // the written exponent, exact (NE <= 12 digits)
    unsigned i = 0;
    while (i < NE) {
        const C c = b[2U + sl + i];
        vf_assume(is_digit(c));
        EX = EX * 10U + u64(c - C('0'));
        ++i;
    }
    const bool wraps = (EX > 0xFFFFFFFFULL - 32U);  // does not fit the 32-bit exponent arithmetic (accumulator, or + digit count)
#ifdef KF_EXCL_C09_exponent_wrap
    vf_assume(!wraps);
#endif
#ifdef KF_ONLY_C09_exponent_wrap
    vf_assume(wraps);
#endif
    const bool st = stubbed();
    g_ref_too_big = (ESIGN != 1) && (EX >= 309U);
    QNumber64 num;
    SizeT off = 0;
    const QNumberType kind = Digit::StringToNumber(num, (const C *)b, off, SizeT(n));
    const u64 bits = num.Natural;
    if (ESIGN != 1) {
        if (EX >= 309U) vf_assert(kind == QNumberType::NotANumber, 1);                 // 10^309 > largest double
        else {
            vf_assert(kind == QNumberType::Real && off == n, 2);
            if (st) vf_assert(g_calls == 1 && g_m == 1U && !g_negk && g_exp == EX && bits == g_out, 3);
        }
    } else {
        if (EX >= 400U) vf_assert(kind == QNumberType::NotANumber || (kind == QNumberType::Real && bits == 0U), 4);   // rounds to 0
        else if (kind != QNumberType::NotANumber) {
            vf_assert(kind == QNumberType::Real && off == n, 5);
            if (st) vf_assert(g_calls == 1 && g_m == 1U && g_exp == EX && (g_negk || EX == 0U) && bits == g_out, 6);
        } else vf_assert(EX > 323U, 7);
    }
    vf_witness();
}

// C11 (reduced): double -> NumberToString(17 significant digits, Default) -> StringToNumber, bit-identical.
// Window: d = m * 2^(EXP2) with a symbolic MBITS-bit m (short decimal expansion), concrete EXP2 per query.
#include "fixed_stream.hpp"
#include "Digit.hpp"
#include "vf.h"
using namespace Qentem;
#ifndef EXP2
#define EXP2 -2
#endif
#ifndef MBITS
#define MBITS 12
#endif
typedef unsigned long long u64;
struct FS : FixedStream<char, 40> {
    void operator+=(char c) { FixedStream<char, 40>::operator+=(c); }
};
extern "C" void h_roundtrip() {
    unsigned m = vf_u16();
    unsigned sg = vf_u8();
    vf_assume(m >= 1U && m < (1U << MBITS) && sg <= 1U);
    // exact construction of m * 2^EXP2 as IEEE bits
    unsigned top = 31U - (unsigned)__builtin_clz(m);
    u64 bits = ((u64)m << (52U - top)) & 0xFFFFFFFFFFFFFULL;
    bits |= (u64)(1023 + (int)top + (EXP2)) << 52;
    if (sg) bits |= 0x8000000000000000ULL;
    QNumber64 q; q.Natural = bits;
    FS s;
    Digit::NumberToString(s, q.Real, Digit::RealFormatInfo{17U, Digit::RealFormatType::Default});
    vf_assert(!s.overflow, 1);
    QNumber64 back; SizeT off = 0;
    const QNumberType k = Digit::StringToNumber(back, s.First(), off, s.Length());
    vf_assert(off == s.Length(), 2);
    if (k == QNumberType::Real) vf_assert(back.Natural == bits, 3);
    else if (k == QNumberType::Natural) vf_assert(!sg && (double)back.Natural == q.Real, 4);
    else if (k == QNumberType::Integer) vf_assert(sg && (double)back.Integer == q.Real, 5);
    else vf_assert(false, 6);
    vf_witness();
}

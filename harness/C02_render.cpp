// C02 / C03 (routing) / C17 / C01 (driver family): the REAL Template::Render / TemplateCore::Parse+Render with the REAL
// Value<char>.  The template text (TPL) and the SHAPE of the value tree (VAL) are concrete per query - members of a listed
// family - because a symbolic template unit or a symbolic tree shape puts the driver out of reach; the LEAF STRINGS of the
// tree (two strings of two units each, every code unit incl. < > & " ') are symbolic and the solver decides over them.
// EXPECT spells the documented expansion as a sequence of  L("literal")  E(i) = HTML-escaped leaf i  R(i) = raw leaf i.
//   C02: the rendered text equals the documented expansion;  C03: every {var:} path goes through the escaper (E), {raw:} does not;
//   C17: rendering again through the SAME parsed tag cache gives the identical text, the value, the template text and the
//        pre-existing stream content are untouched;  C01: no access outside the exact-size template buffer / owned memory.
#include "fixed_stream.hpp"
#include "Value.hpp"
#include "Template.hpp"
#include "vf.h"
using namespace Qentem;
typedef Value<char> V; typedef FixedStream<char, 128> SS;
#ifndef TPL
#define TPL "{var:a}"
#endif
#ifndef VAL
#define VAL 0
#endif
#ifndef EXPECT
#define EXPECT E(0)
#endif
#ifndef CUT
#define CUT 9999
#endif
#ifndef LEAFN
#define LEAFN 2     /* units per symbolic leaf string */
#endif
static char leaf[2][2];
static SS *expv;
static void L(const char *s) { while (*s) { *expv += *s; ++s; } }
static void E(unsigned i) { StringUtils::EscapeHTMLSpecialChars(*expv, &leaf[i][0], SizeT{LEAFN}); }
static bool leaf_less(unsigned i, unsigned j) { return StringUtils::IsLess(&leaf[i][0], &leaf[j][0], SizeT{LEAFN}, SizeT{LEAFN}, false); }
static void R(unsigned i) { expv->Write(&leaf[i][0], SizeT{LEAFN}); }

static void build(V &v) {
    V s0{&leaf[0][0], SizeT{LEAFN}}, s1{&leaf[1][0], SizeT{LEAFN}};
#if VAL == 0      /* {"a": S0, "b": S1} */
    v["a"] = static_cast<V &&>(s0); v["b"] = static_cast<V &&>(s1);
#elif VAL == 1    /* {"a": [S0, S1]} */
    V arr; arr += static_cast<V &&>(s0); arr += static_cast<V &&>(s1); v["a"] = static_cast<V &&>(arr);
#elif VAL == 2    /* {"a": {"k": S0}, "n": 5, "b": S1} */
    V o; o["k"] = static_cast<V &&>(s0); v["a"] = static_cast<V &&>(o); v["n"] = SizeT64{5}; v["b"] = static_cast<V &&>(s1);
#elif VAL == 3    /* [S0, S1] */
    v += static_cast<V &&>(s0); v += static_cast<V &&>(s1);
#elif VAL == 4    /* {"p": "<{0}|{1}>", "a": S0, "b": S1}   super-variable phrase with specials */
    v["p"] = "<{0}|{1}>"; v["a"] = static_cast<V &&>(s0); v["b"] = static_cast<V &&>(s1);
#elif VAL == 6    /* [[S0, S1]]   array of arrays (nested loops, sort on a working copy) */
    { V in; in += static_cast<V &&>(s0); in += static_cast<V &&>(s1); v += static_cast<V &&>(in); }
#elif VAL == 7    /* {"n": [1, 2, 3], "a": S0, "b": S1}   numbers for conditions inside loops */
    { V in; in += SizeT64{1}; in += SizeT64{2}; in += SizeT64{3}; v["n"] = static_cast<V &&>(in); } v["a"] = static_cast<V &&>(s0); v["b"] = static_cast<V &&>(s1);
#elif VAL == 8    /* {"g": {"k": [S0]}, "a": [[S1]]}   an object and an array of unprintable items (a loop over each at the same level) */
    { V in; in += static_cast<V &&>(s0); V o; o["k"] = static_cast<V &&>(in); v["g"] = static_cast<V &&>(o); }
    { V in; in += static_cast<V &&>(s1); V ar; ar += static_cast<V &&>(in); v["a"] = static_cast<V &&>(ar); }
#else             /* {"<k>": [S0], "j": [S1]}      object members that are not printable: the loop KEY is printed */
    { V o; o += static_cast<V &&>(s0); v["<k>"] = static_cast<V &&>(o); }
    { V o; o += static_cast<V &&>(s1); v["j"] = static_cast<V &&>(o); }
#endif
}
static bool leaves_intact(const V &v) {
    const V *a = nullptr, *b = nullptr;
#if VAL == 0
    a = v.GetValue("a", SizeT{1}); b = v.GetValue("b", SizeT{1});
#elif VAL == 1
    { const V *ar = v.GetValue("a", SizeT{1}); if (ar) { a = ar->GetValue(SizeT{0}); b = ar->GetValue(SizeT{1}); } }
#elif VAL == 2
    { const V *o = v.GetValue("a", SizeT{1}); if (o) a = o->GetValue("k", SizeT{1}); b = v.GetValue("b", SizeT{1}); }
#elif VAL == 3
    a = v.GetValue(SizeT{0}); b = v.GetValue(SizeT{1});
#elif VAL == 4
    a = v.GetValue("a", SizeT{1}); b = v.GetValue("b", SizeT{1});
#elif VAL == 6
    { const V *in = v.GetValue(SizeT{0}); if (in) { a = in->GetValue(SizeT{0}); b = in->GetValue(SizeT{1}); } }
#elif VAL == 7
    a = v.GetValue("a", SizeT{1}); b = v.GetValue("b", SizeT{1});
#elif VAL == 8
    { const V *g = v.GetValue("g", SizeT{1}); const V *in = g ? g->GetValue("k", SizeT{1}) : nullptr; if (in) a = in->GetValue(SizeT{0}); }
    { const V *ar = v.GetValue("a", SizeT{1}); const V *in = ar ? ar->GetValue(SizeT{0}) : nullptr; if (in) b = in->GetValue(SizeT{0}); }
#else
    { const V *o = v.GetValue("<k>", SizeT{3}); if (o) a = o->GetValue(SizeT{0}); const V *o2 = v.GetValue("j", SizeT{1}); if (o2) b = o2->GetValue(SizeT{0}); }
#endif
    if (a == nullptr || b == nullptr || !a->IsString() || !b->IsString() || a->Length() != LEAFN || b->Length() != LEAFN) return false;
    for (unsigned i = 0; i < LEAFN; i++) { if (a->StringStorage()[i] != leaf[0][i] || b->StringStorage()[i] != leaf[1][i]) return false; }
    return true;
}

extern "C" void h_render() {
    const char t[] = TPL; const unsigned full = sizeof(t) - 1; const unsigned n = (CUT < full) ? CUT : full;
    char *b = (char *)vf_alloc(n);                         // exact-size heap copy, not NUL-terminated
    for (unsigned i = 0; i < n; i++) b[i] = t[i];
#ifdef CONCRETE_LEAVES   /* sort templates: symbolic comparisons inside Memory::Sort on real Values run out of memory; the leaves are then concrete ("b?" > "a?") */
    leaf[0][0] = 'b'; leaf[0][1] = (char)vf_u8(); leaf[1][0] = 'a'; leaf[1][1] = (char)vf_u8();
#else
    leaf[0][0] = (char)vf_u8(); leaf[0][1] = (char)vf_u8(); leaf[1][0] = (char)vf_u8(); leaf[1][1] = (char)vf_u8();
#endif
    alignas(V) static char raw[sizeof(V)];
    V &v = *new (&raw[0]) V;                               // never destroyed (release-exactly-once is C16's subject)
    build(v);
    SS out; char pre = (char)vf_u8(); out += pre;          // pre-existing stream content
    Array<Tags::TagBit> &tags = *new (vf_alloc(sizeof(Array<Tags::TagBit>))) Array<Tags::TagBit>;
    Template::Render(b, SizeT(n), v, out, tags);           // parses into the cache, then renders
    vf_assert(!out.overflow && out.Length() >= 1 && out.First()[0] == pre, 1);        // only appended
#if CUT == 9999
    SS expd; expv = &expd; EXPECT;
    vf_assert(!expd.overflow && out.Length() == expd.Length() + 1, 2);                // C02: the documented expansion ...
    unsigned i = vf_u32(); vf_assume(i < expd.Length());
    vf_assert(out.First()[1 + i] == expd.First()[i], 3);                              // ... unit for unit
#endif
    SS out2; out2 += pre;
    Template::Render(b, SizeT(n), v, out2, tags);          // second render through the SAME cache (no re-parse)
    vf_assert(out2.Length() == out.Length(), 4);
    unsigned j = vf_u32(); vf_assume(j < out.Length());
    vf_assert(out2.First()[j] == out.First()[j], 5);                                  // C17: identical
    vf_assert(leaves_intact(v), 6);                                                   // value untouched
    if (n != 0) {                                                                     // (CUT = 0: empty template)
        unsigned k = vf_u32(); vf_assume(k < n);
        vf_assert(b[k] == t[k], 7);                                                   // template text untouched
    }
    vf_witness();
}

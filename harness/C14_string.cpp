// C14 (a2): String<Char> is a plain NUL-terminated sequence.  One inductive step: pre-state built through the public API
// (KIND 0: default-constructed, no storage; KIND 1: String(buf, LEN) then StepBack(sb), i.e. a block of LEN+1 units
// holding LEN-sb units; LEN concrete per query, sb and contents symbolic), ONE public operation (OP, concrete per query)
// with symbolic arguments including aliasing ones (s = s, s += s, s.Write(s.First()+k, n), s == nullptr, empty vs literal),
// then every observer is compared with a plain array model; the terminator at [Length()] is part of every check.
#include "String.hpp"
#include "vf.h"
using namespace Qentem;

#ifndef CHAR
#define CHAR char
#endif
#ifndef KIND
#define KIND 1
#endif
#ifndef LEN
#define LEN 2       // units in the subject's block (without the terminator)
#endif
#ifndef BKIND
#define BKIND 1
#endif
#ifndef BLEN
#define BLEN 2      // length of the second string / C-string argument block (concrete: selects allocation sizes)
#endif
#ifndef NARG
#define NARG 2
#endif
#ifndef OP
#define OP 1
#endif
typedef CHAR C;
#define MAXN 16

enum {
    OP_COPY_CTOR = 1, OP_MOVE_CTOR, OP_CTOR_LEN, OP_CTOR_ADOPT, OP_CTOR_PTR_LEN, OP_CTOR_CSTR, OP_COPY_ASSIGN, OP_MOVE_ASSIGN,
    OP_ASSIGN_CSTR, OP_APPEND_COPY, OP_APPEND_MOVE, OP_APPEND_CSTR, OP_APPEND_CHAR, OP_PLUS_COPY, OP_PLUS_MOVE, OP_PLUS_CSTR,
    OP_SHIFT_CSTR, OP_SHIFT_STRING, OP_CMP_STRING, OP_EQ_CSTR, OP_CMP_CSTR, OP_ISEQUAL, OP_RESET, OP_DETACH, OP_MERGE, OP_WRITE,
    OP_TRIM, OP_STEPBACK, OP_REVERSE, OP_INSERTAT, OP_WRITE_ALIAS, OP_APPEND_CSTR_ALIAS
};

// reference order: lexicographic by C's own '<'; a proper prefix sorts first
static int ref_cmp(const C *a, unsigned la, const C *b, unsigned lb) {
    unsigned i = 0;
    while (i < la && i < lb) {
        if (a[i] < b[i]) return -1;
        if (b[i] < a[i]) return 1;
        ++i;
    }
    return (la < lb) ? -1 : ((lb < la) ? 1 : 0);
}
static bool ws(C c) { return c == C(' ') || c == C('\n') || c == C('\t') || c == C('\r'); }

// NUL-terminated argument: exact-size block of n+1 units, last one 0, the others symbolic (an inner 0 ends it earlier)
static const C *cstr(unsigned n, C *m, unsigned &mn) {
    C *p = vf_buf<C>(n + 1);
    p[n] = C(0);
    mn   = 0;
    while (p[mn] != C(0)) { m[mn] = p[mn]; ++mn; }
    return p;
}

template <unsigned B> static void check(const String<C> &s, const C *m, unsigned n) {
    vf_assert(s.Length() == n, B + 1);
    vf_assert(s.Storage() != nullptr || n == 0, B + 2);
    if (s.Storage() != nullptr) vf_assert(s.Storage()[n] == C(0), B + 3);          // NUL-terminated
    vf_assert(s.IsEmpty() == (n == 0) && s.IsNotEmpty() == (n != 0), B + 4);
    vf_assert(s.First() == s.Storage() && s.End() == s.First() + n && s.begin() == s.First() && s.end() == s.End(), B + 5);
    vf_assert(s.Last() == (n != 0 ? s.First() + (n - 1) : nullptr), B + 6);
    unsigned i = vf_u32();
    if (i < n) vf_assert(s.First()[i] == m[i], B + 7);
}

// second string (argument / target): BKIND 0 no storage, else a block of BLEN+1 units holding BLEN symbolic units
static void build_b(String<C> &t, C *m, unsigned &n) {
    n = 0;
    if (BKIND != 0) {
        const C *buf = vf_buf<C>(BLEN);
        t            = String<C>(buf, SizeT(BLEN));
        while (n < BLEN) { m[n] = buf[n]; ++n; }
        vf_free((void *)buf);
    }
}

extern "C" void h_string() {
    C        ma[MAXN], mb[MAXN], mc[MAXN];
    unsigned na = 0, nb = 0, nc = 0;
    String<C> s;
    if (KIND != 0) {
        const C *buf = vf_buf<C>(LEN);
        s            = String<C>(buf, SizeT(LEN));
        while (na < LEN) { ma[na] = buf[na]; ++na; }
        vf_free((void *)buf);
#ifdef SB
        unsigned sb = SB;
#else
        unsigned sb = vf_u32();
        vf_assume(sb <= LEN);
#endif
        if (sb != 0) { s.StepBack(SizeT(sb)); na -= sb; }
    }
    C *const st0 = s.Storage();
    check<50>(s, ma, na);

    if (OP == OP_COPY_CTOR) {
        String<C> c(s);
        check<100>(c, ma, na);
        check<200>(s, ma, na);
        vf_assert(c.Storage() != nullptr && c.Storage() != s.Storage(), 10);
    } else if (OP == OP_MOVE_CTOR) {
        String<C> c(Memory::Move(s));
        check<100>(c, ma, na);
        check<200>(s, ma, 0);
        vf_assert(c.Storage() == st0 && s.Storage() == nullptr, 10);
    } else if (OP == OP_CTOR_LEN) {
        String<C> c{SizeT(NARG)};
        vf_assert(c.Length() == NARG && (NARG == 0 || (c.Storage() != nullptr && c.Storage()[NARG] == C(0))), 10);
        unsigned i = vf_u32();                   // the NARG units are the caller's to fill
        if (i < NARG) { c.Storage()[i] = C(1); vf_assert(c.First()[i] == C(1), 11); }
    } else if (OP == OP_CTOR_ADOPT) {
        C *blk = Memory::Allocate<C>(SizeT(NARG + 1));
        for (unsigned i = 0; i < NARG; i++) { mb[i] = vf_any<C>(); blk[i] = mb[i]; }
        blk[NARG] = C(0);
        String<C> c(blk, SizeT(NARG));           // takes the block over
        check<100>(c, mb, NARG);
        vf_assert(c.Storage() == blk, 10);
    } else if (OP == OP_CTOR_PTR_LEN) {
        const C *buf = vf_buf<C>(NARG);
        for (unsigned i = 0; i < NARG; i++) mb[i] = buf[i];
        String<C> c(buf, SizeT(NARG));
        check<100>(c, mb, NARG);
        vf_assert(c.Storage() != buf && c.Storage() != nullptr, 10);
        vf_free((void *)buf);
    } else if (OP == OP_CTOR_CSTR) {
        bool     null = (vf_u8() & 1) != 0;
        const C *p    = cstr(BLEN, mb, nb);
        if (null) nb = 0;
        String<C> c(null ? nullptr : p);
        check<100>(c, mb, nb);
        vf_free((void *)p);
    } else if (OP == OP_COPY_ASSIGN || OP == OP_MOVE_ASSIGN) {
        String<C> t;
        build_b(t, mb, nb);
        bool alias = (vf_u8() & 1) != 0;
        if (alias) {
            String<C> &r = s;
            if (OP == OP_COPY_ASSIGN) s = r; else s = Memory::Move(r);
            check<100>(s, ma, na);
            vf_assert(s.Storage() == st0, 10);
        } else if (OP == OP_COPY_ASSIGN) {
            t = s;
            check<100>(t, ma, na);
            check<200>(s, ma, na);
            vf_assert(t.Storage() != nullptr && t.Storage() != s.Storage(), 11);
        } else {
            t = Memory::Move(s);
            check<100>(t, ma, na);
            check<200>(s, ma, 0);
            vf_assert(t.Storage() == st0 && s.Storage() == nullptr, 11);
        }
    } else if (OP == OP_ASSIGN_CSTR) {           // s = "literal" ;  s = nullptr ;  s = s.First() + k (a suffix of itself)
        unsigned mode = vf_u8() % 3;                 // 0 fresh literal, 1 nullptr, 2 alias
        unsigned k    = vf_u32();
        const C *p    = cstr(BLEN, mb, nb);
        if (mode == 2 && s.Storage() == nullptr) mode = 1;
        // known finding C14-string-assign-own-cstr: operator=(const Char_T*) releases the block before it measures and
        // copies the argument, which in the aliasing case lives in that block
#ifdef KF_EXCL_C14_string_assign_own_cstr
        vf_assume(mode != 2);
#endif
#ifdef KF_ONLY_C14_string_assign_own_cstr
        vf_assume(mode == 2);
#endif
        const C *arg = p;
        if (mode == 1) { arg = nullptr; nb = 0; }
        if (mode == 2) {
            vf_assume(k <= na);
            nb = 0;
            for (unsigned i = k; i < na && ma[i] != C(0); i++) { mb[nb] = ma[i]; ++nb; }
            arg = s.First() + k;
        }
        s = arg;
        check<100>(s, mb, nb);
        vf_free((void *)p);
    } else if (OP == OP_APPEND_COPY || OP == OP_APPEND_MOVE || OP == OP_PLUS_COPY || OP == OP_PLUS_MOVE || OP == OP_SHIFT_STRING ||
               OP == OP_MERGE) {
        String<C> t;
        build_b(t, mb, nb);
        bool alias = false;
        if (OP != OP_APPEND_MOVE && OP != OP_PLUS_MOVE) alias = (vf_u8() & 1) != 0;   // self-move is outside the claim
        const String<C> &src = alias ? s : t;
        const unsigned   ns  = alias ? na : nb;
        for (unsigned i = 0; i < na; i++) mc[i] = ma[i];
        for (unsigned i = 0; i < ns; i++) mc[na + i] = alias ? ma[i] : mb[i];
        nc = na + ns;
        if (OP == OP_APPEND_COPY || OP == OP_SHIFT_STRING) {
            if (OP == OP_APPEND_COPY) { String<C> &r = (s += src); vf_assert(&r == &s, 12); }
            else { String<C> &r = (s << src); vf_assert(&r == &s, 12); }
            check<100>(s, mc, nc);
            if (!alias) check<200>(t, mb, nb);
            if (ns == 0) vf_assert(s.Storage() == st0, 13);           // nothing to add: untouched
        } else if (OP == OP_APPEND_MOVE) {
            s += Memory::Move(t);
            check<100>(s, mc, nc);
            check<200>(t, mb, 0);
            vf_assert(t.Storage() == nullptr, 13);
        } else if (OP == OP_PLUS_COPY || OP == OP_MERGE) {
            String<C> c = (OP == OP_PLUS_COPY) ? (s + src) : String<C>::Merge(s, src);
            check<100>(c, mc, nc);
            check<200>(s, ma, na);
            if (!alias) check<300>(t, mb, nb);
        } else {
            String<C> c = s + Memory::Move(t);
            check<100>(c, mc, nc);
            check<200>(s, ma, na);
            check<300>(t, mb, 0);
            vf_assert(t.Storage() == nullptr, 13);
        }
    } else if (OP == OP_APPEND_CSTR || OP == OP_PLUS_CSTR || OP == OP_SHIFT_CSTR) {
        bool     null = (vf_u8() & 1) != 0;
        const C *p    = cstr(BLEN, mb, nb);
        if (null) nb = 0;
        const C *arg = null ? (const C *)nullptr : p;
        for (unsigned i = 0; i < na; i++) mc[i] = ma[i];
        for (unsigned i = 0; i < nb; i++) mc[na + i] = mb[i];
        nc = na + nb;
        if (OP == OP_APPEND_CSTR) { s += arg; check<100>(s, mc, nc); }
        else if (OP == OP_SHIFT_CSTR) { s << arg; check<100>(s, mc, nc); }
        else { String<C> c = s + arg; check<100>(c, mc, nc); check<200>(s, ma, na); }
        vf_free((void *)p);
    } else if (OP == OP_APPEND_CSTR_ALIAS) {     // s += s.First() + k
        unsigned k = vf_u32();
        vf_assume(KIND != 0 && k <= na);
        for (unsigned i = 0; i < na; i++) mc[i] = ma[i];
        nc = na;
        for (unsigned i = k; i < na && ma[i] != C(0); i++) { mc[nc] = ma[i]; ++nc; }
        s += (s.First() + k);
        check<100>(s, mc, nc);
    } else if (OP == OP_APPEND_CHAR) {
        C ch = vf_any<C>();
        s += ch;
        ma[na] = ch; ++na;
        check<100>(s, ma, na);
    } else if (OP == OP_CMP_STRING) {
        String<C> t;
        build_b(t, mb, nb);
        bool             alias = (vf_u8() & 1) != 0;
        const String<C> &o     = alias ? s : t;
        int              r     = alias ? 0 : ref_cmp(ma, na, mb, nb);
        vf_assert((s == o) == (r == 0), 10);
        vf_assert((s != o) == (r != 0), 11);
        vf_assert((s < o) == (r < 0), 12);
        vf_assert((s <= o) == (r <= 0), 13);
        vf_assert((s > o) == (r > 0), 14);
        vf_assert((s >= o) == (r >= 0), 15);
        check<100>(s, ma, na);
    } else if (OP == OP_EQ_CSTR || OP == OP_CMP_CSTR) {
        bool     null = (vf_u8() & 1) != 0;
        const C *p    = cstr(BLEN, mb, nb);
        if (null) nb = 0;
        const C *arg = null ? (const C *)nullptr : p;
        int      r   = ref_cmp(ma, na, mb, nb);
        if (OP == OP_EQ_CSTR) {
            // known finding C14-string-eq-null: operator==(const Char_T*) dereferences the argument when it is nullptr, and
            // dereferences the string's own storage when the string has none (default/moved-from/Reset) and the literal is not ""
#ifdef KF_EXCL_C14_string_eq_null
            vf_assume(!(null || (s.Storage() == nullptr && nb != 0)));
#endif
#ifdef KF_ONLY_C14_string_eq_null
            vf_assume(null || (s.Storage() == nullptr && nb != 0));
#endif
            // an inner NUL in the string's own content ends the literal-style comparison early: equal means equal as sequences
            vf_assert((s == arg) == (r == 0), 10);
            vf_assert((s != arg) == (r != 0), 11);
        } else {
            vf_assert((s < arg) == (r < 0), 12);
            vf_assert((s <= arg) == (r <= 0), 13);
            vf_assert((s > arg) == (r > 0), 14);
            vf_assert((s >= arg) == (r >= 0), 15);
        }
        check<100>(s, ma, na);
        vf_free((void *)p);
    } else if (OP == OP_ISEQUAL) {
        const C *buf = vf_buf<C>(BLEN);
        for (unsigned i = 0; i < BLEN; i++) mb[i] = buf[i];
        vf_assert(s.IsEqual(buf, SizeT(BLEN)) == (ref_cmp(ma, na, mb, BLEN) == 0), 10);
        vf_free((void *)buf);
    } else if (OP == OP_RESET) {
        s.Reset();
        check<100>(s, ma, 0);
        vf_assert(s.Storage() == nullptr, 10);
    } else if (OP == OP_DETACH) {
        C *p = s.Detach();
        check<100>(s, ma, 0);
        vf_assert(p == st0 && s.Storage() == nullptr, 10);
        unsigned i = vf_u32();
        if (i < na) vf_assert(p[i] == ma[i], 11);
        if (p != nullptr) vf_assert(p[na] == C(0), 12);
        Memory::Deallocate(p);
    } else if (OP == OP_WRITE) {
        bool     null = (vf_u8() & 1) != 0;
        const C *buf  = vf_buf<C>(BLEN);
        for (unsigned i = 0; i < BLEN; i++) mb[i] = buf[i];
        s.Write(null ? (const C *)nullptr : buf, SizeT(BLEN));
        if (!null) { for (unsigned i = 0; i < BLEN; i++) { ma[na] = mb[i]; ++na; } }
        check<100>(s, ma, na);
        if (null || BLEN == 0) vf_assert(s.Storage() == st0, 10);
        vf_free((void *)buf);
    } else if (OP == OP_WRITE_ALIAS) {           // s.Write(s.First() + k, n) : a slice of itself
        unsigned k = vf_u32(), n = NARG;
        vf_assume(KIND != 0 && k <= na && n <= na - k);
        for (unsigned i = 0; i < na; i++) mc[i] = ma[i];
        for (unsigned i = 0; i < n; i++) mc[na + i] = ma[k + i];
        nc = na + n;
        s.Write(s.First() + k, SizeT(n));
        check<100>(s, mc, nc);
    } else if (OP == OP_TRIM) {
        unsigned lo = 0, hi = na;
        while (lo < hi && ws(ma[lo])) ++lo;
        while (hi > lo && ws(ma[hi - 1])) --hi;
        for (unsigned i = lo; i < hi; i++) { mb[nb] = ma[i]; ++nb; }
        String<C> c = String<C>::Trim(s);
        check<100>(c, mb, nb);
        check<200>(s, ma, na);
    } else if (OP == OP_STEPBACK) {
        unsigned d = vf_u32();
        vf_assume(d <= LEN + 1);
        // known finding C14-string-stepback-null: StepBack(0) on a string without storage writes the terminator through nullptr
#ifdef KF_EXCL_C14_string_stepback_null
        vf_assume(!(s.Storage() == nullptr && d == 0));
#endif
#ifdef KF_ONLY_C14_string_stepback_null
        vf_assume(s.Storage() == nullptr && d == 0);
#endif
        s.StepBack(SizeT(d));
        if (d <= na) na -= d;
        check<100>(s, ma, na);
        vf_assert(s.Storage() == st0, 10);
    } else if (OP == OP_REVERSE) {
        unsigned k = vf_u32();
        vf_assume(k <= LEN + 1);
        s.Reverse(SizeT(k));
        unsigned lo = k, hi = na;
        while (lo < hi) { --hi; C t = ma[lo]; ma[lo] = ma[hi]; ma[hi] = t; ++lo; }
        check<100>(s, ma, na);
        vf_assert(s.Storage() == st0, 10);
    } else if (OP == OP_INSERTAT) {
        unsigned k  = vf_u32();
        C        ch = vf_any<C>();
        vf_assume(k <= LEN + 1);
        s.InsertAt(ch, SizeT(k));
        if (k < na) {                            // documented behaviour: only inside the string
            for (unsigned i = na; i > k; i--) ma[i] = ma[i - 1];
            ma[k] = ch; ++na;
        }
        check<100>(s, ma, na);
    }
    vf_witness();
}

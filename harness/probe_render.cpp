#include "fixed_stream.hpp"
#include "Template.hpp"
#include "JSON.hpp"
#include "vf.h"
using namespace Qentem;
typedef Value<char> V; typedef FixedStream<char, 24> SS;
#ifndef TPL
#define TPL "{var:a}"
#endif
extern "C" void h_r1() {
    const char t[] = TPL; const unsigned n = sizeof(t) - 1;
    char *b = (char *)vf_alloc(n);
    for (unsigned i = 0; i < n; i++) b[i] = t[i];
    char s[2]; s[0] = (char)vf_u8(); s[1] = (char)vf_u8();
    V v; v["a"] = V{&s[0], SizeT{2}};
    SS out;
    Template::Render(b, SizeT(n), v, out);
    unsigned i = vf_u32(); vf_assume(i < out.Length());
    char c = out.First()[i];
    vf_assert(c != '<' && c != '>' && c != '"' && c != '\'', 1);
    vf_free(b);
    vf_witness();
}

// C19: the double-word helpers DoubleSize<W, bits(W)>::Multiply / ::Divide against native double-width arithmetic
//   (unsigned __int128 for W = unsigned long long).  defines: WORD, WBITS; optional DIVISOR (a constant divisor),
//   KF_EXCL_C19_div_odd / KF_ONLY_C19_div_odd.
// NOTE DoubleSize<u8|u16, 64> is NOT a narrow model of the 64-bit algorithm (integer promotion changes mask_), so the
// 64-bit code is only ever checked at W = unsigned long long.
#include "BigInt.hpp"
#include "vf.h"
using namespace Qentem;
#ifndef WORD
#define WORD unsigned long long
#define WBITS 64
#endif
typedef WORD                W;
typedef unsigned long long  u64;
typedef unsigned __int128   u128;
#if WBITS == 8
typedef unsigned short DW;
#elif WBITS == 16
typedef unsigned int   DW;
#elif WBITS == 32
typedef u64            DW;
#else
typedef u128           DW;
#endif
static constexpr unsigned WB = WBITS;
static_assert(sizeof(W) * 8U == WBITS, "WBITS");
typedef DoubleSize<W, WBITS> DS;

extern "C" void h_ds_mul() {         // (high, low) == a * k exactly, all operands
    W a = vf_any<W>(); W k = vf_any<W>();
    W low = a;
    const W  high = DS::Multiply(low, k);
    const DW p    = (DW)((DW)a * (DW)k);
    vf_assert(low == (W)p, 1);
    vf_assert(high == (W)(p >> WB), 2);
    vf_witness();
}

// precondition as established by BigInt::Divide: divisor != 0, high < divisor, shift = 63 - msb(divisor) (64-bit only)
extern "C" void h_ds_div() {         // (high:low) / d and % d exactly
    W hi = vf_any<W>(); W lo = vf_any<W>();
#ifdef DIVISOR
    const W d = W(DIVISOR);          // a literal: the solver sees a constant divisor
#else
    W d = vf_any<W>();
#endif
    vf_assume(d != 0 && hi < d);
    {
        const bool odd_top = (WB == 64U) && ((d & 1U) != 0) && ((d >> (WB - 1U)) != 0);
#ifdef KF_EXCL_C19_div_odd
        vf_assume(!odd_top);
#endif
#ifdef KF_ONLY_C19_div_odd
        vf_assume(odd_top);
#endif
        (void)odd_top;
    }
#ifdef DMAX
    vf_assume(d <= W(DMAX));
#endif
    const SizeT32 shift = (WB == 64U) ? SizeT32((WB - 1U) - Platform::FindLastBit(d)) : 0U;
    const DW x = (DW)(((DW)hi << WB) | (DW)lo);
    W r = hi, q = lo;
    DS::Divide(r, q, d, shift);
#ifdef CHECK_MULT
    // division-free form of the same claim: x == q*d + r, r < d  (q*d + r cannot wrap: it is compared with x in 2*WB bits
    // after checking the high part of q*d separately)
    vf_assert(r < d, 1);
    vf_assert((DW)((DW)q * (DW)d + (DW)r) == x && (DW)((DW)q * (DW)d) <= x, 2);
#else
    vf_assert(q == (W)(x / d), 1);
    vf_assert(r == (W)(x % d), 2);
#endif
    vf_witness();
}

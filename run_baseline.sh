#!/bin/sh
# Builds /repo's test suite (verification guard OFF: no guard define is passed) in a scratch build dir and runs it.
B=$(mktemp -d /tmp/qentem_baseline.XXXXXX)
trap 'rm -rf "$B"' EXIT
cmake -G Ninja -S /repo -B "$B" >/dev/null 2>&1 || { echo "cmake configure failed"; exit 2; }
cmake --build "$B" -j 16 >"$B/build.log" 2>&1 || { tail -40 "$B/build.log"; echo "build failed"; exit 2; }
ctest --test-dir "$B" -j8 --timeout 900 >"$B/ctest.log" 2>&1
rc=$?
tail -22 "$B/ctest.log"
exit $rc

from engine import Query
import json
META = {
 'functions': ['Template::Render / TemplateCore::Parse + Render (Template.hpp) un-stubbed, with the real Finder, Tags, QExpression, Value<char>, HArray, Array, String, StringUtils::EscapeHTMLSpecialChars'],
 'bounds': 'a listed family of CONCRETE templates x CONCRETE value-tree shapes (object of strings, array under a key, nested object + number, root array, super-variable phrase, object of arrays, array of arrays, numbers under a key); the two leaf strings of the tree '
           '(2 units each, every code unit incl. < > & " \') are symbolic: the solver decides over all leaf contents. Rendered text == documented expansion; second render through the same tag cache identical; '
           'value, template text and pre-existing stream content untouched; every access inside the exact-size template buffer. Thorough adds every truncation point of every family member except the three added last (loop_math_paren, loop_obj_then_array, loop_sorted_obj_then_array: their truncations were not run and are not registered) (safety + purity only).',
 'outside': 'templates and tree shapes outside the family; symbolic template text (one symbolic unit: no verdict in 300 s); symbolic tree shape / key text; leaf strings longer than 2 units; real-number leaves '
            '(number formatting: C10); char16_t / char32_t; sort / group attributes; SIMD builds; concurrent renders (see C17 note)',
 'assumptions': ['FixedStream stand-in for the output stream (the real StringStream made the formula exceed 60 GB)', 'value tree and tag cache are never destroyed in the harness (release-exactly-once is C16)'],
}
# (name, template, value shape, documented expansion)
FAMILY = [
 ('var',        '{var:a}',                                   0, 'E(0)'),
 ('var_raw',    'x{var:a}y{raw:b}z',                         0, 'L("x"); E(0); L("y"); R(1); L("z")'),
 ('var_missing', 'p{var:zz}q',                               0, 'L("p{var:zz}q")'),
 ('raw_missing', '{raw:zz}',                                 0, 'L("{raw:zz}")'),
 ('text_only',  'plain text, no tags.',                      0, 'L("plain text, no tags.")'),
 ('loop_array', '<loop value="v">[{var:v}]</loop>',          3, 'L("["); E(0); L("]["); E(1); L("]")'),
 ('loop_set',   '<loop set="a" value="v">{raw:v};</loop>',   1, 'R(0); L(";"); R(1); L(";")'),
 ('loop_obj',   '<loop value="v">{var:v}|</loop>',           0, 'E(0); L("|"); E(1); L("|")'),
 ('index_path', '{var:a[k]}-{var:a[zz]}',                    2, 'E(0); L("-{var:a[zz]}")'),
 ('array_index', '{var:a[1]}{raw:a[0]}',                     1, 'E(1); R(0)'),
 ('if_true',    '<if case="{var:n}">T{var:b}</if>',                2, 'L("T"); E(1)'),
 ('if_else',    '<if case="{var:n} > 9">T<else>F{raw:b}</if>',     2, 'L("F"); R(1)'),
 ('if_elseif',  '<if case="{var:n} == 4">A<else if case="{var:n} == 5">B<else>C</if>', 2, 'L("B")'),
 ('math',       '{math:{var:n}+1}*{math:{var:n}*(2+1)}',                 2, 'L("6*15")'),
 ('math_bad',   '{math:{var:zz}+1}',                         2, 'L("{math:{var:zz}+1}")'),
 ('inline_if',  '{if case="{var:n}" true="{var:b}" false="F"}',    2, 'E(1)'),
 ('inline_if_f', '{if case="{var:n} < 2" true="T" false="{raw:b}"}', 2, 'R(1)'),
 ('if_bareword', '<if case="n">T</if>x',                       2, 'L("x")'),
 ('svar',       '{svar:p, {var:a}, {raw:b}}',                 4, 'L("&lt;"); E(0); L("|"); R(1); L("&gt;")'),
 ('loop_key',   '<loop value="v">{var:v};</loop>',            5, 'L("&lt;k&gt;;j;")'),
 ('var_unprintable', 'q{var:<k>}',                           5, 'L("q{var:&lt;k&gt;}")'),
 ('loop_elseif', '<loop set="n" value="v"><if case="{var:v} == 1">A<elseif case="{var:v} == 2" />B<else />C</if></loop>', 7, 'L("ABC")'),
 ('loop_sort',  '<loop value="r"><loop set="r" value="c" sort="ascend">{var:c};</loop></loop>', 6, 'if (leaf_less(1, 0)) { E(1); L(";"); E(0); L(";"); } else { E(0); L(";"); E(1); L(";"); }'),
 ('loop_if',    '<loop set="a" value="v"><if case="1">{var:v}</if></loop>', 1, 'E(0); E(1)'),
 # a fully parenthesised expression inside a loop still sees the loop variable
 ('loop_math_paren', '<loop set="n" value="v">{math:({var:v}+1)};<if case="({var:v} == 2)">T</if></loop>', 7, 'L("2;3;T4;")'),
 # an object loop followed by an array loop at the same level, both over unprintable items: the first prints the member KEY, the second has no key and reproduces the tag
 ('loop_obj_then_array', '<loop set="g" value="x">{var:x}:</loop>|<loop set="a" value="x">{var:x},</loop>', 8, 'L("k:|{var:x},")'),
 ('loop_sorted_obj_then_array', '<loop set="g" value="x" sort="ascend">{var:x}:</loop>|<loop set="a" value="x">{var:x},</loop>', 8, 'L("k:|{var:x},")'),
]
HEAVY = ('loop_math_paren', 'loop_obj_then_array', 'loop_sorted_obj_then_array', 'loop_sort', 'loop_array', 'loop_if', 'loop_obj', 'loop_set', 'inline_if', 'svar', 'index_path', 'array_index')
LATE = ('loop_math_paren', 'loop_obj_then_array', 'loop_sorted_obj_then_array')
def B(n):
    return {'Next': n + 2, 'h_render|build|leaves_intact|L|E|R|leaf_less': n + 24, 'Copy': 40, 'IsEqual': 10, 'Dispose': 4, 'parse|parse.*|checkLoopVariable|getOperation|isExpression|parseExpressions|parseValue': n + 2,
            'vf_mem.*': 200, 'SetToZero': 24, 'render.*|getValue|evaluate.*|GetExpressionValue|isEqual|Render': 6, 'Write|write': n + 2, 'EscapeHTMLSpecialChars': 4, 'Hash': 3, 'find': 4,
            'resize|generateHash|expand': 6, 'Count': 4, 'stringToNumber|parseExponent|IntToString|NumberToString': 4, 'Insert|insert': 4, 'PowerOf.*': 3}
def queries(tier):
    qs = []
    for name, tpl, val, exp in FAMILY:
        n = len(tpl)
        d = {'TPL': json.dumps(tpl), 'VAL': val, 'EXPECT': exp}
        if name == 'loop_sort': d['CONCRETE_LEAVES'] = 1    # first unit of each leaf concrete (order decided), second unit symbolic
        if (tier == 'quick' or name in LATE) and name in HEAVY and name != 'loop_sort': d['LEAFN'] = 1      # one-unit leaves for the loop templates in the per-change tier (two units: thorough)
        qs.append(Query('render/%s' % name, 'C02_render.cpp', 'h_render', d, bounds=B(n), default_unwind=5, default_rec=3,
                        rec_bounds={'~Value': 2, 'render|evaluate|parseExpressions': 4}, timeout=900, mem_gb=14))
    if tier != 'quick':
        for name, tpl, val, exp in FAMILY:
            if name in LATE: continue      # members added in the last hours: their truncations were not run, so they are not registered (the quick and thorough render queries are)
            for cut in range(0, len(tpl)):
                qs.append(Query('cut/%s/%d' % (name, cut), 'C02_render.cpp', 'h_render', {'TPL': json.dumps(tpl), 'VAL': val, 'EXPECT': exp, 'CUT': cut}, bounds=B(len(tpl)), default_unwind=5,
                                default_rec=3, rec_bounds={'~Value': 2, 'render|evaluate|parseExpressions': 4}, timeout=600, mem_gb=14))
    return qs

from engine import Query
META = {
 'functions': ['Value::Stringify(Stream_T&, precision) / stringifyArray / stringifyObject / stringifyValue (Value.hpp:1929-2075) on the real Value<char>',
               'Value::Stringify(precision) through the real StringStream<char> (3 shapes)', 'JSONUtils::Escape as called for keys and strings',
               'Digit::NumberToString for integers below 100', 'JSON::Parse / parseValue / parseArray / parseObject (round-trip queries)',
               'Value constructors, operator[](key|index), operator+=, Remove, RemoveIndex, AddPointerToValue, SetPointerToValue, ~Value used to build the trees'],
 'bounds': 'array and object roots (and a pointer to them) with 0..2 members; member kinds concrete per query: never-written slot, removed member (also as LAST member), '
           'null, true, false, unsigned < 100, signed in (-100,100), String of 0..2 units with ALL unit values (compared with JSONUtils::Escape), nested [] / [n] / {} / {"a":n}, '
           'pointer to number / string; object keys from {"", "a", "b", "ab", one quote character}; precision 17; one arbitrary unit already in the stream. '
           'Asserted: the appended text equals the model text unit by unit (members in order, Undefined/removed members omitted), stream prefix untouched, '
           'first/last unit are the brackets, the unit before the closing bracket is not a comma. '
           'roundtrip: for member kinds with concrete text (literals, nested empty containers, omitted members) Parse(Stringify(v)) has the same kind, member count, '
           'members in order and equal, and stringify-parse-stringify is the identical text. scalar-root: a non-container root writes nothing (as ValueTest.hpp:75 fixes).',
 'outside': 'trees with more than 2 members or deeper than 2; numbers >= 100, reals (number formatting is C10/C11); strings longer than 2 units (Escape alone: C08 part (a), <= 6 units); '
            'round trip through the parser for number and string members (text layout becomes symbolic; no verdict in 200 s); the String-returning Stringify() overload beyond 3 shapes; '
            'char16_t / char32_t values',
 'assumptions': ['FixedStream<char,40> stand-in for the Stream_T template parameter (overflow flag asserted false)',
                 'the model text for strings and keys is produced by the real JSONUtils::Escape (its own correctness is C08 part (a))'],
}
H = 'C08_stringify.cpp'
B = {'Hash|find|generateHash|resize|Remove|remove': 8, 'Dispose': 4, 'Copy': 80, 'SetToZero': 80, 'vf_mem.*': 80, 'Count': 4, 'Escape': 3, 'Write': 8, 'IntToString': 3, 'h_.*|add_member|exp_uint': 4,
     'Initialize': 4, 'stringifyArray': 4}
STN = '_ZN6Qentem5Digit14stringToNumberIcEENS_11QNumberTypeERNS_9QNumber64EPKT_Rjj'
def QA(n, e1=5, e2=5, ln=1, root=0):
    name = 'array/n%d' % n + ('/e%d' % e1 if n > 0 else '') + ('/e%d' % e2 if n > 1 else '') + ('/len%d' % ln if 4 in (e1, e2) or 14 in (e1, e2) else '') + ('/ptr-root' if root else '')
    return Query(name, H, 'h_array', {'N': n, 'E1': e1, 'E2': e2, 'LEN': ln, 'ROOT': root}, bounds=B, default_unwind=4, default_rec=3,
                 timeout=300, mem_gb=8, leak=True)
def queries(tier):
    q = tier == 'quick'
    qs = [QA(0), QA(0, root=1)]
    kinds = [0, 20, 10, 8, 9, 5, 6, 4, 3, 31, 2, 21, 1, 14]
    for e in kinds:
        for ln in ((0, 1, 2) if e in (4, 14) else (1,)):
            qs.append(QA(1, e, ln=ln))
    k2 = [0, 20, 10, 5, 4, 3] if q else kinds
    for e1 in k2:
        for e2 in k2:
            qs.append(QA(2, e1, e2, ln=(1 if q else 2)))
    qs.append(QA(2, 5, 20, root=1)); qs.append(QA(1, 4, ln=2, root=1))
    # object roots
    def QO(n, e1=5, e2=5, k1=1, k2=2, ln=1, root=0):
        name = 'object/n%d' % n + ('/k%d.e%d' % (k1, e1) if n > 0 else '') + ('/k%d.e%d' % (k2, e2) if n > 1 else '') + ('/len%d' % ln if 4 in (e1, e2) else '') + ('/ptr-root' if root else '')
        return Query(name, H, 'h_object', {'N': n, 'E1': e1, 'E2': e2, 'K1': k1, 'K2': k2, 'LEN': ln, 'ROOT': root}, bounds=B, default_unwind=4, default_rec=3,
                     timeout=300, mem_gb=8, leak=True)
    qs += [QO(0), QO(0, root=1)]
    okinds = [0, 20, 10, 8, 9, 5, 6, 4, 3, 31, 2, 21, 1]
    for e in okinds:
        for k in ((1, 4) if e in (5, 20) or not q else (1,)): qs.append(QO(1, e, k1=k, ln=2))
    for k in (0, 3): qs.append(QO(1, 5, k1=k))
    ok2 = [0, 20, 10, 5, 4, 2] if q else okinds
    for e1 in ok2:
        for e2 in ok2:
            qs.append(QO(2, e1, e2, ln=1))
    qs += [QO(2, 5, 20, k1=4, k2=0), QO(2, 20, 5, k1=3, k2=4), QO(2, 5, 20, root=1), QO(2, 8, 20, k1=2, k2=1)]
    for k in (10, 8, 9, 5, 6, 7, 4):
        qs.append(Query('scalar-root/k%d' % k, H, 'h_scalar_root', {'K': k, 'LEN': 2}, bounds=B, default_unwind=4, default_rec=3, timeout=300, mem_gb=8, leak=True))
    for n in (0, 1, 2):
        qs.append(Query('real-stream/n%d' % n, H, 'h_real_stream', {'N': n}, bounds=B, default_unwind=4, default_rec=3, timeout=300, mem_gb=8, leak=True))
    BR = dict(B, **{'TrimLeft': 3, 'parseArray|parseObject': 4, 'UnEscape': 4, 'stringToNumber|parseExponent': 4, 'IsEqual': 4, 'Insert': 3})
    def QR(n, e1=10, e2=10, obj=0, k1=1, k2=2, ln=1):
        name = 'roundtrip/%s/n%d' % ('object' if obj else 'array', n) + ('/e%d' % e1 if n > 0 else '') + ('/e%d' % e2 if n > 1 else '') + ('/k%d.%d' % (k1, k2) if obj and n else '')
        return Query(name, H, 'h_roundtrip', {'N': n, 'E1': e1, 'E2': e2, 'RT_OBJ': obj, 'K1': k1, 'K2': k2, 'LEN': ln}, bounds=BR, default_unwind=4,
                     rec_bounds={'parse.*': 3}, default_rec=3, timeout=300, mem_gb=8, leak=True)
    qs += [QR(0), QR(0, obj=1)]
    for e1, e2 in ((10, 8), (0, 9), (3, 20), (20, 0), (3, 3), (2, 10), (9, 2)):   # literal and empty-container members only (see META)
        qs.append(QR(2, e1, e2)); qs.append(QR(2, e1, e2, obj=1))
    qs.append(QR(2, 8, 20, obj=1, k1=4, k2=0))
    return qs

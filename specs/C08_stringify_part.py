from engine import Query
META = {}
H = 'C08_stringify.cpp'
B = {'Dispose': 4, 'Copy': 80, 'SetToZero': 80, 'vf_mem.*': 80, 'Count': 4, 'Escape': 3, 'Write': 8, 'IntToString': 3, 'h_.*|add_member|exp_uint': 4,
     'Initialize': 4, 'stringifyArray': 4}
STN = '_ZN6Qentem5Digit14stringToNumberIcEENS_11QNumberTypeERNS_9QNumber64EPKT_Rjj'
def QA(n, e1=5, e2=5, ln=1, root=0):
    name = 'array/n%d' % n + ('/e%d' % e1 if n > 0 else '') + ('/e%d' % e2 if n > 1 else '') + ('/len%d' % ln if 4 in (e1, e2) or 14 in (e1, e2) else '') + ('/ptr-root' if root else '')
    return Query(name, H, 'h_array', {'N': n, 'E1': e1, 'E2': e2, 'LEN': ln, 'ROOT': root}, bounds=B, default_unwind=4, default_rec=3,
                 timeout=300, mem_gb=8, leak=True)
def queries(tier):
    q = tier == 'quick'
    qs = [QA(0), QA(0, root=1)]
    kinds = [0, 20, 10, 8, 9, 5, 6, 4, 3, 31, 1, 14]
    for e in kinds:
        for ln in ((0, 1, 2) if e in (4, 14) else (1,)):
            qs.append(QA(1, e, ln=ln))
    k2 = [0, 20, 10, 5, 4, 3] if q else kinds
    for e1 in k2:
        for e2 in k2:
            qs.append(QA(2, e1, e2, ln=(1 if q else 2)))
    qs.append(QA(2, 5, 20, root=1)); qs.append(QA(1, 4, ln=2, root=1))
    for k in (10, 8, 9, 5, 6, 7, 4):
        qs.append(Query('scalar-root/k%d' % k, H, 'h_scalar_root', {'K': k, 'LEN': 2}, bounds=B, default_unwind=4, default_rec=3, timeout=300, mem_gb=8, leak=True))
    for n in (0, 1, 2):
        qs.append(Query('real-stream/n%d' % n, H, 'h_real_stream', {'N': n}, bounds=B, default_unwind=4, default_rec=3, timeout=300, mem_gb=8, leak=True))
    for e1, e2 in ((10, 8), (0, 9), (3, 20), (20, 0), (3, 3)):
        qs.append(Query('roundtrip/n2/e%d/e%d' % (e1, e2), H, 'h_roundtrip', {'N': 2, 'E1': e1, 'E2': e2}, bounds=dict(B, **{'TrimLeft': 3, 'parseArray': 4, 'UnEscape': 3}),
                        default_unwind=4, rec_bounds={'parse.*': 3}, default_rec=3, timeout=300, mem_gb=8, leak=True))
    qs.append(Query('roundtrip/n0', H, 'h_roundtrip', {'N': 0}, bounds=dict(B, **{'TrimLeft': 3, 'parseArray': 4}), default_unwind=4, rec_bounds={'parse.*': 3}, default_rec=3, timeout=300, mem_gb=8, leak=True))
    return qs

from engine import Query
import importlib.util, os
sp = importlib.util.spec_from_file_location('c12', os.path.join(os.path.dirname(os.path.abspath(__file__)), 'C12.py')); c12 = importlib.util.module_from_spec(sp); sp.loader.exec_module(c12)
META = {}
def queries(tier):
    return [Query(e, 'C12_probe.cpp', e, {'VAR': int(os.environ.get('VAR', '0'))}, bounds=c12.B, default_unwind=6, default_rec=3, timeout=100, mem_gb=8, leak=True, stubs={c12.STN: 'stub_strtonum'}) for e in ('h_p1', 'h_p2', 'h_p3')]

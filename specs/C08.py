import importlib.util, os
def _load(n):
    sp = importlib.util.spec_from_file_location(n, os.path.join(os.path.dirname(__file__), n + '.py')); m = importlib.util.module_from_spec(sp); sp.loader.exec_module(m); return m
_parts = [_load('C08_escape_part')]
if os.path.exists(os.path.join(os.path.dirname(__file__), 'C08_stringify_part.py')) and os.path.exists(os.path.join(os.path.dirname(__file__), '.value_parts_ready')):
    _parts.append(_load('C08_stringify_part'))
META = {
 'functions': sum([p.META.get('functions', []) for p in _parts], []),
 'bounds': ' || '.join(p.META.get('bounds', '') for p in _parts),
 'outside': ' || '.join(p.META.get('outside', '') for p in _parts) + ' || object-kind trees: the real HArray<String,Value> does not reach a verdict under CBMC here (no verdict in 300 s for one member); '
            'number formatting/parsing digits are delegated to C10/C09; whole-tree Stringify->Parse composition is not run (the parser side is verified against stand-in containers in C06/C07)',
 'assumptions': sum([p.META.get('assumptions', []) for p in _parts], []),
}
def queries(tier):
    from engine import Query
    qs = []
    for p in _parts: qs += p.queries(tier)
    # the caller's precision reaches every real number of the tree (Digit::realToString replaced by a recorder)
    b = {'Dispose': 4, 'Copy': 14, 'Hash': 3, 'IsEqual': 4, 'find': 4, 'resize|generateHash|expand': 6, 'vf_mem.*': 160, 'Count': 3, 'SetToZero': 24, 'Write|write': 10,
         'stringifyObject|stringifyArray|stringifyValue': 4, 'Escape': 3, 'h_precision': 4}
    for root in (0, 1):
        qs.append(Query('stringify/precision/root%d' % root, 'C08_precision.cpp', 'h_precision', {'ROOT': root}, bounds=b, default_unwind=4, default_rec=3,
                        rec_bounds={'~Value|stringify.*': 4}, timeout=600, mem_gb=12,
                        stubs={'_ZN6Qentem5Digit12realToStringIdNS_12StringStreamIcEEyEEvRT0_T1_NS0_14RealFormatInfoE': 'rec_real'}, replay='none'))
    return qs

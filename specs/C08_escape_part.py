from engine import Query
KF = 'C08-ctrl-raw'
META = {
 'functions': ['JSONUtils::Escape (JSONUtils.hpp:198-245)', 'JSONUtils::UnEscape (JSONUtils.hpp:78-196)',
               'JSONUtils::JSONotation_T::GetReplacementChar (JSONUtils.hpp:272-276)'],
 'bounds': '',
 'outside': '',
 'assumptions': [],
}
H = 'C08_escape.cpp'
def queries(tier):
    N = 4 if tier == 'quick' else 6
    qs = []
    for ch in ('char', 'char16_t', 'char32_t'):
        for L in range(0, N + 1):
            # Escape: one iteration per unit; UnEscape: one iteration per unit or escape + the closing quote;
            # Write: raw slices of at most L units; h_valid's scanner walks the escaped text (<= 2 units per input unit today)
            b = {'Escape': L + 1, 'UnEscape': L + 2, 'Write': L + 1, 'HexStringToNumber': 5, 'vf_buf.*': L + 1,
                 'kf_ctrl': L + 1, 'h_valid': 2 * L + 1}
            d = {'L': L, 'CHAR': ch}
            qs.append(Query('escape-valid/%s/L%d' % (ch, L), H, 'h_valid', d, bounds=b, timeout=300, mem_gb=8, kf_excl=[KF]))
            qs.append(Query('escape-round/%s/L%d' % (ch, L), H, 'h_round', d, bounds=b, timeout=300, mem_gb=8))
        # the known finding itself: restricted to strings that contain such a unit, expected to fail
        qs.append(Query('escape-valid-ctrl/%s/L1' % ch, H, 'h_valid', {'L': 1, 'CHAR': ch},
                        bounds={'Escape': 2, 'Write': 2, 'vf_buf.*': 2, 'kf_ctrl': 2, 'h_valid': 3}, timeout=120, mem_gb=8, kf_only=KF))
    return qs

from engine import Query
KF = 'C08-ctrl-raw'
META = {
 'functions': ['JSONUtils::Escape (JSONUtils.hpp:198-245)', 'JSONUtils::UnEscape (JSONUtils.hpp:78-196)',
               'JSONUtils::JSONotation_T::GetReplacementChar (JSONUtils.hpp:272-276)',
               'Digit::HexStringToNumber / Unicode::ToUTF (reached by UnEscape only once Escape emits \\u00XX)'],
 'bounds': 'every string of exactly L code units, L = 0..4 quick / 0..6 thorough, contents symbolic over all code-unit values, char / char16_t / char32_t. '
           'escape-valid: the text Escape appends (behind a one-unit symbolic prefix, FixedStream of 6L+2 units) is scanned by a reference RFC 8259 '
           'string-body scanner: no raw unit < 0x20, no unescaped quote, every backslash starts \\" \\\\ \\/ \\b \\f \\n \\r \\t or \\uXXXX; '
           'overflow flag false, prefix preserved. escape-round: UnEscape(Escape(s) + closing quote) into an EMPTY stream returns the full length '
           'and, with the caller convention of JSON.hpp:193-205 (empty stream => raw slice), yields s. '
           'escape-valid-ctrl (known finding C08-ctrl-raw, L = 1): restricted to strings containing a unit < 0x20 other than \\b \\t \\n \\f \\r.',
 'outside': 'strings longer than 4 / 6 units; UnEscape called with a non-empty destination stream; UnEscape on text not produced by Escape '
            '(C06/C20); Value::Stringify / the parser around the two functions (other parts of C08); wchar_t',
 'assumptions': ['FixedStream stand-in for the Stream_T template parameter (escaped text CAP 6L+2, decoded text CAP L+1)',
                 'while C08-ctrl-raw is open, escape-valid assumes the string has no unit < 0x20 other than \\b \\t \\n \\f \\r; '
                 'escape-round assumes nothing'],
}
H = 'C08_escape.cpp'
def queries(tier):
    N = 4 if tier == 'quick' else 6
    qs = []
    for ch in ('char', 'char16_t', 'char32_t'):
        for L in range(0, N + 1):
            # Escape: one iteration per unit; UnEscape: one iteration per unit or escape + the closing quote;
            # Write: raw slices of at most L units; h_valid's scanner walks the escaped text (<= 2 units per input unit today)
            b = {'Escape': L + 1, 'UnEscape': L + 2, 'Write': L + 1, 'HexStringToNumber': 5, 'vf_buf.*': L + 1,
                 'kf_ctrl': L + 1, 'h_valid': 2 * L + 1}
            d = {'L': L, 'CHAR': ch}
            qs.append(Query('escape-valid/%s/L%d' % (ch, L), H, 'h_valid', d, bounds=b, timeout=300, mem_gb=8, kf_excl=[KF]))
            qs.append(Query('escape-round/%s/L%d' % (ch, L), H, 'h_round', d, bounds=b, timeout=300, mem_gb=8))
        # the known finding itself: restricted to strings that contain such a unit, expected to fail
        qs.append(Query('escape-valid-ctrl/%s/L1' % ch, H, 'h_valid', {'L': 1, 'CHAR': ch},
                        bounds={'Escape': 2, 'Write': 2, 'vf_buf.*': 2, 'kf_ctrl': 2, 'h_valid': 3}, timeout=120, mem_gb=8, kf_only=KF))
    return qs

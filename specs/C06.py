from engine import Query
META = {
 'functions': ['JSON::JSONParser::Parse/parseValue/parseObject/parseArray (JSON.hpp:61-289), un-stubbed, recursion unwound to the document depth',
               'JSONUtils::UnEscape', 'Digit::stringToNumber scanner + integer path', 'StringUtils::TrimLeft'],
 'bounds': 'generated RFC 8259 documents: 13 skeletons of <= 4 nodes and nesting depth <= 2 x 10 scalar kinds (2-digit unsigned, negative, real, true, false, null, '
           '1-unit plain string, string with every two-character escape, empty string, single digit) x whitespace absent / one symbolic legal whitespace unit at every legal position; '
           'scalar digits, key units and whitespace units symbolic; 3 character widths. Strings/escapes in depth: C20 and the C08 escape queries; numbers: C09.',
 'outside': 'documents outside the skeleton family (more than 4 nodes, depth > 2, keys/strings longer than 1 unit inside a structure query); real-number digits (C09); '
            'last-value-wins for duplicate keys is checked on the real HArray in C13 (the stand-in only records both insertions in order)',
 'assumptions': ['shape-recording Value/Array/HArray/String stand-ins instead of the real Value (real container-kind Value is beyond reach of CBMC here: no verdict in 300 s for {"a":1})',
                 'FixedStream scratch stream', 'big-integer power-of-ten kernels havoc (kind of a real is still decided by the scanner)'],
}
MANG = {'char': 'c', 'char16_t': 'Ds', 'char32_t': 'Di'}
POW = {'_ZN6Qentem5Digit18powerOfNegativeTenIyEEvRT_j': 'stub_pow', '_ZN6Qentem5Digit18powerOfPositiveTenIyEEvRT_j': 'stub_pow'}
def mk(mode, tier, prop):
    qs = []
    skels = range(13)
    for ch in ('char', 'char16_t', 'char32_t'):
        for sk in skels:
            for ws in (0, 1):
                for sc in range(10):
                    if sk in (0, 1, 10) and sc != 0: continue          # no scalar in these skeletons
                    if tier == 'quick':
                        if ch != 'char' and not (sk in (5, 9) and ws == 1 and sc in (0, 6)): continue
                        if ch == 'char' and sk not in (0, 1, 10) and (sc + sk + ws) % 4 != 0: continue
                    n = 48
                    b = {'TrimLeft': 4, 'parseArray|parseObject': 4, 'UnEscape': 5, 'Write': 3, 'stringToNumber': 5, 'parseExponent': 3, 'HexStringToNumber': 5,
                         'parseValue': 6, 'Insert': 3, 'Array|HArray|Value|ShapeChild|String': 4, 'h_doc': 50}
                    qs.append(Query('%s/%s/skel%d/sc%d/ws%d' % (prop, ch, sk, sc, ws), 'C06_json_docs.cpp', 'h_doc',
                                    {'CHAR': ch, 'SKEL': sk, 'SC': sc, 'WS': ws, 'MODE': mode}, bounds=b, stubs=POW, cflags=['-Dprotected=public'],
                                    rec_bounds={'parse.*': 3}, default_rec=3, timeout=600))
    return qs
def queries(tier):
    return mk(0, tier, 'doc')

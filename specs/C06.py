import importlib.util, os
from engine import Query
def _load(n):
    sp = importlib.util.spec_from_file_location(n, os.path.join(os.path.dirname(__file__), n + '.py')); m = importlib.util.module_from_spec(sp); sp.loader.exec_module(m); return m
_c07 = _load('C07'); _c20 = _load('C20')
META = {
 'functions': ['JSON::JSONParser::Parse / parseValue / parseObject / parseArray (JSON.hpp:61-289): each production functionally (accepts exactly the production, builds the members in order with their keys, ends at the end of the match)',
               'JSONUtils::UnEscape + Unicode::ToUTF + Digit::HexStringToNumber (string decoding: every \\uXXXX / surrogate pair, UTF-8/16/32)'],
 'bounds': 'compositional: (a) strings: every \\u escape and surrogate pair with neighbours (finite domain, complete) - the C20 un-escape queries; (b) numbers: delegated to C09, whose long-numeral window queries (19/20/21-digit integer parts, alone and followed by . e E) are also run here; '
           '(c) structure: every production over fully symbolic exact-size buffers of every length L <= N (N = 4 quick, 6 thorough), callees under logging contracts '
           '(whitespace of all four kinds at every legal position, member order, key length/first unit, scalar kinds and payload pass-through); by induction every nesting depth for buffers up to N',
 'outside': 'buffers longer than N in the structure queries; duplicate-key replacement (last value wins at the first position) is a property of the real HArray and is checked there (C13) - '
            'the structure queries use a recording stand-in for the containers because the real container-kind Value is beyond reach of CBMC here (no verdict in 300 s for {"a":1}); '
            'two-character escapes and longer strings: C08 escape round-trip queries',
 'assumptions': ['shape-recording Value/Array/HArray/String stand-ins (no heap)', 'FixedStream scratch stream'],
}
def queries(tier):
    qs = _c07.fn_queries(tier, 'production')
    for q in _c20.queries(tier):
        if q.name.startswith('unescape/'):
            q.name = 'string/' + q.name; qs.append(q)
    # (b) numbers are C09's subject; the long-numeral windows of its scanner (19/20/21 digits at the 2^63 / 2^64 boundaries, alone and followed by . e E)
    # are run here too, because their look-ahead decides whether a valid numeral is consumed entirely, i.e. whether the DOCUMENT is accepted
    for q in _load('C09').queries(tier):
        if (q.name.startswith('int/') or q.name.startswith('inttail/')) and not q.kf_only:
            q.name = 'number-window/' + q.name; qs.append(q)
    return qs

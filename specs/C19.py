from engine import Query
META = {
 'functions': [],
 'bounds': '',
 'outside': '',
 'assumptions': [],
}
RT_CTTZ_NARROW = True   # q2c/vf_rt.h lacks vf_cttz8/vf_cttz16: the harness supplies them; set False once the runtime has them
PRIV = ['-Dprivate=public', '-Dprotected=public']
INST = {   # name: (word type, word bits, declared width)
 'u8x32':   ('unsigned char', 8, 32),
 'u16x64':  ('unsigned short', 16, 64),
 'u32x96':  ('unsigned int', 32, 96),
 'u32x128': ('unsigned int', 32, 128),
 'u64x128': ('unsigned long long', 64, 128),
 'u64x192': ('unsigned long long', 64, 192),
 'u64x256': ('unsigned long long', 64, 256),
}
def nwords(i): return (INST[i][2] + INST[i][1] - 1) // INST[i][1]

def bq(inst, entry, name=None, defs=None, **kw):
    w, wb, bits = INST[inst]
    nw = nwords(inst)
    d = {'WORD': w, 'WBITS': wb, 'BITS': bits}
    if RT_CTTZ_NARROW and wb < 32: d['RT_CTTZ_NARROW'] = 1
    d.update(defs or {})
    chunks = (64 if wb < 64 else 128) // wb
    b = {'top_chunk|m_.*_wide': chunks + 1, 'vf_ctlz8': 9, 'vf_ctlz16': 17}
    b.update(kw.pop('bounds', {}))
    kw.setdefault('timeout', 300)
    kw.setdefault('mem_gb', 8)
    return Query('%s/%s' % (inst, name or entry[2:]), 'C19_bigint.cpp', entry, d, bounds=b, default_unwind=nw + 1,
                 cflags=PRIV, **kw)

OPS = ['h_add', 'h_add_op', 'h_sub', 'h_sub_op', 'h_shr', 'h_or', 'h_flb', 'h_cmp', 'h_set', 'h_clear', 'h_copy_ctor']

def queries(tier):
    insts = ['u8x32', 'u16x64', 'u32x96', 'u64x128', 'u64x192'] if tier == 'quick' else list(INST)
    qs = []
    for i in insts:
        for e in OPS:
            qs.append(bq(i, e))
        qs.append(bq(i, 'h_shl'))
        qs.append(bq(i, 'h_and'))
        qs.append(bq(i, 'h_and_wide'))
        qs.append(bq(i, 'h_ffb'))
        qs.append(bq(i, 'h_copy_assign'))
        qs.append(bq(i, 'h_mul', defs={'DS_CONTRACT': 1, 'KF_EXCL_C19_mul_zero': 1}))
        qs.append(bq(i, 'h_mul', name='mul3', defs={'DS_CONTRACT': 1, 'KF_EXCL_C19_mul_zero': 1, 'IDX': nwords(i)-1}))
        qs.append(bq(i, 'h_div'))
        qs.append(bq(i, 'h_narrow'))
    return qs

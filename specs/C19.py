import os
from engine import Query
META = {
 'functions': [],
 'bounds': '',
 'outside': '',
 'assumptions': [],
}
RT_SUPPLY_MISSING = True   # q2c/vf_rt.h lacks vf_cttz8/16 and vf_fshl/fshr<w>: the harness supplies them; set False once the runtime has them
# Testing aid: with C19_KF_MANUAL=1 in the environment the KF_EXCL_* / KF_ONLY_* defines are passed directly (as if every C19 finding
# were open in known_findings.json); the kf_only queries then show up as VIOLATION lines instead of KNOWN-FINDING.
KF_MANUAL = os.environ.get('C19_KF_MANUAL', '') == '1'
PRIV = ['-Dprivate=public', '-Dprotected=public']
INST = {   # name: (word type, word bits, declared width)
 'u8x32':   ('unsigned char', 8, 32),
 'u16x64':  ('unsigned short', 16, 64),
 'u32x96':  ('unsigned int', 32, 96),
 'u32x128': ('unsigned int', 32, 128),
 'u64x128': ('unsigned long long', 64, 128),
 'u64x192': ('unsigned long long', 64, 192),
 'u64x256': ('unsigned long long', 64, 256),
}
NARROW = {'u8': 'unsigned char', 'u16': 'unsigned short', 'u32': 'unsigned int', 'u64': 'unsigned long long', 'u128': 'unsigned __int128'}
def nwords(i): return (INST[i][2] + INST[i][1] - 1) // INST[i][1]

def kf(q_kwargs, defs):
    """known-finding protocol, or its manual emulation"""
    if not KF_MANUAL: return
    for k in q_kwargs.pop('kf_excl', ()): defs['KF_EXCL_' + k.replace('-', '_')] = 1
    k = q_kwargs.pop('kf_only', None)
    if k: defs['KF_ONLY_' + k.replace('-', '_')] = 1

def bq(inst, entry, name=None, defs=None, **kw):
    w, wb, bits = INST[inst]
    nw = nwords(inst)
    d = {'WORD': w, 'WBITS': wb, 'BITS': bits}
    if RT_SUPPLY_MISSING: d['RT_SUPPLY_MISSING'] = 1
    d.update(defs or {})
    kf(kw, d)
    chunks = (64 if wb < 64 else 128) // wb
    b = {'top_chunk|m_.*_wide': chunks + 1, 'vf_ctlz8': 9, 'vf_ctlz16': 17}
    b.update(kw.pop('bounds', {}))
    kw.setdefault('timeout', 300)
    kw.setdefault('mem_gb', 8)
    return Query('%s/%s' % (inst, name or entry[2:]), 'C19_bigint.cpp', entry, d, bounds=b, default_unwind=nw + 1,
                 cflags=PRIV, **kw)

PLAIN = ['h_add', 'h_add_op', 'h_sub', 'h_sub_op', 'h_shr', 'h_or', 'h_flb', 'h_cmp', 'h_set', 'h_clear', 'h_copy_ctor']
# entry -> known finding whose predicate is assumed away in the proving query
WITH_KF = {'h_shl': 'C19-shl-zero', 'h_and': 'C19-and-stale', 'h_and_wide': 'C19-and-stale', 'h_ffb': 'C19-ffb',
           'h_copy_assign': 'C19-copy-stale'}

def queries(tier):
    quick = (tier == 'quick')
    insts = ['u8x32', 'u16x64', 'u32x96', 'u64x128', 'u64x192'] if quick else list(INST)
    qs = []
    for i in insts:
        for e in PLAIN:
            qs.append(bq(i, e))
        for e, f in WITH_KF.items():
            qs.append(bq(i, e, kf_excl=[f] + (['C19-and-oob'] if e.startswith('h_and') and INST[i][2] < 64 else [])))
        for n in (['u8', 'u32', 'u64'] if quick else list(NARROW)):
            qs.append(bq(i, 'h_narrow', name='narrow/' + n, defs={'NARROW': NARROW[n]}))
        # Multiply / Divide over the contract of the double-word helper (the helper itself: C19_dsize.cpp)
        qs.append(bq(i, 'h_mul', defs={'DS_CONTRACT': 1}, kf_excl=['C19-mul-zero']))
        qs.append(bq(i, 'h_div_mod', defs={'DS_CONTRACT': 1}))
        qs.append(bq(i, 'h_div_top', defs={'DS_CONTRACT': 1, 'DS_PRE_ASSUMED': 1}, backend='z3'))
    # cross-check of the assume/guarantee split: the REAL double-word helper, exact products, end to end against the native oracle
    # (only small words are within reach of a SAT solver: two copies of a multiplier/divider have to be shown equal)
    for i in (['u8x32'] if quick else ['u8x32', 'u16x64']):
        for x in range(nwords(i)):
            qs.append(bq(i, 'h_mul', name='direct/mul/idx%d' % x, defs={'IDX': x}, backend='kissat', kf_excl=['C19-mul-zero']))
    for x in ((0,) if quick else (0, 1)):
        qs.append(bq('u8x32', 'h_div', name='direct/div/idx%d' % x, defs={'IDX': x, 'DIV_BY_MULT': 1}, backend='kissat'))
    # one counterexample query per known finding
    for i in (['u64x192'] if quick else ['u8x32', 'u64x192']):
        for e, f in WITH_KF.items():
            if e == 'h_and_wide': continue
            qs.append(bq(i, e, name='kf/' + e[2:], kf_only=f))
        qs.append(bq(i, 'h_mul', name='kf/mul', defs={'DS_CONTRACT': 1}, kf_only='C19-mul-zero'))
    qs.append(bq('u8x32', 'h_and_wide', name='kf/and_oob', kf_only='C19-and-oob'))   # needs an operand type wider than the BigInt
    # ---- the double-word helpers themselves -------------------------------------------------------------------------------
    for n, (w, wb) in {'u8': ('unsigned char', 8), 'u16': ('unsigned short', 16), 'u32': ('unsigned int', 32)}.items():
        qs.append(dq('ds_mul/' + n, 'h_ds_mul', w, wb))
        qs.append(dq('ds_div/' + n, 'h_ds_div', w, wb))
    U64 = 'unsigned long long'
    qs.append(dq('ds_mul/u64', 'h_ds_mul', U64, 64, backend='cvc5int'))
    # Divide<u64>: every divisor the library itself passes (Digit.hpp: 10^19 and 5^k, k <= 27), all dividends
    pows = list(range(0, 28))
    divisors = [('1e19', 10 ** 19)] + [('5e%d' % k, 5 ** k) for k in pows]
    for n, v in divisors:
        qs.append(dq('ds_div/u64/d=' + n, 'h_ds_div', U64, 64, defs={'DIVISOR': '%dULL' % v}, backend='cvc5int'))
    # arbitrary 64-bit divisors: counterexample search only (a proof is out of reach)
    qs.append(dq('ds_div/u64/kf/div_odd', 'h_ds_div', U64, 64, defs={'CHECK_MULT': 1}, backend='kissat', kf_only='C19-div-odd'))
    return qs

def dq(name, entry, w, wb, defs=None, **kw):
    d = {'WORD': w, 'WBITS': wb}
    d.update(defs or {})
    kf(kw, d)
    kw.setdefault('timeout', 300)
    kw.setdefault('mem_gb', 8)
    return Query(name, 'C19_dsize.cpp', entry, d, default_unwind=2, **kw)

import os
from engine import Query
META = {
 'functions': [
   'BigInt<W,Bits>: Add/Subtract(number,index), operator += -= (word and wider operand), Multiply / *=, Divide / /= (+remainder), '
   'ShiftLeft / <<=, ShiftRight / >>=, operator |= &= (word and wider), FindFirstBit, FindLastBit, the 12 comparisons with a word, '
   'IsZero/NotZero/IsBig/Number, explicit operator N (narrowing), BigInt(N), operator=(N), Clear, copy/move construction and '
   'assignment, private copy() and doOperation<> (BigInt.hpp:58-609)',
   'DoubleSize<W,8|16|32>::Multiply/Divide (BigInt.hpp:611-681), DoubleSize<u64,64>::Multiply/Divide (BigInt.hpp:683-789)',
   'Platform::FindFirstBit / FindLastBit (Platform.hpp:316-375, the non-MSVC 64-bit branch)'],
 'bounds': 'ONE operation applied to an ARBITRARY object state satisfying the representation invariant Inv (index <= MaxIndex, words above '
           'index zero, word[index] != 0 unless index == 0): all words, the index and every argument symbolic (shift amounts: all 2^32 '
           'values). Inv is re-established by every operation, so the claims extend to operation sequences of any length by induction. '
           'Instantiations BigInt<u8,32>, <u16,64>, <u32,96>, <u64,128>, <u64,192> (quick) plus <u32,128>, <u64,256> (thorough). Oracle: the '
           'value as native u64/unsigned __int128 when it has <= 128 bits, word-wise carry-chain reference otherwise (thorough: both on '
           'BigInt<u8,32> and <u64,128>). Multiply and Divide are proved OVER the contract of the double-word helper (assume/guarantee, see '
           'assumptions); the helper is proved separately: DoubleSize<W,8|16|32> all operands, DoubleSize<u64,64>::Multiply all operands, '
           'DoubleSize<u64,64>::Divide all dividends for each of the 29 divisors the library uses (10^19, 5^0..5^27). End-to-end '
           'cross-checks with the real helper against the native oracle (index concrete per query): Multiply on BigInt<u8,32> (thorough: '
           '+<u16,64>, and <u32,96> values of <= 2 words), Divide on BigInt<u8,32> values of one (thorough: two) words.',
 'outside': 'DoubleSize<u64,64>::Divide for divisors other than the 29 listed (proof out of reach of every back end; searched for '
            'counterexamples only, which yields finding C19-div-odd), hence BigInt<u64,*>::Divide by such divisors; FindFirstBit/FindLastBit '
            'of the value zero (no bit index exists; ctz/clz of 0 is undefined); the raw accessors SetIndex()/Storage() (they bypass '
            'the invariant); signed operand types of the templated operators; widths other than the seven instantiations; the MSVC '
            'and 32-bit branches of the Platform bit scans; operations whose mathematical result does not fit the declared width.',
 'assumptions': [
   'assume/guarantee split for Multiply and Divide: BigInt is checked with DoubleSize<W,bits(W)> replaced (explicit specialisation in the '
   'harness) by a stand-in that ASSERTS the callee precondition at every call and returns an arbitrary result constrained only by '
   'consequences of the exact contract (product: p==0 <=> a==0 or k==0, p <= (2^w-1)^2; division: r < d, high != 0 => q != 0); what is '
   'proved is: result words = sum_i P(word_i,k)*2^(w*i) for Multiply, and for Divide the school long-division data flow (one helper '
   'call per word below the top one, each fed the previous remainder and the original word; result words = the helper quotients; '
   'returned remainder = the last helper remainder; top word = native / and %). Exactness of the result then follows from the '
   'separately proved helper contract and the textbook long-division / distributivity identities, which are not re-proved by the solver',
   'the precondition assertion of the Divide stand-in is discharged in the div_mod queries (SAT) and assumed in the div_top queries (z3)',
   'the cvc5int back end needs the PATH shim q2c/bin/cvc5 (bit-vectors as integers); see the report for the shim used',
 ],
}
RT_SUPPLY_MISSING = False   # q2c/vf_rt.h lacks vf_cttz8/16 and vf_fshl/fshr<w>: the harness supplies them; set False once the runtime has them
# Testing aid: with C19_KF_MANUAL=1 in the environment the KF_EXCL_* / KF_ONLY_* defines are passed directly (as if every C19 finding
# were open in known_findings.json); the kf_only queries then show up as VIOLATION lines instead of KNOWN-FINDING.
KF_MANUAL = os.environ.get('C19_KF_MANUAL', '') == '1'
PRIV = ['-Dprivate=public', '-Dprotected=public']
INST = {   # name: (word type, word bits, declared width)
 'u8x32':   ('unsigned char', 8, 32),
 'u16x64':  ('unsigned short', 16, 64),
 'u32x96':  ('unsigned int', 32, 96),
 'u32x128': ('unsigned int', 32, 128),
 'u64x128': ('unsigned long long', 64, 128),
 'u64x192': ('unsigned long long', 64, 192),
 'u64x256': ('unsigned long long', 64, 256),
}
NARROW = {'u8': 'unsigned char', 'u16': 'unsigned short', 'u32': 'unsigned int', 'u64': 'unsigned long long', 'u128': 'unsigned __int128'}
def nwords(i): return (INST[i][2] + INST[i][1] - 1) // INST[i][1]

def kf(q_kwargs, defs):
    """known-finding protocol, or its manual emulation"""
    if not KF_MANUAL: return
    for k in q_kwargs.pop('kf_excl', ()): defs['KF_EXCL_' + k.replace('-', '_')] = 1
    k = q_kwargs.pop('kf_only', None)
    if k: defs['KF_ONLY_' + k.replace('-', '_')] = 1

def bq(inst, entry, name=None, defs=None, **kw):
    w, wb, bits = INST[inst]
    nw = nwords(inst)
    d = {'WORD': w, 'WBITS': wb, 'BITS': bits}
    if RT_SUPPLY_MISSING: d['RT_SUPPLY_MISSING'] = 1
    d.update(defs or {})
    kf(kw, d)
    chunks = (64 if wb < 64 else 128) // wb
    b = {'top_chunk|m_.*_wide': chunks + 1, 'vf_ctlz8': 9, 'vf_ctlz16': 17}
    b.update(kw.pop('bounds', {}))
    kw.setdefault('timeout', 300)
    kw.setdefault('mem_gb', 8)
    return Query('%s/%s' % (inst, name or entry[2:]), 'C19_bigint.cpp', entry, d, bounds=b, default_unwind=nw + 1,
                 cflags=PRIV, **kw)

PLAIN = ['h_ffb_zero', 'h_add', 'h_add_op', 'h_sub', 'h_sub_op', 'h_shr', 'h_or', 'h_flb', 'h_cmp', 'h_set', 'h_clear', 'h_copy_ctor']
# entry -> known finding whose predicate is assumed away in the proving query
WITH_KF = {'h_shl': 'C19-shl-zero', 'h_and': 'C19-and-stale', 'h_and_wide': 'C19-and-stale', 'h_ffb': 'C19-ffb',
           'h_copy_assign': 'C19-copy-stale'}

def queries(tier):
    quick = (tier == 'quick')
    insts = ['u8x32', 'u16x64', 'u32x96', 'u64x128', 'u64x192'] if quick else list(INST)
    qs = []
    for i in insts:
        for e in PLAIN:
            qs.append(bq(i, e))
        for e, f in WITH_KF.items():
            qs.append(bq(i, e, kf_excl=[f] + (['C19-and-oob'] if e.startswith('h_and') and INST[i][2] < 64 else [])))
        for n in (['u8', 'u32', 'u64'] if quick else list(NARROW)):
            qs.append(bq(i, 'h_narrow', name='narrow/' + n, defs={'NARROW': NARROW[n]}))
        # Multiply / Divide over the contract of the double-word helper (the helper itself: C19_dsize.cpp)
        qs.append(bq(i, 'h_mul', defs={'DS_CONTRACT': 1}, kf_excl=['C19-mul-zero']))
        qs.append(bq(i, 'h_div_mod', defs={'DS_CONTRACT': 1}))
        qs.append(bq(i, 'h_div_top', defs={'DS_CONTRACT': 1, 'DS_PRE_ASSUMED': 1}, backend='z3'))
    if not quick:   # the word-wise reference itself, on instantiations where the native oracle is also used
        for i in ('u8x32', 'u64x128'):
            for e in PLAIN:
                qs.append(bq(i, e, name='wordwise/' + e[2:], defs={'WORDWISE': 1}))
            qs.append(bq(i, 'h_shl', name='wordwise/shl', defs={'WORDWISE': 1}, kf_excl=['C19-shl-zero']))
            qs.append(bq(i, 'h_ffb', name='wordwise/ffb', defs={'WORDWISE': 1}, kf_excl=['C19-ffb']))
            qs.append(bq(i, 'h_mul', name='wordwise/mul', defs={'WORDWISE': 1, 'DS_CONTRACT': 1}, kf_excl=['C19-mul-zero']))
    # cross-check of the assume/guarantee split: the REAL double-word helper, exact products, end to end against the native oracle
    # (only small words are within reach of a SAT solver: two copies of a multiplier/divider have to be shown equal)
    for i in (['u8x32'] if quick else ['u8x32', 'u16x64', 'u32x96']):
        for x in range(nwords(i) if INST[i][1] < 32 else 2):   # u32x96 index 2 needs ~510 s (kissat): left out
            qs.append(bq(i, 'h_mul', name='direct/mul/idx%d' % x, defs={'IDX': x}, backend='kissat', kf_excl=['C19-mul-zero']))
    for x in ((0,) if quick else (0, 1)):
        qs.append(bq('u8x32', 'h_div', name='direct/div/idx%d' % x, defs={'IDX': x, 'DIV_BY_MULT': 1}, backend='kissat'))
    # one counterexample query per known finding
    for i in (['u64x192'] if quick else ['u8x32', 'u64x192']):
        for e, f in WITH_KF.items():
            if e == 'h_and_wide': continue
            qs.append(bq(i, e, name='kf/' + e[2:], kf_only=f))
        qs.append(bq(i, 'h_mul', name='kf/mul', defs={'DS_CONTRACT': 1}, kf_only='C19-mul-zero'))
    qs.append(bq('u8x32', 'h_and_wide', name='kf/and_oob', kf_only='C19-and-oob'))   # needs an operand type wider than the BigInt
    # ---- the double-word helpers themselves -------------------------------------------------------------------------------
    for n, (w, wb) in {'u8': ('unsigned char', 8), 'u16': ('unsigned short', 16), 'u32': ('unsigned int', 32)}.items():
        qs.append(dq('ds_mul/' + n, 'h_ds_mul', w, wb))
        qs.append(dq('ds_div/' + n, 'h_ds_div', w, wb))
    U64 = 'unsigned long long'
    qs.append(dq('ds_mul/u64', 'h_ds_mul', U64, 64, backend='cvc5int'))
    # Divide<u64>: every divisor the library itself passes (Digit.hpp: 10^19 and 5^k, k <= 27), all dividends
    pows = list(range(0, 28))
    divisors = [('1e19', 10 ** 19)] + [('5e%d' % k, 5 ** k) for k in pows]
    for n, v in divisors:
        qs.append(dq('ds_div/u64/d=' + n, 'h_ds_div', U64, 64, defs={'DIVISOR': '%dULL' % v}, backend='cvc5int'))
    # arbitrary 64-bit divisors: counterexample search only (a proof is out of reach)
    qs.append(dq('ds_div/u64/kf/div_odd', 'h_ds_div', U64, 64, defs={'CHECK_MULT': 1}, backend='kissat', kf_only='C19-div-odd'))
    return qs

def dq(name, entry, w, wb, defs=None, **kw):
    d = {'WORD': w, 'WBITS': wb}
    d.update(defs or {})
    kf(kw, d)
    kw.setdefault('timeout', 300)
    kw.setdefault('mem_gb', 8)
    return Query(name, 'C19_dsize.cpp', entry, d, default_unwind=2, **kw)

from engine import Query
META = {}
OPS = {'NONE': 0, 'INSERT': 1, 'INSERT_PTR': 2, 'INSERT_CREF': 3, 'GET': 4, 'INDEX_KEY': 5, 'INDEX_MOVE': 6, 'REMOVE': 7, 'REMOVE_PTR': 8,
       'REMOVE_INDEX': 9, 'RENAME': 10, 'RENAME_CREF': 11, 'MERGE_COPY': 12, 'MERGE_MOVE': 13, 'RESERVE': 14, 'RESIZE': 15, 'EXPECT': 16,
       'COMPRESS': 17, 'CLEAR': 18, 'SORT_ASC': 19, 'SORT_DESC': 20, 'COPY_CTOR': 21, 'MOVE_CTOR': 22, 'COPY_ASSIGN': 23, 'MOVE_ASSIGN': 24,
       'RESET': 25}

def pow2(n):
    n += n & 1
    p = 1
    while p < n: p <<= 1
    return p

def tq(op, K, CAP, K2=0, CAP2=2, ARG=0, POST=0, HLIST=0, timeout=300, capmax=None, backend='sat', OBS=15):
    """one table query; capmax = largest capacity any table can reach (bounds the storage / bucket loops)"""
    if capmax is None:
        capmax = max(pow2(max(CAP, 1)), 2)
        # K inserts (+1 by the operation, +1 by POST) double the capacity whenever size == capacity
        n = K + 2
        while capmax < n: capmax *= 2
    S = capmax + 1
    L = K + K2 + 2
    b = {'build': max(K, K2) + 1, 'm_find|m_remove_at': L + 1, 'ref_cmp|IsEqual|IsLess|IsGreater': 3, 'Hash': 2,
         'find': K + 3, 'scan|ActualSize|resize|copyTable|generateHash|Dispose|operator\\+=|Sort': S, 'SetToZero': 4 * capmax + 1,
         'h_op': L + 1}   # h_op last: it also matches the C function every inlined loop lives in
    name = 'table/%s%s/K%d/cap%d' % ('hlist/' if HLIST else '', op, K, CAP)
    d = {'OP': OPS[op], 'K': K, 'K2': K2, 'CAP': CAP, 'CAP2': CAP2, 'ARG': ARG, 'POST': POST, 'HLIST': HLIST, 'OBS': OBS}
    if OBS != 15: name += '/obs%d' % OBS
    if K2: name += '/K2_%d/cap2_%d' % (K2, CAP2)
    if op in ('RESERVE', 'RESIZE', 'EXPECT'): name += '/arg%d' % ARG
    if POST: name += '/post'
    return Query(name, 'C13_table.cpp', 'h_op', d, bounds=b, default_unwind=S, timeout=timeout, mem_gb=8, backend=backend)

def queries(tier):
    qs = []
    qs.append(tq('NONE', 2, 2))
    for o in (0,1,2,4,8): qs.append(tq('NONE', 2, 2, OBS=o))
    for o in (0,1,2,4,8): qs.append(tq('NONE', 3, 2, OBS=o))
    for o in (0,1,2,4,8): qs.append(tq('NONE', 3, 4, OBS=o))
    qs.append(tq('NONE', 3, 2))
    qs.append(tq('INSERT', 2, 2))
    qs.append(tq('INSERT', 3, 2))
    qs.append(tq('SORT_ASC', 3, 2))
    qs.append(tq('MERGE_COPY', 2, 2, K2=2))
    return qs

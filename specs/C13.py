from engine import Query
META = {
 'functions': ['HashTable.hpp, every member: constructors (capacity, copy, move), destructor, copy/move assignment, Has, GetKey, GetItem (key / index), '
               'GetKeyIndex, Remove (Key, pointer+length), RemoveIndex, Rename (Key&& and const Key&), Reserve, Clear, Reset, Resize, Expect, Sort, '
               'Compress, ActualSize, Size/Capacity/Storage/First/End/IsEmpty and the private allocate, insert, remove, copyTable, resize, expand, find, '
               'generateHash (HashTable.hpp:43-564)',
               'HArray.hpp: operator+= (copy, move), Get, operator[] (const Key&, Key&&), Insert (Key&&/Value&&, const Key&/const Value&, '
               'pointer+length/Value&&), GetValue (Key, index, pointer+length[+hash]), HAItem_T::Clear and its relational operators (HArray.hpp:44-268)',
               'HList.hpp: operator+= (copy, move), Insert (Key&&, const Key&, pointer+length) (HList.hpp:30-158)',
               'StringUtils::Hash / IsEqual / IsLess / IsGreater (StringUtils.hpp:111-187), Memory::Sort / Swap / SetToZero / AlignSize / Initialize / '
               'Dispose / Allocate / Deallocate (Memory.hpp), Platform::FindLastBit'],
 'bounds': 'HArray<Key2,int> and HList<Key2>. Keys: 0..2 char units, every unit value (NUL included), so equal keys, prefix pairs and bucket '
           'collisions (Hash ignores the first unit of a 2-unit key; 2 or 4 buckets) are all inside. Values: all 2^32. Pre-state: built through the '
           'public API by k construction steps whose CLASS is concrete per query (G insert a new key, D insert an existing key again, R remove an '
           'existing key -> tombstone) while the keys, values and which entry is hit are symbolic; quick k <= 3 (GG, GR, GGR at capacity 2; GGG at '
           'capacity 4; empty and GG default-constructed), thorough every pattern with k <= 3 at capacity 2, GGR/GRG at 4, default-constructed up '
           'to GGG, and GGGG at capacity 4 (full; grows to 8) / GGRG at capacity 8. Then ONE operation with symbolic arguments out of: observers '
           'only, Insert x3 overloads, Get, operator[] x2, Remove x2, RemoveIndex (any index), Rename x2, += copy / move of a second table built the '
           'same way, Reserve/Resize/Expect (argument enumerated: 0,1,3 / 0,2,5), Compress, Clear, Reset, Sort asc/desc, copy/move construction, '
           'copy/move assignment over a non-empty table; for 12 of them one further symbolic Insert (".../post"). Afterwards: Size, ActualSize, '
           'Capacity relation, the j-th visited live entry equals the j-th model entry (first-insertion order; strict key order after Sort), '
           'index->key->index and key->index->key agreement, Has/GetItem/GetValue/GetKeyIndex of an arbitrary probe key against the model, '
           'GetKey/GetItem/GetValue of an arbitrary index, untouched source / emptied moved-from source; every dereference, free and array bound '
           'inside the library code is checked by CBMC on the way. Hash: keys of 0..8 units (char; thorough also char16_t/char32_t) never hash to 0 '
           'and always have the top bit set.',
 'outside': 'histories longer than k+1 (+1) operations; more than 4 construction steps or capacities above 8 (16 after growth); keys longer than 2 units '
            'in table queries and String keys (their allocation behaviour is C14/C16); value types other than int (ownership of non-trivial values: C16); '
            'the NUL-terminated overloads operator[](const Char_T*) / Remove(const Char_T*) (they forward after StringUtils::Count); self-merge and '
            'self-assignment; Sort on tables with 4 and more slots in use (no verdict); Expect/Reserve/Resize arguments other than the enumerated ones; '
            'allocation failure',
 'assumptions': ['Key2 stand-in for the Key_T parameter (q2c/standins/key2.hpp): inline 0..2 units + length, compared through the library\'s own '
                 'StringUtils::IsEqual/IsLess/IsGreater like String; moved-from key is empty',
                 'CBMC side only: Memory::Allocate<char>(size) is kept out of line and routed through c13_alloc, which calls the same operator new with a '
                 'literal size chosen by a case split over the capacities the query can reach (assertion 999 fails if another size is requested); '
                 'the native replay runs the unmodified function',
                 'after each construction step the harness asserts Size()/Capacity() equal the values predicted by the spec and writes the same '
                 'literals back through setSize/setCapacity (-Dprivate=public): a no-op on the state that lets CBMC see allocation sizes as constants',
                 'construction-step classes are enumerated across queries, not symbolic within one query; for the two-table operations (+=, assignment) '
                 'the observer groups are checked in two queries (.../obs3: visiting order + every model entry found, .../obs12: probe key + any index)'],
}
OPS = {'NONE': 0, 'INSERT': 1, 'INSERT_PTR': 2, 'INSERT_CREF': 3, 'GET': 4, 'INDEX_KEY': 5, 'INDEX_MOVE': 6, 'REMOVE': 7, 'REMOVE_PTR': 8,
       'REMOVE_INDEX': 9, 'RENAME': 10, 'RENAME_CREF': 11, 'MERGE_COPY': 12, 'MERGE_MOVE': 13, 'RESERVE': 14, 'RESIZE': 15, 'EXPECT': 16,
       'COMPRESS': 17, 'CLEAR': 18, 'SORT_ASC': 19, 'SORT_DESC': 20, 'COPY_CTOR': 21, 'MOVE_CTOR': 22, 'COPY_ASSIGN': 23, 'MOVE_ASSIGN': 24,
       'RESET': 25}
INSERTING = ('INSERT', 'INSERT_PTR', 'INSERT_CREF', 'GET', 'INDEX_KEY', 'INDEX_MOVE')
TWO = ('MERGE_COPY', 'MERGE_MOVE', 'COPY_ASSIGN', 'MOVE_ASSIGN')
ALLOC = '_ZN6Qentem6MemoryL8AllocateIcEEPT_j'      # Memory::Allocate<char>(SizeT), kept out of line by the harness

def pow2(n):
    n += n & 1
    p = 1
    while p < n: p <<= 1
    return p

CLS = {'G': 1, 'D': 2, 'R': 3}     # step classes: Grow (insert a new key), Duplicate (insert an existing key), Remove (an existing key)

def simulate(pat, cap0):
    """(Size, Capacity) after each construction step, and the final live count; None if the pattern is impossible"""
    size = 0; live = 0; cap = pow2(cap0) if cap0 else 0; tr = []
    for c in pat:
        if c in 'DR' and live == 0: return None
        if c in 'GD' and size == cap:          # Insert() expands a full table before it looks the key up; resize() drops tombstones
            cap = (cap or 1) * 2; size = live
        if c == 'G': size += 1; live += 1
        if c == 'R': live -= 1
        tr.append((size, cap))
    return tr, size, cap, live

def vec(xs): return '{' + ','.join(str(x) for x in list(xs) + [0]) + '}'

def capset(op, size, cap, live, size2, cap2, ARG, POST, hist=()):
    s = {c for c in hist if c}              # every capacity on the construction trajectories (initial ones included)
    if cap: s.add(cap)
    if op in INSERTING and size == cap: s.add((cap or 1) * 2)
    if op in TWO and cap2: s.add(cap2)
    if op in ('MERGE_COPY', 'MERGE_MOVE') and size + size2 > cap: s.add(pow2(size + size2))
    if op in ('RESERVE', 'RESIZE') and ARG: s.add(pow2(ARG))
    if op == 'EXPECT' and size + ARG > cap: s.add(pow2(size + ARG))
    if op == 'COMPRESS': s |= {pow2(x) for x in range(1, size)}            # resize(ActualSize()): the one symbolic size
    if op in ('COPY_CTOR', 'COPY_ASSIGN') and size: s.add(pow2(size))
    if POST: s |= {2} | {2 * c for c in s}
    return s

def tq(op, pat, CAP, pat2='', CAP2=2, ARG=0, POST=0, HLIST=0, OBS=15, timeout=300, backend='sat'):
    """one table query: construction steps pat at initial capacity CAP, then operation op, then the observer groups in OBS"""
    if op not in TWO: pat2 = ''
    tr, size, cap, live = simulate(pat, CAP)
    tr2, size2, cap2, live2 = simulate(pat2, CAP2)
    K, K2 = len(pat), len(pat2)
    hist = [pow2(CAP) if CAP else 0] + [x[1] for x in tr]
    if op in TWO: hist += [pow2(CAP2) if CAP2 else 0] + [x[1] for x in tr2]
    cs = capset(op, size, cap, live, size2, cap2, ARG, POST, hist)
    capmax = max(cs) if cs else 2
    E = max(size + size2, size, ((live if size == cap else size) + 1) if op in INSERTING else 0, 1) + POST   # most storage slots in use
    S = E + 1
    b = {'m_find|m_remove_at': K + K2 + 3, 'ref_cmp|IsEqual|IsLess|IsGreater': 3, 'Hash': 2,
         'find|generateHash|scan|ActualSize|resize|copyTable|Dispose|operator\\+=|Sort': S, 'SetToZero': 4 * capmax + 1,
         'h_op': K + K2 + 3}   # h_op last: it is also the C function every inlined loop lives in
    name = 'table/%s%s/%s/cap%d' % ('hlist/' if HLIST else '', op, pat or '-', CAP)
    if op in TWO: name += '/%s/cap%d' % (pat2 or '-', CAP2)
    if op in ('RESERVE', 'RESIZE', 'EXPECT'): name += '/arg%d' % ARG
    if POST: name += '/post'
    if OBS != 15: name += '/obs%d' % OBS
    d = {'OP': OPS[op], 'K': K, 'PATV': vec(CLS[c] for c in pat), 'SZV': vec(x[0] for x in tr), 'CPV': vec(x[1] for x in tr),
         'K2': K2, 'PAT2V': vec(CLS[c] for c in pat2), 'SZ2V': vec(x[0] for x in tr2), 'CP2V': vec(x[1] for x in tr2),
         'CAP': CAP, 'CAP2': CAP2, 'ARG': ARG, 'POST': POST, 'HLIST': HLIST, 'OBS': OBS, 'CAPSET': sum(cs), 'LIVE': live}
    return Query(name, 'C13_table.cpp', 'h_op', d, bounds=b, default_unwind=S, rec_bounds={'Sort': S}, default_rec=S,
                 stubs=({ALLOC: 'c13_alloc'} if cs else {}), cflags=['-Dprivate=public', '-Dprotected=public'], timeout=timeout, mem_gb=8, backend=backend,
                 extra_cbmc=['--object-bits', '11'])     # Swap temporaries of the recursive Sort exceed CBMC's default 256 objects

def hq(LEN, ch):
    return Query('hash/%s/len%d' % (ch, LEN), 'C13_table.cpp', 'h_hash', {'LEN': LEN, 'CHAR': ch},
                 bounds={'Hash': LEN // 2 + 2, 'vf_buf.*': LEN + 1, 'h_hash': LEN + 1}, timeout=600, mem_gb=8)

ARGOPS = ('RESERVE', 'RESIZE', 'EXPECT')
HLIST_OPS = ('NONE', 'INSERT', 'INSERT_PTR', 'INSERT_CREF', 'REMOVE', 'REMOVE_INDEX', 'RENAME', 'MERGE_COPY', 'MERGE_MOVE', 'COMPRESS', 'SORT_DESC',
             'COPY_CTOR', 'MOVE_ASSIGN')
POST_OPS = (('CLEAR', 0), ('SORT_ASC', 0), ('COMPRESS', 0), ('RESIZE', 1), ('RESERVE', 3), ('COPY_CTOR', 0), ('MERGE_MOVE', 0), ('RENAME', 0),
            ('REMOVE_INDEX', 0), ('RESET', 0), ('MOVE_CTOR', 0), ('RESIZE', 0))

def op_queries(pat, cap, pat2, cap2, args, ops=None, **kw):
    qs = []
    for op in (ops or OPS):
        if op in ARGOPS:
            for a in args: qs.append(tq(op, pat, cap, ARG=a, **kw))
        elif op in TWO:      # two tables: the observer groups go into two queries (one combined query swings between 25 s and > 400 s)
            for o in (3, 12): qs.append(tq(op, pat, cap, pat2, cap2, OBS=o, **kw))
        else: qs.append(tq(op, pat, cap, **kw))
    return qs

def queries(tier):
    qs = []
    if tier == 'quick':
        for pat in ('GG', 'GGR'): qs += op_queries(pat, 2, 'G', 2, (0, 1, 3))
        qs += op_queries('G', 2, 'GG', 2, (), ('MERGE_COPY', 'MERGE_MOVE'))
        qs += op_queries('GR', 2, 'GR', 2, (1,), ('NONE', 'INSERT', 'GET', 'REMOVE_INDEX', 'RENAME', 'MERGE_COPY', 'MERGE_MOVE', 'RESIZE', 'EXPECT',
                                                 'COMPRESS', 'SORT_ASC', 'COPY_CTOR', 'COPY_ASSIGN'))
        qs += op_queries('', 2, 'G', 2, (2,), ('NONE', 'INSERT', 'GET', 'REMOVE', 'REMOVE_INDEX', 'RENAME', 'MERGE_COPY', 'EXPECT', 'CLEAR', 'SORT_ASC',
                                               'COPY_CTOR', 'MOVE_CTOR'))
        qs += op_queries('GGG', 4, 'GR', 2, (2,), ('NONE', 'INSERT', 'REMOVE', 'RENAME', 'MERGE_COPY', 'RESIZE', 'COMPRESS'))
        for op, a in POST_OPS: qs.append(tq(op, 'GG' if op in ('SORT_ASC', 'COMPRESS') else 'GGR', 2, 'G', 2, ARG=a, POST=1))
        qs.append(tq('CLEAR', 'GGG', 2, 'GG', 2, ARG=0, POST=1))     # Clear on a table that has grown (3 of 4 slots in use), then an insert: no bucket head may survive the clear
        # default-constructed tables (capacity 0 -> 2 -> 4)
        qs += op_queries('', 0, '', 0, (0, 2), ('NONE', 'INSERT', 'GET', 'REMOVE', 'REMOVE_INDEX', 'RENAME', 'MERGE_COPY', 'MERGE_MOVE', 'RESERVE', 'EXPECT',
                                                'COMPRESS', 'CLEAR', 'SORT_ASC', 'COPY_CTOR', 'MOVE_ASSIGN'))
        qs += op_queries('GG', 0, 'G', 0, (1,), ('NONE', 'INSERT', 'INDEX_KEY', 'REMOVE', 'MERGE_COPY', 'MERGE_MOVE', 'RESIZE', 'COMPRESS', 'SORT_DESC', 'COPY_ASSIGN'))
        qs += op_queries('GGR', 2, 'G', 2, (1,), HLIST_OPS, HLIST=1)
        for n in range(0, 9): qs.append(hq(n, 'char'))
        for n in (1, 4): qs += [hq(n, 'char16_t'), hq(n, 'char32_t')]
    else:
        for pat in ('', 'G', 'GG', 'GD', 'GR', 'GGG', 'GGD', 'GGR', 'GRG'): qs += op_queries(pat, 2, 'GGR', 2, (0, 1, 3), timeout=600)
        for pat in ('GGR', 'GRG'): qs += op_queries(pat, 4, 'GG', 2, (0, 2, 5), timeout=600)
        for pat in ('', 'G', 'GG', 'GGG'): qs += op_queries(pat, 0, 'G', 0, (0, 2), timeout=600)
        k4 = ('NONE', 'INSERT', 'GET', 'REMOVE', 'REMOVE_INDEX', 'RENAME', 'MERGE_COPY', 'MERGE_MOVE', 'RESIZE', 'EXPECT', 'COMPRESS', 'CLEAR',
              'COPY_CTOR', 'MOVE_ASSIGN')
        qs += op_queries('GGGG', 4, 'GG', 2, (2,), k4, timeout=900)       # full table of 4: the operation's insert expands to 8
        qs += op_queries('GGRG', 8, 'GGR', 4, (5,), k4, timeout=900)      # capacity 8 with a tombstone
        for pat in ('GGR', 'GRG', 'GGG'):
            for op, a in POST_OPS:
                if not (pat == 'GGG' and op == 'SORT_ASC'): qs.append(tq(op, pat, 2, 'GG', 2, ARG=a, POST=1, timeout=600))   # that one: CBMC out of memory
        for pat in ('GG', 'GGR', 'GRG', 'GGG'): qs += op_queries(pat, 2, 'GG', 2, (1,), HLIST_OPS + ('CLEAR', 'RESIZE', 'EXPECT', 'RESERVE'), HLIST=1, timeout=600)
        for ch in ('char', 'char16_t', 'char32_t'):
            for n in range(0, 9): qs.append(hq(n, ch))
    return qs

def _pats(n):
    """construction patterns of n steps starting with an insert (anything else is a shorter history)"""
    out = ['G']
    for _ in range(n - 1): out = [p + c for p in out for c in 'GDR']
    return [p for p in out if simulate(p, 2) is not None]

def sort_queries(tier):
    """HashTable::Sort then every observer (shared with C15's sort clause)"""
    pats = ('GG', 'GGR') if tier == 'quick' else ('G', 'GG', 'GR', 'GGR', 'GRG', 'GGG')
    qs = []
    for pat in pats:
        for op in ('SORT_ASC', 'SORT_DESC'):
            qs.append(tq(op, pat, 2, timeout=600))
    return qs

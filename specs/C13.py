from engine import Query
META = {}
OPS = {'NONE': 0, 'INSERT': 1, 'INSERT_PTR': 2, 'INSERT_CREF': 3, 'GET': 4, 'INDEX_KEY': 5, 'INDEX_MOVE': 6, 'REMOVE': 7, 'REMOVE_PTR': 8,
       'REMOVE_INDEX': 9, 'RENAME': 10, 'RENAME_CREF': 11, 'MERGE_COPY': 12, 'MERGE_MOVE': 13, 'RESERVE': 14, 'RESIZE': 15, 'EXPECT': 16,
       'COMPRESS': 17, 'CLEAR': 18, 'SORT_ASC': 19, 'SORT_DESC': 20, 'COPY_CTOR': 21, 'MOVE_CTOR': 22, 'COPY_ASSIGN': 23, 'MOVE_ASSIGN': 24,
       'RESET': 25}
INSERTING = ('INSERT', 'INSERT_PTR', 'INSERT_CREF', 'GET', 'INDEX_KEY', 'INDEX_MOVE')
TWO = ('MERGE_COPY', 'MERGE_MOVE', 'COPY_ASSIGN', 'MOVE_ASSIGN')
ALLOC = '_ZN6Qentem6MemoryL8AllocateIcEEPT_j'      # Memory::Allocate<char>(SizeT), kept out of line by the harness

def pow2(n):
    n += n & 1
    p = 1
    while p < n: p <<= 1
    return p

def chain(c0, n):
    """capacities a table constructed with capacity c0 can take during n inserts (doubling when full)"""
    s = set(); c = pow2(c0) if c0 else 0
    if c: s.add(c)
    elif n >= 1: c = 2; s.add(c)
    while c and c < n: c *= 2; s.add(c)
    return s

CLS = {'G': 1, 'D': 2, 'R': 3}     # step classes: Grow (insert a new key), Duplicate (insert an existing key), Remove (an existing key)

def simulate(pat, cap0):
    """(Size, Capacity) after each construction step, and the final live count; None if the pattern is impossible"""
    size = 0; live = 0; cap = pow2(cap0) if cap0 else 0; tr = []
    for c in pat:
        if c in 'DR' and live == 0: return None
        if c in 'GD' and size == cap:          # Insert() expands a full table before it looks the key up; resize() drops tombstones
            cap = (cap or 1) * 2; size = live
        if c == 'G': size += 1; live += 1
        if c == 'R': live -= 1
        tr.append((size, cap))
    return tr, size, cap, live

def vec(xs): return '{' + ','.join(str(x) for x in list(xs) + [0]) + '}'

def capset(op, size, cap, live, size2, cap2, ARG, POST):
    s = {cap} if cap else set()
    if op in INSERTING and size == cap: s.add((cap or 1) * 2)
    if op in TWO and cap2: s.add(cap2)
    if op in ('MERGE_COPY', 'MERGE_MOVE') and size + size2 > cap: s.add(pow2(size + size2))
    if op in ('RESERVE', 'RESIZE') and ARG: s.add(pow2(ARG))
    if op == 'EXPECT' and size + ARG > cap: s.add(pow2(size + ARG))
    if op == 'COMPRESS': s |= {pow2(x) for x in range(1, size)}            # resize(ActualSize()): the one symbolic size
    if op in ('COPY_CTOR', 'COPY_ASSIGN') and size: s.add(pow2(size))
    if POST: s |= {2} | {2 * c for c in s}
    return s

def tq(op, pat, CAP, pat2='', CAP2=2, ARG=0, POST=0, HLIST=0, OBS=15, timeout=300, backend='sat'):
    """one table query: construction steps pat at initial capacity CAP, then operation op, then the observer groups in OBS"""
    if op not in TWO: pat2 = ''
    tr, size, cap, live = simulate(pat, CAP)
    tr2, size2, cap2, live2 = simulate(pat2, CAP2)
    K, K2 = len(pat), len(pat2)
    cs = capset(op, size, cap, live, size2, cap2, ARG, POST)
    capmax = max(cs) if cs else 2
    E = max(size + size2, size, ((live if size == cap else size) + 1) if op in INSERTING else 0, 1) + POST   # most storage slots in use
    S = E + 1
    b = {'m_find|m_remove_at': K + K2 + 3, 'ref_cmp|IsEqual|IsLess|IsGreater': 3, 'Hash': 2,
         'find|generateHash|scan|ActualSize|resize|copyTable|Dispose|operator\\+=|Sort': S, 'SetToZero': 4 * capmax + 1,
         'h_op': K + K2 + 3}   # h_op last: it is also the C function every inlined loop lives in
    name = 'table/%s%s/%s/cap%d' % ('hlist/' if HLIST else '', op, pat or '-', CAP)
    if op in TWO: name += '/%s/cap%d' % (pat2 or '-', CAP2)
    if op in ('RESERVE', 'RESIZE', 'EXPECT'): name += '/arg%d' % ARG
    if POST: name += '/post'
    if OBS != 15: name += '/obs%d' % OBS
    d = {'OP': OPS[op], 'K': K, 'PATV': vec(CLS[c] for c in pat), 'SZV': vec(x[0] for x in tr), 'CPV': vec(x[1] for x in tr),
         'K2': K2, 'PAT2V': vec(CLS[c] for c in pat2), 'SZ2V': vec(x[0] for x in tr2), 'CP2V': vec(x[1] for x in tr2),
         'CAP': CAP, 'CAP2': CAP2, 'ARG': ARG, 'POST': POST, 'HLIST': HLIST, 'OBS': OBS, 'CAPSET': sum(cs)}
    return Query(name, 'C13_table.cpp', 'h_op', d, bounds=b, default_unwind=S, rec_bounds={'Sort': S}, default_rec=S,
                 stubs={ALLOC: 'c13_alloc'}, cflags=['-Dprivate=public', '-Dprotected=public'], timeout=timeout, mem_gb=8, backend=backend)

def hq(LEN, ch):
    return Query('hash/%s/len%d' % (ch, LEN), 'C13_table.cpp', 'h_hash', {'LEN': LEN, 'CHAR': ch},
                 bounds={'Hash': LEN // 2 + 2, 'vf_buf.*': LEN + 1, 'h_hash': LEN + 1}, timeout=120, mem_gb=8)

ARGOPS = ('RESERVE', 'RESIZE', 'EXPECT')
HLIST_OPS = ('NONE', 'INSERT', 'INSERT_PTR', 'INSERT_CREF', 'REMOVE', 'REMOVE_INDEX', 'RENAME', 'MERGE_COPY', 'MERGE_MOVE', 'COMPRESS', 'SORT_DESC',
             'COPY_CTOR', 'MOVE_ASSIGN')
POST_OPS = (('CLEAR', 0), ('SORT_ASC', 0), ('COMPRESS', 0), ('RESIZE', 1), ('RESERVE', 3), ('COPY_CTOR', 0), ('MERGE_MOVE', 0), ('RENAME', 0),
            ('REMOVE_INDEX', 0), ('RESET', 0), ('MOVE_CTOR', 0), ('RESIZE', 0))

def valid(pat, cap):
    return simulate(pat, cap) is not None

def op_queries(pat, cap, pat2, cap2, args, ops=None, **kw):
    qs = []
    for op in (ops or OPS):
        if op in ARGOPS:
            for a in args: qs.append(tq(op, pat, cap, ARG=a, **kw))
        elif op in TWO: qs.append(tq(op, pat, cap, pat2, cap2, **kw))
        else: qs.append(tq(op, pat, cap, **kw))
    return qs

def queries(tier):
    qs = []
    if tier == 'quick':
        for pat in ('GG', 'GGR'): qs += op_queries(pat, 2, 'GG', 2, (0, 1, 3))
        qs += op_queries('GR', 2, 'GR', 2, (1,), ('NONE', 'INSERT', 'GET', 'REMOVE_INDEX', 'RENAME', 'MERGE_COPY', 'MERGE_MOVE', 'RESIZE', 'EXPECT',
                                                 'COMPRESS', 'SORT_ASC', 'COPY_CTOR', 'COPY_ASSIGN'))
        qs += op_queries('', 2, 'G', 2, (2,), ('NONE', 'INSERT', 'GET', 'REMOVE', 'REMOVE_INDEX', 'RENAME', 'MERGE_COPY', 'EXPECT', 'CLEAR', 'SORT_ASC',
                                               'COPY_CTOR', 'MOVE_CTOR'))
        qs += op_queries('GGG', 4, 'GR', 2, (2,), ('NONE', 'INSERT', 'REMOVE', 'RENAME', 'MERGE_COPY', 'RESIZE', 'SORT_DESC'))
        for op, a in POST_OPS: qs.append(tq(op, 'GGR', 2, 'GG', 2, ARG=a, POST=1))
        # default-constructed tables (capacity 0 -> 2 -> 4)
        qs += op_queries('', 0, '', 0, (0, 2), ('NONE', 'INSERT', 'GET', 'REMOVE', 'REMOVE_INDEX', 'RENAME', 'MERGE_COPY', 'MERGE_MOVE', 'RESERVE', 'EXPECT',
                                                'COMPRESS', 'CLEAR', 'SORT_ASC', 'COPY_CTOR', 'MOVE_ASSIGN'))
        qs += op_queries('GG', 0, 'G', 0, (1,), ('NONE', 'INSERT', 'INDEX_KEY', 'REMOVE', 'MERGE_COPY', 'MERGE_MOVE', 'RESIZE', 'COMPRESS', 'SORT_DESC', 'COPY_ASSIGN'))
        qs += op_queries('GGR', 2, 'GG', 2, (1,), HLIST_OPS, HLIST=1)
        for n in range(0, 9): qs.append(hq(n, 'char'))
        for n in (1, 4): qs += [hq(n, 'char16_t'), hq(n, 'char32_t')]
    else:
        pats = [''] + [p for n in (1, 2, 3) for p in _pats(n)]
        for cap in (2, 4):
            for pat in pats:
                if valid(pat, cap): qs += op_queries(pat, cap, 'GGR' if cap == 2 else 'GG', 6 - cap, (0, 1, 2, 3, 5))
        for pat in ('GGGG', 'GGRG', 'GGGR', 'GRGG', 'GGDR'):
            for cap in (4, 8): qs += op_queries(pat, cap, 'GGR', 4, (0, 3, 5))
        for pat in ('GGR', 'GRG', 'GGG'):
            for op, a in POST_OPS: qs.append(tq(op, pat, 2, 'GG', 2, ARG=a, POST=1))
        for pat in ('GG', 'GGR', 'GRG', 'GGG'): qs += op_queries(pat, 2, 'GG', 2, (0, 1, 3), HLIST_OPS + ('CLEAR', 'RESIZE', 'EXPECT', 'RESERVE'), HLIST=1)
        for ch in ('char', 'char16_t', 'char32_t'):
            for n in range(0, 9): qs.append(hq(n, ch))
    return qs

def _pats(n):
    """construction patterns of n steps starting with an insert (anything else is a shorter history)"""
    out = ['G']
    for _ in range(n - 1): out = [p + c for p in out for c in 'GDR']
    return [p for p in out if simulate(p, 2) is not None]

def sort_queries(tier):
    """HashTable::Sort then every observer (shared with C15's sort clause)"""
    pats = ('GG', 'GGR', 'GGG') if tier == 'quick' else ('G', 'GG', 'GGR', 'GRG', 'GGG', 'GGGR', 'GGRG', 'GGGG')
    qs = []
    for pat in pats:
        for op in ('SORT_ASC', 'SORT_DESC'):
            qs.append(tq(op, pat, 4 if len(pat) > 3 else 2))
    return qs

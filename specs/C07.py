import importlib.util, os
from engine import Query
_sp = importlib.util.spec_from_file_location('c05', os.path.join(os.path.dirname(__file__), 'C05.py')); _c05 = importlib.util.module_from_spec(_sp); _sp.loader.exec_module(_c05)
META = {
 'functions': ['JSON::JSONParser::Parse / parseValue / parseObject / parseArray (JSON.hpp:61-289): each verified functionally against its RFC 8259 production',
               'StringUtils::TrimLeft'],
 'bounds': 'fully symbolic exact-size buffers of every length L <= N (N = 4 quick, 6 thorough) and an arbitrary cursor, callees under logging assume-guarantee contracts; '
           'by induction over nesting depth Parse returns a defined value IFF the text is exactly ws value ws of the grammar (relative to the string/number token recognisers), '
           'hence every proper prefix, every trailing non-whitespace unit and every flipped/removed closing bracket is rejected for documents up to N units',
 'outside': 'buffers longer than N; the string and number token recognisers themselves (C20, C08 escape queries, C09)',
 'assumptions': ['shape-recording Value/Array/HArray/String stand-ins (no heap)', 'FixedStream scratch stream',
                 'prefix-freeness of the RFC 8259 container grammar (a grammar fact, not code) links "defined iff production matches" to the prefix clause'],
}
def fn_queries(tier, prop):
    N = 4 if tier == 'quick' else 6
    qs = []
    for ch in ('char', 'char16_t', 'char32_t'):
        nm = _c05.names(ch)
        for L in range(1, N + 2):
            only_steer = (L == N + 1)             # one size beyond the tier's bound, steering twin of the object production only (room for  "":1} )
            if only_steer and (tier != 'quick' or ch != 'char'): continue
            if ch != 'char' and (tier == 'quick' and L != N - 1 or tier != 'quick' and L > 4): continue
            b = {'TrimLeft|parseArray|parseObject|skip_ws|lit|vf_buf.*|h_.*_fn': L + 2, 'parseValue': 6, 'Insert': 4, 'Array|HArray|Value|ShapeChild|value_stub|fn_.*|String': 4}
            d = {'L': L, 'CHAR': ch}
            def Q(entry, stubs):
                qs.append(Query('%s/%s/%s/L%d' % (prop, entry, ch, L), 'C07_json_fn.cpp', entry, d, bounds=b, stubs=stubs, cflags=['-Dprotected=public'], timeout=900,
                                replay=('C05_lift.cpp', {'h_top_fn': 'lift_top_fn', 'h_value_fn': 'lift_value_fn', 'h_array_fn': 'lift_array_fn', 'h_object_fn': 'lift_object_fn'}[entry])))
            if not only_steer: Q('h_top_fn', {nm['parseValue']: 'fn_parseValue'})
            if not only_steer: Q('h_value_fn', {nm['parseObject']: 'fn_container', nm['parseArray']: 'fn_container', nm['UnEscape']: 'fn_unescape', nm['stringToNumber']: 'fn_strtonum'})
            if not only_steer: Q('h_array_fn', {nm['parseValue']: 'fn_parseValue'})
            if not only_steer: Q('h_object_fn', {nm['parseValue']: 'fn_parseValue', nm['UnEscape']: 'fn_unescape'})
            if ch == 'char' and L in ((4, 5) if tier == 'quick' else (3, 4, 5, 6)):
                # steering twins: same harness restricted to "failed with the cursor left on a closer/comma" - vacuous (witness unreachable)
                # on a correct tree, and on a broken one they yield counterexamples that lift to an accepted malformed document
                # STEER=1: callee results restricted to REAL tokens (one digit / the key k"), same assertions: any counterexample lifts to a real document;
                # STEER=2: additionally "failed with the cursor left on a closer/comma" (vacuous on a correct tree)
                for entry, stubs in (('h_array_fn', {nm['parseValue']: 'fn_parseValue'}), ('h_object_fn', {nm['parseValue']: 'fn_parseValue', nm['UnEscape']: 'fn_unescape'}),
                                     ('h_top_fn', {nm['parseValue']: 'fn_parseValue'})):
                    for st in (1, 2, 3, 4):
                        if st == 2 and entry == 'h_top_fn': continue
                        if st == 4 and not (entry == 'h_top_fn' and L != 5): continue     # STEER=4: the value at top level is the real empty array  []
                        if st == 3 and not (entry == 'h_object_fn' and L >= 5): continue      # STEER=3: the valid text  "":D}  (empty member name)
                        if tier == 'quick' and L == 5 and not (entry == 'h_object_fn' and st in (1, 3)): continue   # L=5: room for  "":1}
                        d2 = dict(d); d2['STEER'] = st
                        qs.append(Query('%s/%s/%s/L%d/steer%d' % (prop, entry, ch, L, st), 'C07_json_fn.cpp', entry, d2, bounds=b, stubs=stubs, cflags=['-Dprotected=public'], timeout=900,
                                        replay=('C05_lift.cpp', {'h_array_fn': 'lift_array_fn', 'h_object_fn': 'lift_object_fn', 'h_top_fn': 'lift_top_fn'}[entry]), vacuous_ok=(st == 2)))
    return qs
def queries(tier):
    return fn_queries(tier, 'fn')


import importlib.util, os, copy
from engine import Query
def _load(n):
    sp = importlib.util.spec_from_file_location(n, os.path.join(os.path.dirname(__file__), n + '.py')); m = importlib.util.module_from_spec(sp); sp.loader.exec_module(m); return m
META = {
 'functions': ['Array<int>, Array<Tracked> (Array.hpp): every public operation incl. growth/relocation, copy/move, merge-by-move, Clear/Reset/Detach',
               'String<char>, StringStream<char> (String.hpp, StringStream.hpp): every public operation of the C14 harnesses incl. Detach / GetString hand-over',
               'HArray<String<char>, String<char>>::Insert (4 overloads), operator[], Get, Remove, copy construction, destruction (HArray.hpp, HashTable.hpp)',
               'Memory::Allocate / Deallocate / Dispose seam (Memory.hpp:160-249)'],
 'bounds': 'the host harnesses of C14 (arrays, char strings and streams) re-run with CBMC --memory-leak-check: after ONE arbitrary operation on a pre-state built through the public API '
           '(capacity <= 4, symbolic size/contents/aliasing) and destruction of every object, no allocation is live; CBMC deallocated-object / double-free / invalid-free '
           'properties cover use-after-release and foreign releases; the Tracked ledger covers construct/destroy exactly once per element',
 'outside': 'failed JSON parses and malformed templates with the REAL Value / tag arrays (real container-kind Value and the template driver are beyond reach of CBMC here); '
            'hash arrays with owning keys beyond the listed two-key histories (HArray<String,String>: insert, replace through every Insert overload / operator[] / Get, remove and re-insert, copy); tag-cache lifetimes',
 'assumptions': [],
}
def queries(tier):
    c14 = _load('C14')
    qs = []
    for q in c14.queries(tier):
        if q.kf_only is not None: continue
        if q.harness == 'C14_array.cpp' or (q.harness in ('C14_string.cpp', 'C14_stream.cpp') and q.defs.get('CHAR') == 'char'):
            q2 = copy.copy(q); q2.name = 'leak/' + q.name; q2.leak = True
            qs.append(q2)
    # hash arrays with owning String keys and values: insert / replace / remove histories, then destruction
    HB = {'Dispose': 5, 'Copy': 12, 'Hash': 3, 'IsEqual': 6, 'find': 4, 'resize|generateHash|expand': 6, 'vf_mem.*': 120, 'Count': 3, 'SetToZero': 20, 'mk': 5, 'copyTable': 4, 'Write|write': 8}
    for op in range(7):
        for same in (1, 0):
            qs.append(Query('leak/harray/op%d/same%d' % (op, same), 'C16_harray.cpp', 'h_harray', {'OP': op, 'SAME': same}, bounds=HB, default_unwind=5, leak=True, timeout=600, mem_gb=10))
    return qs

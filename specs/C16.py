import importlib.util, os, copy
from engine import Query
def _load(n):
    sp = importlib.util.spec_from_file_location(n, os.path.join(os.path.dirname(__file__), n + '.py')); m = importlib.util.module_from_spec(sp); sp.loader.exec_module(m); return m
META = {
 'functions': ['Array<int>, Array<Tracked> (Array.hpp): every public operation incl. growth/relocation, copy/move, merge-by-move, Clear/Reset/Detach',
               'String<char>, StringStream<char> (String.hpp, StringStream.hpp): every public operation of the C14 harnesses incl. Detach / GetString hand-over',
               'Memory::Allocate / Deallocate / Dispose seam (Memory.hpp:160-249)'],
 'bounds': 'the host harnesses of C14 (arrays, char strings and streams) re-run with CBMC --memory-leak-check: after ONE arbitrary operation on a pre-state built through the public API '
           '(capacity <= 4, symbolic size/contents/aliasing) and destruction of every object, no allocation is live; CBMC deallocated-object / double-free / invalid-free '
           'properties cover use-after-release and foreign releases; the Tracked ledger covers construct/destroy exactly once per element',
 'outside': 'failed JSON parses and malformed templates with the REAL Value / tag arrays (real container-kind Value and the template driver are beyond reach of CBMC here); '
            'hash arrays with owning String keys; tag-cache lifetimes',
 'assumptions': [],
}
def queries(tier):
    c14 = _load('C14')
    qs = []
    for q in c14.queries(tier):
        if q.kf_only is not None: continue
        if q.harness == 'C14_array.cpp' or (q.harness in ('C14_string.cpp', 'C14_stream.cpp') and q.defs.get('CHAR') == 'char'):
            q2 = copy.copy(q); q2.name = 'leak/' + q.name; q2.leak = True
            qs.append(q2)
    return qs

from engine import Query
META = {
 'functions': ['Digit::IntToString<false|true> (Digit.hpp:101-140)', 'Digit::NumberToString integer branch (Digit.hpp:69-98)',
               'DigitUtils::DigitTable1/DigitTable2 (DigitUtils.hpp:109-113)',
               'Digit::formatStringNumberFixed<true|false> (Digit.hpp:1048-1140)', 'Digit::formatStringNumberDefault (Digit.hpp:947-1046)',
               'Digit::roundStringNumber (Digit.hpp:1142-1171)', 'Digit::insertPowerOfTen / insertZeros / insertZerosLarge (Digit.hpp:882-914)',
               'Digit::realToString, zero / inf / nan branches only (Digit.hpp:725-880)'],
 'bounds': '(a) integers: EVERY 8- and 16-bit value (signed and unsigned, both directions, char/char16_t/char32_t, symbolic 0-2 unit stream prefix). '
           '32- and 64-bit types: every value < 100 (h_base), a value window |v| <= 99999 (quick) / 9999999 (thorough), and the edge set '
           '{10^k - 1, 10^k : all k} + {type maximum, maximum - 1, signed maximum, signed maximum - 1, signed minimum, signed minimum + 1}. '
           '(b) real numbers: only the decimal string kernels (stage iii of realToString) over a symbolic reversed digit run of NDIG <= 5 (quick) / 8 '
           '(thorough; the model admits at most precision+2..3 digits in most modes) digits, precision <= 4, all three formats, under the call-site model written at the top of C10_fmt.cpp '
           '(validated natively on 5.0M Fixed and 3.0M Default call sites of random normal doubles: 0 deviations); V < 1 restricted to '
           'calculated_digits <= 3 (V > ~0.001), Default format with at most 3 dropped integer digits; zero / inf / nan for double and float, all formats. '
           '(c) long zero padding, Fixed format: the same kernels and oracle with the precision PINNED per query to 19, 20, 21, 22, 40, 41 (quick) / every value 17..45 (thorough) '
           'over runs of 1-2 symbolic digits (integer-valued V, one fraction digit, V < 1), so that insertZerosLarge writes its 20-unit zero block 0, 1 and 2 times.',
 'outside': '32/64-bit integers outside the window and edge set: no back end decided the Horner oracle for more than ~7 symbolic digits (measured: 32-bit '
            'full range, minisat/kissat/cadical 300 s, cvc5 bv-as-int 300 s, z3 120 s; 64-bit kissat/cadical 900 s; an induction-step formulation '
            'text(100w+r) == text(w)++pair(r) 120 s on every back end). Stages (i)/(ii) of realToString (binary -> scaled big integer -> digit run: BigInt '
            'multiply/divide, bigIntToString) are not encoded: realToString<Half> was not attempted under CBMC after the integer kernel alone proved out '
            'of reach beyond 7 digits; two defects of stage (i) (sticky flag set on exact values / lost when the fraction is dropped, Default format) were '
            'found by the native model validation, not by the solver. Subnormal doubles, precision > 4 other than the pinned long-padding precisions of (c) (and there only runs of 1-2 digits), precision > 45, runs longer than NDIG.',
 'assumptions': ['FixedStream stand-in for the stream template parameter (operator+= overload set narrowed to the real StringStream one)',
                 'call-site model of realToString -> formatStringNumber* (C10_fmt.cpp header comment), derived by reading Digit.hpp:752-855 and validated natively',
                 'bytes beyond the stream length are arbitrary but fixed (symbolic stale content)'],
}
INT_TYPES = {   # tag: (C type, max digits)
 'u8': ('unsigned char', 3), 'u16': ('unsigned short', 5), 'u32': ('unsigned int', 10), 'u64': ('unsigned long long', 20),
 'i8': ('signed char', 3), 'i16': ('short', 5), 'i32': ('int', 10), 'i64': ('long long', 20),
}
CHARS = ('char', 'char16_t', 'char32_t')
def int_queries(tier, WIN=99999):
    qs = []
    for tag, (ty, md) in INT_TYPES.items():
        wide = tag[1:] in ('32', '64')
        signed = tag[0] == 'i'
        pairs = md // 2 + 1
        for ch in CHARS:
            b = {'IntToString': pairs + 1, 'ref_parse': pairs + 1, 'Write': md + 2}
            ents = ['h_n2s', 'h_n2s_rev'] + ([] if signed else ['h_i2s', 'h_i2s_rev'])
            if not wide:
                for e in ents:
                    qs.append(Query('int/%s/%s/%s' % (e[2:], tag, ch), 'C10_int.cpp', e, {'NUM': ty, 'CHAR': ch}, bounds=b, timeout=300, mem_gb=8))
            else:
                if not signed:
                    qs.append(Query('int/base/%s/%s' % (tag, ch), 'C10_int.cpp', 'h_base', {'NUM': ty, 'CHAR': ch}, bounds=b, timeout=300, mem_gb=8))
                for e in ents:
                    qs.append(Query('int/%s/%s/%s/edge' % (e[2:], tag, ch), 'C10_int.cpp', e, {'NUM': ty, 'CHAR': ch, 'EDGE': 1}, bounds=b, timeout=300, mem_gb=8))
                    nd = len(str(WIN))
                    bw = {'IntToString': nd // 2 + 1, 'ref_parse': nd // 2 + 1, 'Write': nd + 1}
                    qs.append(Query('int/%s/%s/%s/win' % (e[2:], tag, ch), 'C10_int.cpp', e, {'NUM': ty, 'CHAR': ch, 'MAXV': WIN}, bounds=bw, timeout=600, mem_gb=8))
    return qs
import os
PRIV = ['-Dprivate=public', '-Dprotected=public']
MANUAL_KF = bool(os.environ.get('VF_KF_MANUAL'))
def ko(only):
    return None if MANUAL_KF else only
def kf(defs, excl=(), only=None):
    """until the ids are listed in known_findings.json the defines can be forced with VF_KF_MANUAL=1 (testing only)"""
    d = dict(defs)
    if MANUAL_KF:
        skip = os.environ.get('VF_KF_SKIP', '').split(',')      # ids to treat as fixed (validating a proposed fix)
        for k in excl:
            if k not in skip: d['KF_EXCL_' + k.replace('-', '_')] = 1
        if only: d['KF_ONLY_' + only.replace('-', '_')] = 1
    return d
FMT_KF = ('C10-prec0-dot', 'C10-trim-integer-zeros', 'C10-tie-leading-zeros', 'C10-prec0-round-to-one', 'C10-round-reads-past-end')
def fmt_bounds(n):
    m = n + 8
    return {'draw': n + 1, 'fill': 25, 'ref_round|ref_text': m, 'h_fixed': 7, 'formatStringNumberFixed|roundStringNumber': m, 'Write': m, 'Reverse': m, 'InsertAt': m,
            'insertZerosLarge': 2}
def fmt_queries(tier):
    qs = []
    NMAX = 5 if tier == 'quick' else 8
    for ch in ('char',):
        for fixed in (1, 0):
            for mode in (0, 1, 2):
                for n in range(1, NMAX + 1):
                    if mode == 1 and n < 2: continue
                    if mode == 2 and n > 7: continue      # the model has no instance: NDIG <= precision + 3
                    b = fmt_bounds(n)
                    ex = list(FMT_KF)
                    qs.append(Query('fmt/%s/%s/mode%d/n%d' % ('fixed' if fixed else 'semifixed', ch, mode, n), 'C10_fmt.cpp', 'h_fixed',
                                    kf({'NDIG': n, 'MODE': mode, 'FIXED': fixed, 'CHAR': ch}, ex), bounds=b, cflags=PRIV, kf_excl=ex, timeout=600, mem_gb=8))
    # long zero padding (Fixed format, precision >= 20: insertZerosLarge writes the 20-unit zero block more than once): precision pinned
    # per query (a constant, so the padding lengths fold), run of 1-2 digits, integer-valued V / one fraction digit / V < 1
    for prec in ((20, 21, 22) if tier == 'quick' else tuple(range(17, 46))):
        for mode, n in ((0, 1), (0, 2), (1, 2), (2, 1)):
            m = n + prec + 8
            b = {'draw': n + 1, 'fill': 73, 'ref_round|ref_text': m, 'h_fixed': prec + 4, 'formatStringNumberFixed|roundStringNumber': m, 'Write': 22, 'Reverse': m,
                 'InsertAt': m, 'insertZerosLarge': 4}
            ex = list(FMT_KF)
            qs.append(Query('fmt/pad/p%d/mode%d/n%d' % (prec, mode, n), 'C10_fmt.cpp', 'h_fixed',
                            kf({'NDIG': n, 'MODE': mode, 'FIXED': 1, 'CHAR': 'char', 'PMIN': prec, 'PMAX': prec, 'CAPX': 72}, ex), bounds=b, cflags=PRIV, kf_excl=ex,
                            timeout=600, mem_gb=8))
    DEF_KF = ('C10-default-prec0', 'C10-trim-integer-zeros', 'C10-default-sticky-lost')
    for mode in (0, 1, 2):
        for n in range(1, NMAX + 1):
            if mode == 1 and n < 2: continue
            if n > (7 if mode == 2 else 6): continue      # the model has no instance: NDIG <= precision + 2 (+3 for V < 1)
            b = fmt_bounds(n); b.update({'h_default': n + 12, 'formatStringNumberDefault': n + 8, 'IntToString': 3})
            ex = list(DEF_KF)
            qs.append(Query('fmt/default/char/mode%d/n%d' % (mode, n), 'C10_fmt.cpp', 'h_default', kf({'NDIG': n, 'MODE': mode, 'CHAR': 'char'}, ex),
                            bounds=b, cflags=PRIV, kf_excl=ex, timeout=600, mem_gb=8))
    # the known findings, each on a small instance where it is reachable (expected counterexamples)
    for tag, fixed, mode, n, only in (('prec0-dot', 1, 0, 1, 'C10-prec0-dot'), ('trim-zeros', 1, 1, 4, 'C10-trim-integer-zeros'),
                                      ('trim-zeros-semi', 0, 1, 4, 'C10-trim-integer-zeros'), ('tie-lead', 1, 2, 4, 'C10-tie-leading-zeros'),
                                      ('prec0-one', 0, 2, 2, 'C10-prec0-round-to-one'), ('past-end', 0, 2, 1, 'C10-round-reads-past-end')):
        ex = [k for k in FMT_KF if k != only]
        qs.append(Query('fmt/kf/%s' % tag, 'C10_fmt.cpp', 'h_fixed', kf({'NDIG': n, 'MODE': mode, 'FIXED': fixed, 'CHAR': 'char'}, ex, only),
                        bounds=fmt_bounds(n), cflags=PRIV, kf_excl=ex, kf_only=ko(only), timeout=600, mem_gb=8))
    for tag, mode, n, only in (('default-prec0', 0, 2, 'C10-default-prec0'), ('default-sticky-lost', 1, 3, 'C10-default-sticky-lost'),
                               ('default-trim-zeros', 1, 3, 'C10-trim-integer-zeros')):
        ex = [k for k in DEF_KF if k != only]
        b = fmt_bounds(n); b.update({'h_default': n + 12, 'formatStringNumberDefault': n + 8, 'IntToString': 3})
        qs.append(Query('fmt/kf/%s' % tag, 'C10_fmt.cpp', 'h_default', kf({'NDIG': n, 'MODE': mode, 'CHAR': 'char'}, ex, only),
                        bounds=b, cflags=PRIV, kf_excl=ex, kf_only=ko(only), timeout=600, mem_gb=8))
    return qs
def special_queries(tier):
    qs = []
    for ch in ('char', 'char16_t', 'char32_t'):
        for flt in (0, 1):
            ex = ['C10-prec0-dot']
            qs.append(Query('special/%s/%s' % ('float' if flt else 'double', ch), 'C10_special.cpp', 'h_special', kf({'CHAR': ch, 'FLT': flt}, ex),
                            bounds={'Write': 6, 'insertZerosLarge': 2, 'h_special': 6}, default_unwind=2, kf_excl=ex, timeout=600, mem_gb=8))
    return qs
def queries(tier):
    import os
    return int_queries(tier, int(os.environ.get('C10_WIN', '99999' if tier == 'quick' else '9999999'))) + fmt_queries(tier) + special_queries(tier)

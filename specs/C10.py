from engine import Query
META = {
 'functions': [],
 'bounds': '',
 'outside': '',
 'assumptions': [],
}
INT_TYPES = {   # tag: (C type, max digits)
 'u8': ('unsigned char', 3), 'u16': ('unsigned short', 5), 'u32': ('unsigned int', 10), 'u64': ('unsigned long long', 20),
 'i8': ('signed char', 3), 'i16': ('short', 5), 'i32': ('int', 10), 'i64': ('long long', 20),
}
def int_queries(tier):
    qs = []
    for tag, (ty, md) in INT_TYPES.items():
        big = tag.endswith('64')
        if big and tier == 'quick': continue
        pairs = md // 2 + 1
        for ch in ('char', 'char16_t', 'char32_t'):
            b = {'IntToString': pairs + 1, 'ref_parse': pairs + 1, 'Write': md + 2}
            ents = ['h_n2s', 'h_n2s_rev'] + ([] if tag[0] == 'i' else ['h_i2s', 'h_i2s_rev'])
            for e in ents:
                qs.append(Query('int/%s/%s/%s' % (e[2:], tag, ch), 'C10_int.cpp', e, {'NUM': ty, 'CHAR': ch}, bounds=b,
                                backend='kissat' if big else 'sat', timeout=1500 if big else 300, mem_gb=8))
    return qs
def queries(tier):
    return int_queries(tier)

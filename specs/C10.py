from engine import Query
META = {
 'functions': [],
 'bounds': '',
 'outside': '',
 'assumptions': [],
}
INT_TYPES = {   # tag: (C type, max digits)
 'u8': ('unsigned char', 3), 'u16': ('unsigned short', 5), 'u32': ('unsigned int', 10), 'u64': ('unsigned long long', 20),
 'i8': ('signed char', 3), 'i16': ('short', 5), 'i32': ('int', 10), 'i64': ('long long', 20),
}
CHARS = ('char', 'char16_t', 'char32_t')
def int_queries(tier, WIN=99999):
    qs = []
    for tag, (ty, md) in INT_TYPES.items():
        wide = tag[1:] in ('32', '64')
        signed = tag[0] == 'i'
        pairs = md // 2 + 1
        for ch in CHARS:
            b = {'IntToString': pairs + 1, 'ref_parse': pairs + 1, 'Write': md + 2}
            ents = ['h_n2s', 'h_n2s_rev'] + ([] if signed else ['h_i2s', 'h_i2s_rev'])
            if not wide:
                for e in ents:
                    qs.append(Query('int/%s/%s/%s' % (e[2:], tag, ch), 'C10_int.cpp', e, {'NUM': ty, 'CHAR': ch}, bounds=b, timeout=300, mem_gb=8))
            else:
                if not signed:
                    qs.append(Query('int/base/%s/%s' % (tag, ch), 'C10_int.cpp', 'h_base', {'NUM': ty, 'CHAR': ch}, bounds=b, timeout=300, mem_gb=8))
                for e in ents:
                    qs.append(Query('int/%s/%s/%s/edge' % (e[2:], tag, ch), 'C10_int.cpp', e, {'NUM': ty, 'CHAR': ch, 'EDGE': 1}, bounds=b, timeout=300, mem_gb=8))
                    nd = len(str(WIN))
                    bw = {'IntToString': nd // 2 + 1, 'ref_parse': nd // 2 + 1, 'Write': nd + 1}
                    qs.append(Query('int/%s/%s/%s/win' % (e[2:], tag, ch), 'C10_int.cpp', e, {'NUM': ty, 'CHAR': ch, 'MAXV': WIN}, bounds=bw, timeout=600, mem_gb=8))
    return qs
import os
PRIV = ['-Dprivate=public', '-Dprotected=public']
MANUAL_KF = bool(os.environ.get('VF_KF_MANUAL'))
def ko(only):
    return None if MANUAL_KF else only
def kf(defs, excl=(), only=None):
    """until the ids are listed in known_findings.json the defines can be forced with VF_KF_MANUAL=1 (testing only)"""
    d = dict(defs)
    if MANUAL_KF:
        for k in excl: d['KF_EXCL_' + k.replace('-', '_')] = 1
        if only: d['KF_ONLY_' + only.replace('-', '_')] = 1
    return d
def fmt_queries(tier):
    qs = []
    NMAX = 5 if tier == 'quick' else 8
    for ch in ('char',):
        for fixed in (1, 0):
            for mode in (0, 1, 2):
                for n in range(1, NMAX + 1):
                    if mode == 1 and n < 2: continue
                    m = n + 8
                    b = {'draw|fill': n + 1, 'ref_round|ref_text': m, 'h_fixed': 7, 'formatStringNumberFixed|roundStringNumber': m, 'Write': m, 'Reverse': m, 'InsertAt': m,
                         'insertZerosLarge': 2}
                    ex = ['C10-prec0-dot', 'C10-trim-integer-zeros', 'C10-tie-leading-zeros', 'C10-prec0-round-to-one']
                    qs.append(Query('fmt/%s/%s/mode%d/n%d' % ('fixed' if fixed else 'semifixed', ch, mode, n), 'C10_fmt.cpp', 'h_fixed',
                                    kf({'NDIG': n, 'MODE': mode, 'FIXED': fixed, 'CHAR': ch}, ex), bounds=b, cflags=PRIV, kf_excl=ex, timeout=600, mem_gb=8))
    return qs
def queries(tier):
    import os
    return int_queries(tier, int(os.environ.get('C10_WIN', '99999' if tier == 'quick' else '9999999'))) + fmt_queries(tier)

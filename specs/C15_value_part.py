import os
from engine import Query
META = {
 'functions': ['Value::operator< > <= >= == (Value.hpp:641-874) on the real Value<char>', 'String::operator< > <= >= == / StringUtils::IsLess/IsGreater/IsEqual as reached from them',
               'Value constructors, operator[](key), operator+=, Remove, SetPointerToValue, ~Value used to build the operands'],
 'bounds': 'h_pair: every ordered pair of operand classes among Undefined, Null, True, False, UIntLong, IntLong, Double (all 64-bit payloads, NaN excluded), '
           'String of exactly 0/1/2 units (all unit values), Array of 0/1/2 members, Object of 0/1/2 members (and 2 members with the first removed), '
           'pointer-to-{UInt, Double, String(1), Array(1), Object(1), Undefined, Null} (quick: 15 classes, thorough: 24): exactly one of < == > holds, '
           '<= and >= are the unions, one-kind operands agree with magnitude / lexicographic order / member count, and the converse laws a<b <=> b>a, a==b <=> b==a. '
           'h_trans: transitivity of < > <= >= and == over triples of classes (quick: 6 classes, triples with at most 2 distinct classes; thorough: all 13^3 '
           'triples without a pointer/non-pointer mix plus pointer-only triples). Kinds are concrete per query, payloads symbolic.',
 'outside': 'strings longer than 2 units (the string relation itself is C15 part (a), length <= 5); containers with more than 2 members; content-wise comparison of '
            'containers does not exist in the library (two arrays / objects of equal member count compare equal; an object counts its removed slots) - '
            'the checks state the relation as implemented: ordered by kind rank, then payload; pointer to pointer',
 'assumptions': ['while C15-eq-cross-kind is open, the result of == is taken as false for operands of different kinds (the other four operators are still checked on those pairs)',
                 'while C15-ptr-right-operand is open, the converse laws are skipped for pairs with exactly one pointer operand and transitivity is not queried for triples that mix pointers and non-pointers',
                 'NaN payloads excluded (JSON has none)'],
}
KF_EQ = 'C15-eq-cross-kind'
KF_PTR = 'C15-ptr-right-operand'
MAN = os.environ.get('VF_KF_MANUAL') == '1'
KIND = {'U': 0, 'UI': 5, 'I': 6, 'D': 7, 'T': 8, 'F': 9, 'NUL': 10}
def cls(name):
    """'U' 'NUL' 'T' 'F' 'UI' 'I' 'D' | 'S0'..'S2' | 'A0'..'A2' | 'O0'..'O2' 'O12' | 'P_<class>'"""
    d = {'K': 0, 'LEN': 1, 'N': 1, 'TK': 5}
    ptr = name.startswith('P_')
    h = name[2:] if ptr else name
    if h[0] == 'A' and h[1:].isdigit(): k = 3; d['N'] = int(h[1:])
    elif h[0] == 'O' and h[1:].isdigit(): k = 2; d['N'] = int(h[1:])        # O12: two members, the first removed again
    elif h[0] == 'S' and h[1:].isdigit(): k = 4; d['LEN'] = int(h[1:])
    else: k = KIND[h]
    if ptr: d['K'] = 1; d['TK'] = k
    else: d['K'] = k
    return d
def lkind(x, y): return x['TK'] if x['K'] == 1 else x['K']
def rkind(x, y): return y['TK'] if (x['K'] == 1 and y['K'] == 1) else y['K']
B = {'Dispose': 4, 'Copy': 50, 'IsEqual|IsLess|IsGreater|ref_.*': 4, 'h_.*|mk.*': 25, 'Hash|Count|find|generateHash|resize|SetToZero': 20}
def Q(entry, names, kf_only=None, **kw):
    d = {}
    cs = [cls(n) for n in names]
    for X, c in zip('ABC', cs):
        for k, v in c.items(): d['%s_%s' % (X, k)] = v
    name = '%s/%s' % (entry[2:], '/'.join(names))
    excl = [KF_EQ, KF_PTR]
    if kf_only:
        excl = [k for k in excl if k != kf_only]; name += '/only:' + kf_only
    if MAN:
        for k in excl: d['KF_EXCL_' + k.replace('-', '_')] = 1
        if kf_only: d['KF_ONLY_' + kf_only.replace('-', '_')] = 1
    return Query(name, 'C15_value.cpp', entry, d, bounds=B, default_unwind=4, default_rec=3, timeout=300, mem_gb=8, leak=True,
                 kf_excl=excl, kf_only=(None if MAN else kf_only), **kw)
def queries(tier):
    q = tier == 'quick'
    qs = []
    allc = ['U', 'NUL', 'T', 'F', 'UI', 'I', 'D', 'S0', 'S1', 'S2', 'A0', 'A1', 'A2', 'O0', 'O1', 'O2', 'O12', 'P_UI', 'P_D', 'P_S1', 'P_A1', 'P_O1', 'P_U', 'P_NUL']
    pc = ['U', 'NUL', 'T', 'F', 'UI', 'I', 'D', 'S1', 'S2', 'A1', 'A2', 'O1', 'O2', 'P_UI', 'P_S1'] if q else allc
    for a in pc:
        for b in pc:
            qs.append(Q('h_pair', [a, b]))
    tc = ['U', 'UI', 'D', 'S1', 'A1', 'O1'] if q else ['U', 'NUL', 'T', 'UI', 'I', 'D', 'S1', 'S2', 'A1', 'A2', 'O1', 'O2', 'P_UI']
    for a in tc:
        for b in tc:
            for c in tc:
                if q and len({a, b, c}) == 3: continue
                np = sum(1 for x in (a, b, c) if x.startswith('P_'))
                if q and np in (1, 2): continue    # mixed pointer / non-pointer triples (thorough): no assertion while C15-ptr-right-operand is open
                qs.append(Q('h_trans', [a, b, c]))
    for t in (['P_UI', 'P_UI', 'P_UI'], ['P_UI', 'P_S1', 'P_UI'], ['P_D', 'P_UI', 'P_A1'], ['P_S1', 'P_S2', 'P_S1']):
        qs.append(Q('h_trans', t))
    # the finding itself: one pair per left kind that outranks the right one
    for a, b in (('NUL', 'UI'), ('D', 'I'), ('S1', 'A1'), ('UI', 'U'), ('T', 'S1'), ('A1', 'O1')):
        qs.append(Q('h_pair', [a, b], kf_only=KF_EQ))
    for a, b in (('UI', 'P_UI'), ('P_UI', 'UI'), ('P_S1', 'S1')):
        qs.append(Q('h_pair', [a, b], kf_only=KF_PTR))
    qs.append(Q('h_trans', ['UI', 'P_UI', 'UI'], kf_only=KF_PTR))
    return qs

import os
from engine import Query
META = {}
KF_EQ = 'C15-eq-cross-kind'
KF_PTR = 'C15-ptr-right-operand'
MAN = os.environ.get('VF_KF_MANUAL') == '1'
KIND = {'U': 0, 'UI': 5, 'I': 6, 'D': 7, 'T': 8, 'F': 9, 'NUL': 10}
def cls(name):
    """'U' 'NUL' 'T' 'F' 'UI' 'I' 'D' | 'S0'..'S2' | 'A0'..'A2' | 'O0'..'O2' 'O12' | 'P_<class>'"""
    d = {'K': 0, 'LEN': 1, 'N': 1, 'TK': 5}
    ptr = name.startswith('P_')
    h = name[2:] if ptr else name
    if h[0] == 'A' and h[1:].isdigit(): k = 3; d['N'] = int(h[1:])
    elif h[0] == 'O' and h[1:].isdigit(): k = 2; d['N'] = int(h[1:])        # O12: two members, the first removed again
    elif h[0] == 'S' and h[1:].isdigit(): k = 4; d['LEN'] = int(h[1:])
    else: k = KIND[h]
    if ptr: d['K'] = 1; d['TK'] = k
    else: d['K'] = k
    return d
def lkind(x, y): return x['TK'] if x['K'] == 1 else x['K']
def rkind(x, y): return y['TK'] if (x['K'] == 1 and y['K'] == 1) else y['K']
B = {'Dispose': 4, 'Copy': 50, 'IsEqual|IsLess|IsGreater|ref_.*': 4, 'h_.*|mk.*': 25, 'Hash|Count|find|generateHash|resize|SetToZero': 20}
def Q(entry, names, kf_only=None, **kw):
    d = {}
    cs = [cls(n) for n in names]
    for X, c in zip('ABC', cs):
        for k, v in c.items(): d['%s_%s' % (X, k)] = v
    name = '%s/%s' % (entry[2:], '/'.join(names))
    excl = [KF_EQ, KF_PTR]
    if kf_only:
        excl = [k for k in excl if k != kf_only]; name += '/only:' + kf_only
    if MAN:
        for k in excl: d['KF_EXCL_' + k.replace('-', '_')] = 1
        if kf_only: d['KF_ONLY_' + kf_only.replace('-', '_')] = 1
    return Query(name, 'C15_value.cpp', entry, d, bounds=B, default_unwind=4, default_rec=3, timeout=300, mem_gb=8, leak=True,
                 kf_excl=excl, kf_only=(None if MAN else kf_only), **kw)
def queries(tier):
    q = tier == 'quick'
    qs = []
    allc = ['U', 'NUL', 'T', 'F', 'UI', 'I', 'D', 'S0', 'S1', 'S2', 'A0', 'A1', 'A2', 'O0', 'O1', 'O2', 'O12', 'P_UI', 'P_D', 'P_S1', 'P_A1', 'P_O1', 'P_U', 'P_NUL']
    pc = ['U', 'NUL', 'T', 'F', 'UI', 'I', 'D', 'S1', 'S2', 'A1', 'A2', 'O1', 'O2', 'P_UI', 'P_S1'] if q else allc
    for a in pc:
        for b in pc:
            qs.append(Q('h_pair', [a, b]))
    tc = ['U', 'UI', 'D', 'S1', 'A1', 'O1'] if q else ['U', 'NUL', 'T', 'UI', 'I', 'D', 'S1', 'S2', 'A1', 'A2', 'O1', 'O2', 'P_UI']
    for a in tc:
        for b in tc:
            for c in tc:
                if q and len({a, b, c}) == 3: continue
                np = sum(1 for x in (a, b, c) if x.startswith('P_'))
                if np in (1, 2): continue          # mixed pointer / non-pointer triples: finding C15-ptr-right-operand (below)
                qs.append(Q('h_trans', [a, b, c]))
    for t in (['P_UI', 'P_UI', 'P_UI'], ['P_UI', 'P_S1', 'P_UI'], ['P_D', 'P_UI', 'P_A1'], ['P_S1', 'P_S2', 'P_S1']):
        qs.append(Q('h_trans', t))
    # the finding itself: one pair per left kind that outranks the right one
    for a, b in (('NUL', 'UI'), ('D', 'I'), ('S1', 'A1'), ('UI', 'U'), ('T', 'S1'), ('A1', 'O1')):
        qs.append(Q('h_pair', [a, b], kf_only=KF_EQ))
    for a, b in (('UI', 'P_UI'), ('P_UI', 'UI'), ('P_S1', 'S1')):
        qs.append(Q('h_pair', [a, b], kf_only=KF_PTR))
    qs.append(Q('h_trans', ['UI', 'P_UI', 'UI'], kf_only=KF_PTR))
    return qs

from engine import Query
META = {
 'functions': ['JSON::JSONParser::Parse/parseValue/parseObject/parseArray (JSON.hpp:61-289)', 'JSONUtils::UnEscape (JSONUtils.hpp:79-196)',
               'Digit::stringToNumber/parseExponent/HexStringToNumber (Digit.hpp:142-540,675-723)', 'StringUtils::TrimLeft', 'Unicode::ToUTF'],
 'bounds': 'modular (assume-guarantee) proof: each parser function alone over an exact-size fully symbolic buffer of every length L <= N '
           '(N = 5 quick, 8 thorough) from an arbitrary cursor, callees under contract; by induction on call depth this covers every nesting depth '
           'for buffers up to N; char / char16_t / char32_t',
 'outside': 'buffers longer than N except the long-numeral windows (a lone 19/20/21-digit integer numeral at the 2^63/2^64 boundaries, optionally signed or followed by ./e/E and one digit, ending exactly at the end of the buffer); stack consumption (the 512-levels clause is a resource property of the compiled binary, not addressed); '
            'nesting depth >= 2^32-256 (cursor wrap); SIMD builds differ only in Memory::Copy/SetToZero (C14)',
 'assumptions': ['shape-recording Value/Array/HArray/String stand-ins (no heap) for the cursor harnesses; every String construction reads an arbitrary unit of its slice',
                 'FixedStream stand-in for the scratch stream', 'big-integer power-of-ten kernels havoc their output word in the number-scanner query (they never touch the buffer)'],
}
MANG = {'char': 'c', 'char16_t': 'Ds', 'char32_t': 'Di'}
import os as _os, re as _re, importlib.util as _ilu
def _load(n):
    sp = _ilu.spec_from_file_location('spec_' + n, _os.path.join(_os.path.dirname(_os.path.abspath(__file__)), n + '.py')); m = _ilu.module_from_spec(sp); sp.loader.exec_module(m); return m
def _powp():
    # powerOfPositiveTen returns bool since the out-of-range fix; the mangled name (and the stub to use) follows the header actually under test
    try: txt = open(_os.path.join(_os.environ.get('VERIF_REPO', '/repo'), 'Include', 'Digit.hpp')).read()
    except Exception: txt = ''
    if _re.search(r'static\s+bool\s+powerOfPositiveTen', txt): return ('_ZN6Qentem5Digit18powerOfPositiveTenIyEEbRT_j', 'stub_pow_b')
    return ('_ZN6Qentem5Digit18powerOfPositiveTenIyEEvRT_j', 'stub_pow')
POWP = _powp()
def names(ch):
    m = MANG[ch]
    fs = '11FixedStreamI%sLj16EE' % m
    return {
        'parseValue': '_ZN6Qentem4JSON10JSONParserI%s%sE10parseValueERS3_PK%sRjj' % (m, fs, m),
        'parseArray': '_ZN6Qentem4JSON10JSONParserI%s%sE10parseArrayERS3_PK%sRjj' % (m, fs, m),
        'parseObject': '_ZN6Qentem4JSON10JSONParserI%s%sE11parseObjectERS3_PK%sRjj' % (m, fs, m),
        'UnEscape': '_ZN6Qentem9JSONUtils8UnEscapeI%s%sEEjPKT_jRT0_' % (m, fs),
        'stringToNumber': '_ZN6Qentem5Digit14stringToNumberI%sEENS_11QNumberTypeERNS_9QNumber64EPKT_Rjj' % m,
        'powN': '_ZN6Qentem5Digit18powerOfNegativeTenIyEEvRT_j', 'powP': POWP[0],
    }
def queries(tier):
    N = 5 if tier == 'quick' else 8
    chars = ('char', 'char16_t', 'char32_t')
    qs = []
    for ch in chars:
        nm = names(ch)
        for L in range(1, N + 1):
            if ch != 'char' and tier == 'quick' and L not in (1, 2, N): continue
            b = {'TrimLeft|parseArray|parseObject|UnEscape|Write|stringToNumber|parseExponent|vf_buf.*': L + 1, 'HexStringToNumber': 5,
                 'parseValue': 6, 'Insert': 4, 'Array|HArray|Value|ShapeChild|any_value|stub_.*': 4}
            d = {'L': L, 'CHAR': ch}
            cf = ['-Dprotected=public']
            LIFT = {'h_top': 'lift_top', 'h_value': 'lift_value', 'h_array': 'lift_array', 'h_object': 'lift_object', 'h_unescape': 'lift_string', 'h_number': 'lift_value'}
            def Q(entry, stubs):
                qs.append(Query('%s/%s/L%d' % (entry, ch, L), 'C05_json.cpp', entry, d, bounds=b, stubs=stubs, cflags=cf, timeout=600,
                                replay=('C05_lift.cpp', LIFT[entry])))
            Q('h_top', {nm['parseValue']: 'stub_parseValue'})
            Q('h_value', {nm['parseObject']: 'stub_container', nm['parseArray']: 'stub_container', nm['UnEscape']: 'stub_unescape', nm['stringToNumber']: 'stub_strtonum'})
            Q('h_array', {nm['parseValue']: 'stub_parseValue'})
            Q('h_object', {nm['parseValue']: 'stub_parseValue', nm['UnEscape']: 'stub_unescape'})
            Q('h_unescape', {})
            Q('h_number', {nm['powN']: 'stub_pow', nm['powP']: POWP[1]})
        if ch == 'char':
            # steering twins (see C07): callee results restricted to real tokens (one digit / the key k") so that a counterexample lifts to a real document
            for L in ((5,) if tier == 'quick' else (4, 5, 6, 7)):
                b = {'TrimLeft|parseArray|parseObject|UnEscape|Write|stringToNumber|parseExponent|vf_buf.*': L + 1, 'HexStringToNumber': 5,
                     'parseValue': 6, 'Insert': 4, 'Array|HArray|Value|ShapeChild|any_value|stub_.*': 4}
                d = {'L': L, 'CHAR': ch, 'STEER': 1}
                for entry, stubs, lift in (('h_top', {nm['parseValue']: 'stub_parseValue'}, 'lift_top'), ('h_array', {nm['parseValue']: 'stub_parseValue'}, 'lift_array'),
                                           ('h_object', {nm['parseValue']: 'stub_parseValue', nm['UnEscape']: 'stub_unescape'}, 'lift_object')):
                    qs.append(Query('%s/%s/L%d/steer' % (entry, ch, L), 'C05_json.cpp', entry, d, bounds=b, stubs=stubs, cflags=['-Dprotected=public'], timeout=600,
                                    replay=('C05_lift.cpp', lift)))
        if tier == 'quick' and ch == 'char':
            # a \uXXXX escape needs 6 units: the un-escaper alone is cheap, so the quick tier reaches the surrogate look-ahead too
            for L in (6, 7):
                b = {'TrimLeft|parseArray|parseObject|UnEscape|Write|stringToNumber|parseExponent|vf_buf.*': L + 1, 'HexStringToNumber': 5,
                     'parseValue': 6, 'Insert': 4, 'Array|HArray|Value|ShapeChild|any_value|stub_.*': 4}
                d = {'L': L, 'CHAR': ch}
                qs.append(Query('h_unescape/%s/L%d' % (ch, L), 'C05_json.cpp', 'h_unescape', d, bounds=b, stubs={}, cflags=['-Dprotected=public'], timeout=600,
                                replay=('C05_lift.cpp', 'lift_string')))
    # numerals far longer than N: the scanner's 19/20/21-digit windows (overflow look-ahead reads the unit AFTER the 20th digit) on exact-size buffers,
    # alone and followed by . / e / E - the C09 window harnesses, whose bounds and pointer checks are this property's subject too
    for q in _load('C09').queries(tier):
        if (q.name.startswith('int/') or q.name.startswith('inttail/')) and not q.kf_only:
            q.name = 'number-window/' + q.name; q.kf_excl = []; q.defs = dict(q.defs); q.defs['SAFETY_ONLY'] = 1; qs.append(q)
    return qs


from engine import Query
META = {
 'functions': ['StringUtils::EscapeHTMLSpecialChars<FixedStream<Char,CAP>,Char> (StringUtils.hpp:205-290)',
               'StringUtils::IsEqual (StringUtils.hpp:151-162)', 'HTMLSpecialChars_T<Char,1|2|4> tables (StringUtils.hpp:292-353)'],
 'bounds': '',
 'outside': '',
 'assumptions': [],
}
def queries(tier):
    N = 6 if tier == 'quick' else 8
    qs = []
    for ch in ('char', 'char16_t', 'char32_t'):
        for L in range(0, N + 1):
            b = {'IsEqual': 6, 'C03_escape_html.cpp:Write': 6 * L + 1, 'Write': max(L + 1, 7), '.*(esc2|CmpStream).*': 6 * L + 1,
                 'EscapeHTMLSpecialChars': L + 1, 'vf_buf.*': L + 1, 'dec_in': L + 1, 'dec_out': 6 * L + 1}
            for e in ('h_safe', 'h_decode', 'h_idem'):
                qs.append(Query('%s/%s/L%d' % (e[2:], ch, L), 'C03_escape_html.cpp', e, {'L': L, 'CHAR': ch}, bounds=b, timeout=300, mem_gb=8, backend=__import__('os').environ.get('C03_BACKEND', 'sat')))
    return qs

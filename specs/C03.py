from engine import Query
import os
META = {
 'functions': ['StringUtils::EscapeHTMLSpecialChars<Stream,Char> (StringUtils.hpp:205-290)',
               'StringUtils::IsEqual (StringUtils.hpp:151-162)', 'HTMLSpecialChars_T<Char,1|2|4> tables (StringUtils.hpp:292-353)'],
 'bounds': '',
 'outside': '',
 'assumptions': [],
}
WIDTHS = ('char', 'char16_t', 'char32_t')
H = 'C03_escape_html.cpp'
def queries(tier):
    quick = tier == 'quick'
    N = 6 if quick else 8          # observer harnesses
    NF = 4 if quick else 5         # FixedStream harnesses with a symbolic output index / reference decoders
    NI = 1 if quick else 2         # direct escape(escape(s)) (second input is 6*L units)
    NX = int(os.environ.get('C03_NX', 8 if quick else 12))   # fixed-point lemma: words of the output language of NX units
    be = os.environ.get('C03_BACKEND', 'sat')
    qs = []
    for ch in WIDTHS:
        for L in range(0, max(N, NX) + 1):
            b = {'IsEqual': 6, 'Write': max(L + 1, 7), 'EscapeHTMLSpecialChars': L + 1, 'vf_buf.*': L + 1, 'dec_in': L + 1, 'dec_out': 6 * L + 1}
            for e in ('h_lang', 'h_dec', 'h_len', 'h_fix'):
                if L > (NX if e == 'h_fix' else N): continue
                qs.append(Query('%s/%s/L%d' % (e[2:], ch, L), H, e, {'L': L, 'CHAR': ch}, bounds=b, timeout=300, mem_gb=8, backend=be))
            if L <= NF and (ch == 'char' or not quick):
                for e in ('h_safe', 'h_decode'):
                    qs.append(Query('%s/%s/L%d' % (e[2:], ch, L), H, e, {'L': L, 'CHAR': ch}, bounds=b, timeout=600, mem_gb=8, backend=be))
            if L <= NI and (ch == 'char' or not quick):
                # first escaper: FixedStream::Write (fixed_stream.hpp) and its own main loop; second escaper (instantiated on the
                # harness-local CmpStream, reached through esc2): slices and main loop run over the 6*L units of the first output
                bi = {'IsEqual': 6, 'fixed_stream.hpp:Write': max(L + 1, 7), 'C03_escape_html.cpp:Write': max(6 * L + 1, 7),
                      '.*(esc2|CmpStream).*': 6 * L + 1, 'EscapeHTMLSpecialChars': L + 1, 'vf_buf.*': L + 1}
                qs.append(Query('idem/%s/L%d' % (ch, L), H, 'h_idem', {'L': L, 'CHAR': ch}, bounds=bi, timeout=600, mem_gb=8, backend=be))
    return qs

from engine import Query
META = {
 'functions': ['StringUtils::EscapeHTMLSpecialChars<Stream,Char> (StringUtils.hpp:205-290), instantiated on FixedStream<Char,6L+1> and on the '
               'harness observer streams LangStream / CountStream / CmpStream (harness/C03_escape_html.cpp)',
               'StringUtils::IsEqual (StringUtils.hpp:151-162)', 'HTMLSpecialChars_T<Char,1|2|4> tables (StringUtils.hpp:292-353)'],
 'bounds': 'every string of exactly L code units, L concrete per query, contents symbolic over ALL code-unit values, char / char16_t / char32_t. '
           'Observer harnesses (output language = no < > " \' anywhere and every & starts one of the five entities; decode(out) == decode(in); '
           'L <= |out| <= 6L; reads inside [str, str+L)): L = 0..6 quick, 0..8 thorough, three widths. '
           'FixedStream harnesses (symbolic output index, reference decoder on both sides, overflow flag false with CAP = 6L+1, one-unit '
           'destination prefix preserved): L = 0..4 quick (char only), 0..5 thorough for char, 0..4 thorough for char16_t / char32_t. '
           'The observer itself is checked against the reference (ent()-based scan and decoder) on EVERY word of L units, L = 0..6 / 0..8 (obs/*). '
           'Idempotence: directly (escape twice, FixedStream then lockstep comparison) for L = 0..1 quick / 0..2 thorough; and as the lemma '
           '"every word t of the output language with |t| = M is a fixed point of the escaper" for M = 0..8 quick / 0..12 thorough, which with the '
           'language clause gives escape(escape(s)) == escape(s) for every s (|s| <= 6/8) whose escaped form has at most M units.',
 'outside': 'strings longer than 6 (quick) / 8 (thorough) units (look-ahead of the escaper is 6 units: one & against the end of the buffer and against one '
            'neighbouring entity is inside, three or more interacting entities are not); idempotence for strings whose escaped form is longer than '
            '8 / 12 units; the symbolic-index FixedStream formulation beyond L = 4 / 5; wchar_t instantiations; QENTEM_AUTO_ESCAPE_HTML=0; '
            'dec/*/L8 needs mem_gb=12 (minisat exhausts 8 GB); '
            'the routing clauses of C03 ({var:} / {raw:} / {svar:} reach the escaper or not) are a separate part of C03.',
 'assumptions': ['FixedStream stand-in for the StringStream_T template parameter (group A harnesses)',
                 'observer streams (group B): the clauses are stated on the sequence of units handed to Stream::Write / operator+=; the escaper '
                 'never reads the stream back, so any appending stream holds exactly that sequence after whatever it held before',
                 'decode = one left-to-right pass that replaces exactly the five entities &amp; &lt; &gt; &quot; &apos; (case-sensitive, with semicolon)'],
}
WIDTHS = ('char', 'char16_t', 'char32_t')
H = 'C03_escape_html.cpp'
def queries(tier):
    quick = tier == 'quick'
    N = 6 if quick else 8          # observer harnesses
    NF = 4 if quick else 5         # FixedStream harnesses with a symbolic output index / reference decoders
    NI = 1 if quick else 2         # direct escape(escape(s)) (second input is 6*L units)
    NX = 8 if quick else 12        # fixed-point lemma: words of the output language of NX units
    qs = []
    for ch in WIDTHS:
        for L in range(0, max(N, NX) + 1):
            b = {'IsEqual': 6, 'Write': max(L + 1, 7), 'EscapeHTMLSpecialChars': L + 1, 'vf_buf.*': L + 1, 'dec_in|h_obs': L + 1, 'dec_out': 6 * L + 1}
            for e in ('h_lang', 'h_dec', 'h_len', 'h_fix', 'h_obs'):
                if L > (NX if e == 'h_fix' else N): continue
                big = (e == 'h_dec' and L >= 8)     # minisat runs out of 8 GB on this one
                qs.append(Query('%s/%s/L%d' % (e[2:], ch, L), H, e, {'L': L, 'CHAR': ch}, bounds=b, timeout=900 if big else 400,
                                mem_gb=12 if big else 8))
            if L <= (NF if ch == 'char' else 4) and (ch == 'char' or not quick):   # wider units at L = 5: > 600 s, dropped
                for e in ('h_safe', 'h_decode'):
                    qs.append(Query('%s/%s/L%d' % (e[2:], ch, L), H, e, {'L': L, 'CHAR': ch}, bounds=b, timeout=600, mem_gb=8))
            if L <= NI and (ch == 'char' or not quick):
                # first escaper: FixedStream::Write (fixed_stream.hpp) and its own main loop; second escaper (instantiated on the
                # harness-local CmpStream, reached through esc2): slices and main loop run over the 6*L units of the first output
                bi = {'IsEqual': 6, 'fixed_stream.hpp:Write': max(L + 1, 7), 'C03_escape_html.cpp:Write': max(6 * L + 1, 7),
                      '.*(esc2|CmpStream).*': 6 * L + 1, 'EscapeHTMLSpecialChars': L + 1, 'vf_buf.*': L + 1}
                qs.append(Query('idem/%s/L%d' % (ch, L), H, 'h_idem', {'L': L, 'CHAR': ch}, bounds=bi, timeout=600, mem_gb=8))
    return qs


# ---- routing clauses: every printing path of the REAL renderer goes through the escaper (C02 render family, real Value, symbolic leaf strings) ----
import importlib.util as _ilu, os as _os, copy as _copy, json as _json
_sp = _ilu.spec_from_file_location('spec_C02_for_C03', _os.path.join(_os.path.dirname(_os.path.abspath(__file__)), 'C02.py')); _c02 = _ilu.module_from_spec(_sp); _sp.loader.exec_module(_c02)
_string_queries = queries
META['functions'] = META['functions'] + ['routing: Template::Render with the real Value<char> on the C02 template family: {var:} value, {raw:} value, unresolved-tag echo, loop value, loop KEY, index path, super-variable phrase and sub-tags']
META['bounds'] += (' || routing: concrete templates x concrete tree shapes, symbolic 2-unit leaf strings over every code unit: the rendered text equals the expansion in which every {var:} path is the ESCAPED leaf and every '
                   '{raw:} path the raw leaf (so {var:} output contains no raw special), plus the same templates compiled with QENTEM_AUTO_ESCAPE_HTML=0 where {var:} must equal {raw:}')
def queries(tier):
    qs = _string_queries(tier)
    route = ('var', 'var_raw', 'var_missing', 'var_unprintable', 'loop_array', 'loop_obj', 'loop_key', 'index_path', 'svar', 'inline_if')
    for q in _c02.queries('quick'):
        nm = q.name.split('/')[1]
        if q.name.startswith('render/') and nm in route:
            q2 = _copy.copy(q); q2.name = 'routing/' + nm; qs.append(q2)
    # auto-escape configured off: {var:} behaves like {raw:}
    for nm, tpl, val, exp in (('var_raw', 'x{var:a}y{raw:b}z', 0, 'L("x"); R(0); L("y"); R(1); L("z")'), ('loop_array', '<loop value="v">[{var:v}]</loop>', 3, 'L("["); R(0); L("]["); R(1); L("]")')):
        qs.append(Query('routing-off/%s' % nm, 'C02_render.cpp', 'h_render', {'TPL': _json.dumps(tpl), 'VAL': val, 'EXPECT': exp}, bounds=_c02.B(len(tpl)), default_unwind=5, default_rec=3,
                        rec_bounds={'~Value': 2, 'render|evaluate|parseExpressions': 4}, timeout=600, mem_gb=14, cflags=['-DQENTEM_AUTO_ESCAPE_HTML=0']))
    return qs

from engine import Query
META = {
 'functions': ['Finder::Next (Finder.hpp:45-107) with Tags::List word tables', 'TemplateCore::parseIfCase / parseLoopAttributes / checkLoopVariable (Template.hpp:848-1018)'],
 'bounds': 'each scanner alone over an exact-size fully symbolic buffer of every length L <= N (N = 6 quick, 9 thorough; loop attributes up to 12/16) with symbolic cursors under the caller contract; char / char16_t / char32_t',
 'outside': 'the scanner DRIVER TemplateCore::parse and the renderer over symbolic template text: out of reach (one symbolic template byte: no verdict in 300 s; symbolic truncation length: no verdict in 300 s); '
            'buffers longer than N; SIMD builds differ only in Memory::Copy/SetToZero (C14)',
 'assumptions': ['caller contracts: parseIfCase is called with end_offset == length; parseLoopAttributes with content[end_offset] == ">"; checkLoopVariable with a variable slice followed by "}" and a loop value name free of "}"'],
}
def queries(tier):
    qs = []
    N = 6 if tier == 'quick' else 9
    for ch in ('char', 'char16_t', 'char32_t'):
        for L in range(1, N + 1):
            if ch != 'char' and L not in (N - 1,): continue
            b = {'Next': L + 1, 'vf_buf.*': L + 1, 'GetFirstCharID|GetGroupedByFirstCount|GetWordLength|GetWord|GetGroupedByFirstChar': 12}
            qs.append(Query('finder/%s/L%d' % (ch, L), 'C01_leaf.cpp', 'h_finder', {'L': L, 'CHAR': ch}, bounds=b, default_unwind=12, cflags=['-Dprotected=public'], timeout=600))
            b2 = {'parseIfCase|vf_buf.*': L + 2, 'IsEqual': 6}
            qs.append(Query('if_case/%s/L%d' % (ch, L), 'C01_leaf.cpp', 'h_if_case', {'L': L, 'CHAR': ch}, bounds=b2, cflags=['-Dprotected=public'], timeout=600))
        for L in ((6,) if ch != 'char' else ((8,) if tier == 'quick' else (6, 8, 10, 12))):
            b3 = {'parseLoopAttributes|vf_buf.*': L + 2, 'IsEqual': 7, 'checkLoopVariable': 3}
            qs.append(Query('loop_attrs/%s/L%d' % (ch, L), 'C01_leaf.cpp', 'h_loop_attrs', {'L': L, 'CHAR': ch}, bounds=b3, cflags=['-Dprotected=public'], timeout=900))
        for L in ((6,) if tier == 'quick' else (4, 6, 8)):
            b4 = {'IsEqual|vf_buf.*|h_check_loop_var': L + 2, 'checkLoopVariable': 3}
            qs.append(Query('check_loop_var/%s/L%d' % (ch, L), 'C01_leaf.cpp', 'h_check_loop_var', {'L': L, 'CHAR': ch}, bounds=b4, cflags=['-Dprotected=public'], timeout=600))
    return qs

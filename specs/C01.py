from engine import Query
META = {
 'functions': ['Finder::Next (Finder.hpp:45-107) with Tags::List word tables', 'TemplateCore::parseIfCase / parseLoopAttributes / checkLoopVariable (Template.hpp:848-1018)'],
 'bounds': 'each scanner alone over an exact-size fully symbolic buffer of every length L <= N (N = 6 quick, 9 thorough; loop attributes up to 12/16) with symbolic cursors under the caller contract; char / char16_t / char32_t',
 'outside': 'the scanner DRIVER TemplateCore::parse and the renderer over symbolic template text: out of reach (one symbolic template byte: no verdict in 300 s; symbolic truncation length: no verdict in 300 s); '
            'buffers longer than N; SIMD builds differ only in Memory::Copy/SetToZero (C14)',
 'assumptions': ['caller contracts: parseIfCase is called with end_offset == length; parseLoopAttributes with content[end_offset] == ">"; checkLoopVariable with a variable slice followed by "}" and a loop value name free of "}"'],
}
def queries(tier):
    qs = []
    N = 6 if tier == 'quick' else 9
    for ch in ('char', 'char16_t', 'char32_t'):
        for L in range(1, N + 1):
            if ch != 'char' and L not in (N - 1,): continue
            b = {'Next': L + 1, 'vf_buf.*': L + 1, 'GetFirstCharID|GetGroupedByFirstCount|GetWordLength|GetWord|GetGroupedByFirstChar': 12}
            qs.append(Query('finder/%s/L%d' % (ch, L), 'C01_leaf.cpp', 'h_finder', {'L': L, 'CHAR': ch}, bounds=b, default_unwind=12, cflags=['-Dprotected=public'], timeout=600))
            b2 = {'parseIfCase|vf_buf.*': L + 2, 'IsEqual': 6}
            qs.append(Query('if_case/%s/L%d' % (ch, L), 'C01_leaf.cpp', 'h_if_case', {'L': L, 'CHAR': ch}, bounds=b2, cflags=['-Dprotected=public'], timeout=600))
        for L in ((() if tier == 'quick' else (6,)) if ch != 'char' else ((8,) if tier == 'quick' else (6, 8, 10, 12))):
            b3 = {'parseLoopAttributes|vf_buf.*': L + 2, 'IsEqual': 7, 'checkLoopVariable': 3}
            qs.append(Query('loop_attrs/%s/L%d' % (ch, L), 'C01_leaf.cpp', 'h_loop_attrs', {'L': L, 'CHAR': ch}, bounds=b3, cflags=['-Dprotected=public'], timeout=900))
        for L in ((6,) if tier == 'quick' else (4, 6, 8)):
            b4 = {'IsEqual|vf_buf.*|h_check_loop_var': L + 2, 'checkLoopVariable': 3}
            qs.append(Query('check_loop_var/%s/L%d' % (ch, L), 'C01_leaf.cpp', 'h_check_loop_var', {'L': L, 'CHAR': ch}, bounds=b4, cflags=['-Dprotected=public'], timeout=600))
    return qs


# ---- driver family: the REAL TemplateCore::Parse + Render on concrete templates (C02 family) and on their TRUNCATIONS, real Value, symbolic leaf strings ----
import importlib.util as _ilu, os as _os, copy as _copy, json as _json
_sp = _ilu.spec_from_file_location('spec_C02_for_C01', _os.path.join(_os.path.dirname(_os.path.abspath(__file__)), 'C02.py')); _c02 = _ilu.module_from_spec(_sp); _sp.loader.exec_module(_c02)
_leaf_queries = queries
META['functions'] = META['functions'] + ['driver family: Template::Render = TemplateCore::parse + render*/getValue/evaluate (Template.hpp) with the real Value<char>, on exact-size template buffers']
META['bounds'] += (' || driver family: every member of the C02 template family and (quick: every 6th of four templates, thorough: every) truncation point of it (the three members added last are rendered whole only), in an exact-size heap buffer, rendered twice against real value trees with symbolic leaf strings: '
                   'every access inside the buffer / owned memory, no trap, termination within the unwinding bounds; mis-nesting family: every sequence of one opener inside a loop met by one closer (quick, 15) / '
                   'every pair of the 11 structural tokens and every triple that starts with <loop> or <if> (thorough, 363) of {math:1  {svar:p,  {if case="1" true="  <loop value="v">  <if case="1">  </loop>  </if>  <else>  }  {var:v}  "')
META['outside'] = META['outside'].replace('the scanner DRIVER TemplateCore::parse and the renderer over symbolic template text: out of reach', 'the scanner driver and the renderer over SYMBOLIC template text: out of reach (covered only on the listed concrete template family and its truncations)')
MALFORMED = [('if_if_loop', '<if case="1"><if case="1"><loop value="v">{var:v}</loop></if></if>', 3), ('math_else', '{math:1+1<else>}', 0), ('mod_zero', '{math:5%0}', 0), ('div_zero', '{math:5/0}', 0),
             ('unclosed_loop', '<loop value="v">{var:v}', 3), ('else_without_if', 'a<else>b</if>c', 0), ('nested_iif', '{if case="1" true="{if case="1" true="x"}"}', 0),
             # end of input with two and more nested block tags still open (the parser unwinds its stack of open tags innermost first)
             # (well-formed) an array loop after a sorted object loop at the same level: the loop key of the first must not survive into the second
             ('sorted_obj_then_array', '<loop set="g" value="x" sort="ascend">{var:x}:</loop>|<loop set="a" value="x">{var:x},</loop>', 8),
             # an unterminated {math: followed by another tag; </loop> while an {svar: or an <if> opened inside the loop is still open
             ('math_then_math', '{math: 1 {math: 2}', 0), ('math_then_svar', 'a{math:1+{svar:p, {var:a}}', 4), ('loop_svar_endloop', '<loop value="v">{svar:</loop>', 3),
             ('loop_if_endloop', '<loop value="v"><if case="1">x</loop>', 3), ('loop_svar_var_endloop', '<loop value="v">{svar:p, {var:v}</loop>}', 3),
             ('unclosed_if_if', '<if case="1">A<if case="1">B', 0), ('unclosed_loop_loop', '<loop value="v"><loop set="v" value="w">{var:w}', 6),
             ('unclosed_if_loop_misnested', '<if case="1"><loop value="v">x</if>', 3), ('unclosed_if_if_if', '<if case="1"><if case="1"><if case="1">x', 0)]
def queries(tier):
    qs = _leaf_queries(tier)
    step = 6 if tier == 'quick' else 1
    for name, tpl, val, exp in _c02.FAMILY:
        if tier == 'quick' and name not in ('loop_set', 'if_elseif', 'inline_if', 'svar'): continue
        if name in _c02.LATE: continue
        for cut in range(1, len(tpl), step):
            qs.append(Query('driver/cut/%s/%d' % (name, cut), 'C02_render.cpp', 'h_render', {'TPL': _json.dumps(tpl), 'VAL': val, 'EXPECT': exp, 'CUT': cut}, bounds=_c02.B(len(tpl)), default_unwind=5,
                            default_rec=3, rec_bounds={'~Value': 2, 'render|evaluate|parseExpressions': 4}, timeout=600, mem_gb=14))
    for name, tpl, val in MALFORMED:
        qs.append(Query('driver/malformed/%s' % name, 'C02_render.cpp', 'h_render', {'TPL': _json.dumps(tpl), 'VAL': val, 'EXPECT': 'L("")', 'CUT': len(tpl), 'LEAFN': 1}, bounds=_c02.B(len(tpl)), default_unwind=5,
                        default_rec=4, rec_bounds={'~Value': 2, 'render|evaluate|parseExpressions': 5}, timeout=600, mem_gb=14))
    # mis-nesting family: every short sequence of STRUCTURAL tokens (openers, closers, separators) through the un-stubbed driver: each closer must
    # only ever close a tag of its own kind and an opener that never finds its end must degrade to text (safety + purity assertions only)
    for name, tpl in nest_family(tier):
        nb = _c02.B(len(tpl)); nb['EscapeHTMLSpecialChars'] = len(tpl) + 2; nb['Copy'] = 96     # an unresolved tag is echoed through the escaper unit by unit
        qs.append(Query('driver/nest/%s' % name, 'C02_render.cpp', 'h_render', {'TPL': _json.dumps(tpl), 'VAL': 4, 'EXPECT': 'L("")', 'CUT': len(tpl), 'LEAFN': 1}, bounds=nb, default_unwind=5,
                        default_rec=4, rec_bounds={'~Value': 2, 'render|evaluate|parseExpressions': 5}, timeout=600, mem_gb=14))
    return qs
NEST_TOKENS = [('math', '{math:1'), ('svar', '{svar:p,'), ('iif', '{if case="1" true="'), ('loop', '<loop value="v">'), ('if', '<if case="1">'),
               ('eloop', '</loop>'), ('eif', '</if>'), ('else', '<else>'), ('rb', '}'), ('var', '{var:v}'), ('q', '"')]
def nest_family(tier):
    out = []
    T = NEST_TOKENS
    if tier == 'quick':
        # an opener of each kind inside a loop, met by a closer of each kind
        for on, ot in T[:5]:
            for cn, ct in T[5:8]:
                out.append(('loop.%s.%s' % (on, cn), '<loop value="v">' + ot + ct))
        return out
    for an, at in T:
        for bn, bt in T:
            out.append(('%s.%s' % (an, bn), at + bt))
    for pn, pt in (T[3], T[4]):
        for an, at in T:
            for bn, bt in T:
                out.append(('%s.%s.%s' % (pn, an, bn), pt + at + bt))
    return out

from engine import Query
META = {
 'functions': ['Unicode::ToUTF / UnicodeToUTF<.,.,1|2|4> (Unicode.hpp:42-90)', 'Digit::HexStringToNumber (Digit.hpp:142-183)',
               'JSONUtils::UnEscape (JSONUtils.hpp:79-196)'],
 'bounds': 'finite domain covered completely by symbolic variables: every Unicode scalar value (21-bit symbolic, surrogates excluded), every hex-case mask, '
           'optional one-unit plain neighbours on both sides; UTF-8/16/32',
 'outside': 'strings with more than one escape plus two neighbours; the capital \\U spelling (accepted by the implementation, not part of RFC 8259)',
 'assumptions': ['FixedStream stand-in for the stream template parameter'],
}
def queries(tier):
    qs = []
    for ch in ('char', 'char16_t', 'char32_t'):
        b = {'Write': 3, 'HexStringToNumber': 5, 'vf_buf.*': 16, 'UnEscape': 6}
        qs.append(Query('toutf/%s' % ch, 'C20_unicode.cpp', 'h_toutf', {'CHAR': ch}, bounds=b, timeout=120))
        qs.append(Query('hex4/%s' % ch, 'C20_unicode.cpp', 'h_hex4', {'CHAR': ch}, bounds=b))
        for pair in (0, 1):
            for hx in (0, 1):
                for hy in (0, 1):
                    qs.append(Query('unescape/%s/pair%d/x%d/y%d' % (ch, pair, hx, hy), 'C20_unicode.cpp', 'h_unescape',
                                    {'CHAR': ch, 'PAIR': pair, 'HAS_X': hx, 'HAS_Y': hy}, bounds=b))
    return qs

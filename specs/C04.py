import os
from engine import Query
from engine import load_kf
META = {
 'functions': [
  'QExpression::operator+= -= *= /= % ^= &= |= < <= > >= ==, operator>(n), operator!=(n), PowerOf (QExpression.hpp:162-901)',
  'TemplateCore::evaluateExpression, isEqual (Template.hpp:1500-1783) - real code, symbolic kinds and 64-bit payloads',
  'TemplateCore::evaluate (Template.hpp:1406-1438): one frame against the contract of its own recursive call (self_stubs), plus the whole recursion on short lists',
  'TemplateCore::GetExpressionValue, getValue (Template.hpp:1351-1498)',
  'TemplateCore::getOperation, isExpression, parseExpressions, parseValue (Template.hpp:1785-2065); StringUtils::TrimLeft/TrimRight',
 ],
 'bounds': '(a) kernels: every kind pair (Natural/Integer/Real) with arbitrary 64-bit payloads (reals finite) for + - * / % & | < <= > >= == != && ||, against __int128 / IEEE-double '
           'references, results restricted to the 64-bit kind the promotion rule gives; ^: integral bases of 4 bits with every exponent |e| <= 6 (quick) / 15 (thorough) and 64-bit bases with '
           '|e| <= 3, non-integral real operands; == / != dispatch over literal numbers, literal text (<= 2 / 3 units) and variables of every kind (stand-in value).  '
           '(b) precedence: lists of K <= 5 (quick) / 7 (thorough) items, every operator symbolic, every starting rank - modular induction over the list length; whole recursion K <= 2 / 3; '
           'documented levels vs rank table as exact values K <= 4 / 5.  (c) text: fully symbolic texts of every length L <= 4 (quick) / 6 (thorough) in exact-size buffers for '
           'getOperation / isExpression / the parseExpressions driver, operand stretches up to 8 / 9 units for parseValue; char (scanners also char16_t, char32_t).',
 'outside': 'longer lists / texts; integer powers with |e| > 15 or 64-bit Natural bases with |e| > 3; 64-bit Integer bases only with exponent 0 and 1 (no back end decides the others; negative bases are covered at 4 bits); '
            'the product is checked as "kind rule + low 64-bit word of the exact product" (no back end proves a 128-vs-64-bit multiplier equivalence); real results are compared bit-exactly '
            'with the IEEE operation on the promoted operands, not with exact rationals; bitwise operators on non-integral reals; 0^0 and 0^-n (engine: 0; open question); '
            'Digit::StringToNumber (C09) and nested lists are contract stubs in (c); Natural % with operands >= 2^63 only through the finding query while that finding is open.',
 'assumptions': [
  'SymValue stand-in for Value_T (q2c/standins/sym_value.hpp): GetValue / GetNumberType / SetNumber / SetCharAndLength / IsString / Length answer from symbolic fields '
  'constrained by sym_value_consistent (what the real Value guarantees); FixedStream for StringStream_T (unused by the expression code)',
  'precedence is proved modularly: evaluate() body with GetExpressionValue, evaluateExpression and its own recursive call replaced by harness functions '
  '(item fetch log, injective tree encoder, contract "consumes up to the first operator of rank <= previous, returns the climbing tree"); induction over the number of items',
  'the rank table rank(op) = QOperation code refines the documented six levels (h_rank); inside a documented level different operators are ranked '
  '(^ over %, / over *, - over +, & over |, < > <= >= != == descending, && over ||) - documented order silent, reported as open question; value-equal for + - and * /',
  'parseExpressions / parseValue are proved against each other through logging contract stubs (mutual recursion), getOperation inside the driver is the real one',
 ],
}
PRIV = ['-Dprivate=public', '-Dprotected=public']
def _fixed(kid):
    e = load_kf().get(kid)
    return bool(e) and e.get('status') == 'fixed'
KN = {1: 'real', 2: 'nat', 3: 'int'}
OPN = {1: 'or', 2: 'and', 3: 'eq', 4: 'ne', 5: 'ge', 6: 'le', 7: 'gt', 8: 'lt', 9: 'bor', 10: 'band', 11: 'add', 12: 'sub', 13: 'mul', 14: 'div', 15: 'rem', 16: 'pow'}
MANUAL_KF = os.environ.get('C04_KF_MANUAL')     # testing aid while the ids are not yet in known_findings.json
def kq(name, entry, defs, kf_excl=(), kf_only=None, cflags=None, **kw):
    defs = dict(defs)
    if os.environ.get('C04_BACKEND'): kw['backend'] = os.environ['C04_BACKEND']     # debugging aid
    if MANUAL_KF:
        for k in kf_excl: defs['KF_EXCL_' + k.replace('-', '_')] = 1
        if kf_only: defs['KF_ONLY_' + kf_only.replace('-', '_')] = 1
        return Query(name, 'C04_kernels.cpp', entry, defs, cflags=cflags or PRIV, mem_gb=8, **kw)
    return Query(name, 'C04_kernels.cpp', entry, defs, cflags=cflags or PRIV, mem_gb=8, kf_excl=kf_excl, kf_only=kf_only, **kw)
INTS = 28            # kind set {Natural, Integer}
KF_NAT = 'C04-natural-cmp'
KF_NATR = 'C04-natural-rem'
REM_BACKEND = 'cvc5'
def kernel_queries(tier):
    qs = []
    # + - * : integer kinds together (SAT), every pair with a real separately (cvc5 floating-point theory)
    for op in (11, 12, 13):
        qs.append(kq('kernel/%s/int' % OPN[op], 'h_arith', {'OPER': op, 'LK': INTS, 'RK': INTS}, timeout=300))
        for lk in (1, 2, 3):
            for rk in (1, 2, 3):
                if lk == 1 or rk == 1:
                    qs.append(kq('kernel/%s/%s-%s' % (OPN[op], KN[lk], KN[rk]), 'h_arith', {'OPER': op, 'LK': lk, 'RK': rk}, backend='cvc5', timeout=300))
    for lk in (1, 2, 3):
        for rk in (1, 2, 3):
            qs.append(kq('kernel/div/%s-%s' % (KN[lk], KN[rk]), 'h_div', {'LK': lk, 'RK': rk}, backend='cvc5', timeout=300))
    # % : the three genuine findings apart, then the rest
    EX = ['C04-rem-zero', 'C04-rem-overflow', KF_NATR]
    SOV = ['--signed-overflow-check']        # 'result of signed mod is not representable': INT64_MIN % -1 traps on x86-64
    for lk in (1, 2, 3):
        for rk in (1, 2, 3):
            qs.append(kq('kernel/rem/%s-%s' % (KN[lk], KN[rk]), 'h_rem', {'LK': lk, 'RK': rk}, kf_excl=EX, backend=REM_BACKEND, extra_cbmc=SOV, timeout=300))
    qs.append(kq('kernel/rem/kf-zero', 'h_rem', {'LK': 0, 'RK': 0}, kf_only='C04-rem-zero', extra_cbmc=SOV, timeout=300))
    qs.append(kq('kernel/rem/kf-overflow', 'h_rem', {'LK': 0, 'RK': 0}, kf_only='C04-rem-overflow', extra_cbmc=SOV, timeout=300))
    qs.append(kq('kernel/rem/kf-natural', 'h_rem', {'LK': 0, 'RK': 0, 'REM_WIDE': 1}, kf_only=KF_NATR, timeout=300))
    if _fixed(KF_NATR):      # once repaired: Natural operands >= 2^63 against the remainder on magnitudes
        for lk, rk in ((2, 2), (2, 3), (3, 2), (2, 1), (1, 2)):
            qs.append(kq('kernel/rem/wide/%s-%s' % (KN[lk], KN[rk]), 'h_rem', {'LK': lk, 'RK': rk, 'REM_WIDE': 1}, backend='cvc5', extra_cbmc=SOV, timeout=600))
    for op in (9, 10):
        qs.append(kq('kernel/%s/int' % OPN[op], 'h_bit', {'OPER': op, 'LK': INTS, 'RK': INTS}, timeout=300))
        for lk in (1, 2, 3):
            for rk in (1, 2, 3):
                if lk == 1 or rk == 1:
                    qs.append(kq('kernel/%s/%s-%s' % (OPN[op], KN[lk], KN[rk]), 'h_bit', {'OPER': op, 'LK': lk, 'RK': rk}, backend='cvc5', timeout=300))
    for op in (1, 2, 3, 4, 5, 6, 7, 8):
        qs.append(kq('kernel/%s/any' % OPN[op], 'h_cmp', {'OPER': op, 'LK': 0, 'RK': 0}, kf_excl=[KF_NAT], timeout=300))
    # ^ : integral base of PB structural bits, concrete integral exponent PE, every kind pair that can hold them
    def PW(e): return {'PowerOf': max(1, abs(e).bit_length()) + 1}     # frames of the square-and-multiply recursion
    KP = 'C04-pow-neg-even-sign'
    emax = 6 if tier == 'quick' else 15
    for e in list(range(-emax, emax + 1)):
        for rk in ((2, 3, 1) if e >= 0 else (3, 1)):
            if tier == 'quick' and rk != 3 and e not in (-2, -1, 0, 1, 2, 5): continue      # exponent kinds only select how |e| is read
            qs.append(kq('kernel/pow/small/e%d/%s' % (e, KN[rk]), 'h_pow', {'LK': 0, 'RK': rk, 'PB': 4, 'PE': e}, kf_excl=[KP], bounds={'ref_pow': abs(e) + 1},
                         rec_bounds=PW(e), backend=('sat' if e >= 0 else 'cvc5'), timeout=300))
    qs.append(kq('kernel/pow/kf-neg-even', 'h_pow', {'LK': 0, 'RK': 3, 'PB': 4, 'PE': -2}, kf_only=KP, bounds={'ref_pow': 3}, rec_bounds=PW(2), backend='cvc5', timeout=300))
    for e in (-3, -2, -1, 0, 1, 2, 3):
        for lk in (2, 3):
            if lk == 3 and e not in (0, 1): continue  # 64-bit Integer bases: |b| is a byte-wise ite on the engine side and a word-wise one in the reference; no back end
                                                      # proves the 64-bit multiplier / divider equivalence behind it (signs are covered by the 4-bit bases)
            qs.append(kq('kernel/pow/wide/%s/e%d' % (KN[lk], e), 'h_pow', {'LK': lk, 'RK': 3, 'PB': 64, 'PE': e}, kf_excl=[KP], bounds={'ref_pow': abs(e) + 1}, rec_bounds=PW(e),
                         backend='cvc5', timeout=300))
    # fractional base / exponent: |x| in (0,1) -> no value (documented); other non-integral reals are truncated today (finding)
    KFr = 'C04-pow-fraction-trunc'
    for lk, rk in ((1, 1), (1, 2), (1, 3), (2, 1), (3, 1)):
        qs.append(kq('kernel/pow/frac/%s-%s' % (KN[lk], KN[rk]), 'h_pow_frac', {'LK': lk, 'RK': rk}, kf_excl=[KFr], rec_bounds={'PowerOf': 3}, backend='cvc5', timeout=300))
    qs.append(kq('kernel/pow/frac/kf-trunc', 'h_pow_frac', {'LK': 1, 'RK': 2}, kf_only=KFr, rec_bounds={'PowerOf': 3}, backend='cvc5', timeout=300))
    # comparisons / equality with a Natural >= 2^63 (compared as a signed word today)
    qs.append(kq('kernel/lt/kf-natural', 'h_cmp', {'OPER': 8, 'LK': 0, 'RK': 0}, kf_only=KF_NAT, timeout=300))
    qs.append(kq('kernel/eq/kf-natural', 'h_cmp', {'OPER': 3, 'LK': 0, 'RK': 0}, kf_only=KF_NAT, timeout=300))
    NTX = 2 if tier == 'quick' else 3
    # == / != over literals (number / text) and variables of every kind
    for op in (3, 4):
        for sl, nl in ((0, 'text'), (1, 'num'), (4, 'var')):
            for sr, nr in ((0, 'text'), (1, 'num'), (4, 'var')):
                if op == 4 and tier == 'quick' and (sl, sr) != (4, 4): continue       # != only flips the bit
                qs.append(kq('kernel/%s/%s-%s' % (OPN[op], nl, nr), 'h_eq_mixed', {'OPER': op, 'NT': NTX, 'SKL': sl, 'SKR': sr}, kf_excl=[KF_NAT],
                             bounds={'h_eq_mixed': NTX + 1, 'vf_buf.*': NTX + 3, 'IsEqual': NTX + 1, 'getValue': 3}, timeout=600))
    return qs
EVX = '_ZNK6Qentem12TemplateCoreIc8SymValueIcE11FixedStreamIcLj8EEE18evaluateExpressionERNS_11QExpressionES7_NS6_10QOperationE'
GEV = '_ZNK6Qentem12TemplateCoreIc8SymValueIcE11FixedStreamIcLj8EEE18GetExpressionValueERNS_11QExpressionEPKS6_NS6_10QOperationE'
EVL = '_ZNK6Qentem12TemplateCoreIc8SymValueIcE11FixedStreamIcLj8EEE8evaluateERNS_11QExpressionERPKS6_NS6_10QOperationE'
def prec_queries(tier):
    qs = []
    def PQ(name, entry, d, stubs, b, rb, **kw):
        qs.append(Query(name, 'C04_prec.cpp', entry, d, bounds=b, rec_bounds=rb, default_rec=2, stubs=stubs, cflags=PRIV, mem_gb=8, timeout=900, replay='none', **kw))
    # whole recursion (no contract) on short lists: cross-check of the modular argument; documented levels with exact arithmetic
    for k in range(1, (2 if tier == 'quick' else 3) + 1):
        d = {'K': k, 'VB': 2}
        # destructors of evaluate()'s locals never own a sub-list: bound 1 (the unwinding assertions prove it)
        b = {'_ZN6Qentem5ArrayINS_11QExpressionEED2Ev': 1, '_ZN6Qentem11QExpressionD2Ev': 1, 'pick_list|build.*|h_.*': k + 1, 'climb_.*': max(k, 2), 'ambiguous': k + 1,
             'evaluate': max(k, 2), 'arith': 5}
        rb = {'evaluate': k, 'climb_.*': k, '~QExpression': 1, '.*Array.*': 1}
        for entry, stub in (('h_tree', 'fn_tree'), ('h_doc', 'fn_arith'), ('h_fail', 'fn_fail')):
            if entry == 'h_fail' and k == 1: continue
            PQ('prec/%s/K%d' % (entry[2:], k), entry, d, {EVX: stub, GEV: 'fn_gev'}, b, rb)
    for k in range(2, (4 if tier == 'quick' else 5) + 1):
        PQ('prec/docfine/K%d' % k, 'h_docfine', {'K': k, 'VB': 2}, {}, {'pick_list|h_.*|yard|ambiguous': k + 1, 'arith': 5}, {})
    # one frame of evaluate() against the contract of its own recursive call (self_stubs): lists of up to KM items, any starting rank
    KM = 5 if tier == 'quick' else 7       # 7 items fill the 64-bit tree code exactly
    KFP = 'C04-prec-return'
    for k in range(1, KM + 1):
        b = {'_ZN6Qentem5ArrayINS_11QExpressionEED2Ev': 1, '_ZN6Qentem11QExpressionD2Ev': 1, 'pick_list|build.*|h_.*': k + 1, 'ref_tree|first_leq|fn_eval_contract|frame_hits_finding': k + 1,
             'evaluate': k + 1}
        rb = {'~QExpression': 1, '.*Array.*': 1}
        st = {EVX: 'fn_tree_f', GEV: 'fn_gev'}; ss = {EVL: 'fn_eval_contract'}
        for nm, extra in (('frame', {}), ('frame-fail', {'WITH_FAILURE': 1})):
            d = {'K': k, 'VB': 2}; d.update(extra)
            if MANUAL_KF: d['KF_EXCL_C04_prec_return'] = 1
            PQ('prec/%s/K%d' % (nm, k), 'h_frame', d, st, b, rb, self_stubs=ss, **({} if MANUAL_KF else {'kf_excl': [KFP]}))
    d = {'K': 4, 'VB': 2}
    b = {'_ZN6Qentem5ArrayINS_11QExpressionEED2Ev': 1, '_ZN6Qentem11QExpressionD2Ev': 1, 'pick_list|build.*|h_.*': 5, 'ref_tree|first_leq|fn_eval_contract|frame_hits_finding': 5, 'evaluate': 5}
    if MANUAL_KF: d['KF_ONLY_C04_prec_return'] = 1
    qs.append(Query('prec/frame/kf-return', 'C04_prec.cpp', 'h_frame', d, bounds=b, rec_bounds={'~QExpression': 1, '.*Array.*': 1}, stubs={EVX: 'fn_tree_f', GEV: 'fn_gev'},
                    self_stubs={EVL: 'fn_eval_contract'}, cflags=PRIV, mem_gb=8, timeout=900, replay=('C04_lift.cpp', 'lift_prec'), **({} if MANUAL_KF else {'kf_only': KFP})))
    PQ('prec/rank', 'h_rank', {'K': 1}, {}, {}, {})
    for t, nm in ((1, 'real'), (2, 'nat'), (3, 'int'), (4, 'text'), (5, 'var'), (6, 'sub')):
        PQ('prec/gev/%s' % nm, 'h_gev', {'K': 1, 'ITYPE': t}, {EVL: 'fn_evaluate'},
           {'getValue': 3, 'vf_buf.*': 2, 'Dispose|~Array|Array|operator\\+=': 3, '_ZN6Qentem11QExpressionD2Ev': 2}, {'~QExpression': 2, '.*Array.*': 2})
    return qs
TCN = '_ZN6Qentem12TemplateCoreIc8SymValueIcE11FixedStreamIcLj8EEE'
PVAL = TCN + '10parseValueERNS_5ArrayINS_11QExpressionEEENS7_10QOperationESA_PKcjjPKNS_4Tags7LoopTagE'
PEXP = TCN + '16parseExpressionsEPKcjjPKNS_4Tags7LoopTagE'
STN = '_ZN6Qentem5Digit14stringToNumberIcEENS_11QNumberTypeERNS_9QNumber64EPKT_Rjj'
KF_OOB = 'C04-getop-oob'
def pq(name, entry, defs, kf_excl=(), kf_only=None, **kw):
    defs = dict(defs)
    if MANUAL_KF:
        for k in kf_excl: defs['KF_EXCL_' + k.replace('-', '_')] = 1
        if kf_only: defs['KF_ONLY_' + kf_only.replace('-', '_')] = 1
        return Query(name, 'C04_parse.cpp', entry, defs, mem_gb=8, **kw)
    return Query(name, 'C04_parse.cpp', entry, defs, mem_gb=8, kf_excl=kf_excl, kf_only=kf_only, **kw)
def parse_queries(tier):
    qs = []
    N = 4 if tier == 'quick' else 6
    for l in range(1, N + 1):
        b = {'vf_buf.*': l + 1, 'getOperation|isExpression|ref_next|ref_binary': l + 1, 'h_driver|parseExpressions': l + 2,
             'Dispose|~Array|Array|Reserve|.*QExpression.*|fn_.*': 1, 'vf_mem.*': 40}
        d = {'L': l}
        qs.append(pq('parse/getop/L%d' % l, 'h_getop', d, kf_excl=[KF_OOB], bounds=b, cflags=PRIV, timeout=600))
        qs.append(pq('parse/isexpr/L%d' % l, 'h_isexpr', d, bounds=b, cflags=PRIV, timeout=600))
        qs.append(pq('parse/driver/L%d' % l, 'h_driver', d, kf_excl=[KF_OOB], bounds=b, cflags=PRIV, stubs={PVAL: 'fn_parse_value'}, replay='none', timeout=900))
    for ch in ('char16_t', 'char32_t'):        # the scanners are width-generic: one length per wider unit
        l = N - 1
        b = {'vf_buf.*': l + 1, 'getOperation|isExpression|ref_next|ref_binary': l + 1}
        qs.append(pq('parse/getop/%s/L%d' % (ch, l), 'h_getop', {'L': l, 'CHAR': ch}, kf_excl=[KF_OOB], bounds=b, cflags=PRIV, timeout=600))
        qs.append(pq('parse/isexpr/%s/L%d' % (ch, l), 'h_isexpr', {'L': l, 'CHAR': ch}, bounds=b, cflags=PRIV, timeout=600))
    qs.append(pq('parse/getop/kf-oob', 'h_getop', {'L': 2}, kf_only=KF_OOB, bounds={'vf_buf.*': 3, 'getOperation|isExpression|ref_next|ref_binary': 3}, cflags=PRIV, timeout=300))
    for l in ([2, 4, 8] if tier == 'quick' else [1, 2, 3, 4, 5, 6, 8, 9]):
        b = {'vf_buf.*': l + 1, 'h_value|TrimLeft|TrimRight|parseValue': l + 1, 'Dispose|~Array|Array|operator\\+=|Insert|.*QExpression.*|fn_.*|Copy': 3, 'vf_mem.*': 40}
        qs.append(pq('parse/value/L%d' % l, 'h_value', {'L': l}, bounds=b, cflags=PRIV + ['-fno-inline'], stubs={PEXP: 'fn_parse_expressions', STN: 'fn_strtonum'},
                     replay='none', rec_bounds={'.*': 3}, timeout=900))
    return qs
def queries(tier):
    return kernel_queries(tier) + prec_queries(tier) + parse_queries(tier)

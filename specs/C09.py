import os
from engine import Query
META = {
 'functions': ['Digit::StringToNumber / stringToNumber (Digit.hpp:204-540)', 'Digit::parseExponent (Digit.hpp:674-723)',
               'call sites of Digit::powerOfPositiveTen / powerOfNegativeTen (contract stubs: arguments recorded, result arbitrary)',
               'Digit::powerOfNegativeTen (Digit.hpp:544-631) un-stubbed with the real BigInt<u64,256> multiply / shift / FindLastBit, on rounding-carry windows'],
 'bounds': 'scan: every numeral of concrete length L <= 6 (quick) / 8 (thorough) over [0-9+-.eE] plus one arbitrary unit (not x/X), 3 unit widths: '
           'rejection, consumed length, integer results, +-0, and the (mantissa, decimal exponent) pair handed to the power kernels (exact rational '
           'equality with the reference), out-of-range numerals (>= 2^1024) rejected or infinite. int: 19/20/21-digit integer numerals with the '
           'leading 14-16 digits pinned to windows around 2^63, 2^64, 10^20-1 and 10^20, trailing 5 digits symbolic, with and without minus sign. '
           'exp: 1e[-]d..d with 9, 10, 11 symbolic exponent digits (leading zeros allowed). kernel: powerOfNegativeTen(n, E) within one unit in the last place of n / 10^E '
           '(exact 128-bit integer oracle) for every n within 2^15 of 2^J * 10^E - the mantissas whose quotient straddles a power of two, where rounding to 53 bits carries into the exponent - '
           'E = 16, J = 1, 10 (quick); E in {1,4,8,12,16,19} x J in {0, 1, mid, max} (thorough).',
 'outside': 'the power kernels outside the listed windows: the positive kernel, decimal exponents above 19 (more than one big-integer multiply), mantissas away from the '
            'power-of-two windows (fully symbolic 64-bit mantissa: no verdict in 900 s with kissat, sat, cvc5 bv-as-int, z3) -- there the value of a Real result is checked only up to '
            'the kernel arguments and the sign bit, numerals longer than L, mantissas longer than 19 digits (window cut), the 0x.. hexadecimal spelling, '
            'fully symbolic 19-21 digit numerals (Horner over 19 symbolic digits: no verdict in 200 s with sat and cvc5 bv-as-int).',
 'assumptions': ['reference grammar = the dialect pinned by Tests/DigitTest.hpp: [+-]?(D+(.D*)? | .D+)([eE][+-]?D+)?, leading zeros / second dot / empty exponent rejected',
                 'rejecting numerals below 10^-324 is tolerated (documented range rejection); everything at or above 2^1024 must be rejected or infinite',
                 'stubbed harness: counterexamples are still replayed natively (assertions that need the stub are skipped when the real kernels run)'],
}
PRIV = ['-Dprivate=public', '-Dprotected=public']
import engine
# powerOfPositiveTen returns void today; the proposed overflow fix makes it return bool (different mangled name, different stub)
_POS_BOOL = 'static bool powerOfPositiveTen' in open(os.path.join(engine.INCLUDE, 'Digit.hpp')).read()
STUBS = {'_ZN6Qentem5Digit18powerOfNegativeTenIyEEvRT_j': 'stub_p10neg'}
if _POS_BOOL: STUBS['_ZN6Qentem5Digit18powerOfPositiveTenIyEEbRT_j'] = 'stub_p10pos_b'
else: STUBS['_ZN6Qentem5Digit18powerOfPositiveTenIyEEvRT_j'] = 'stub_p10pos' 
MANUAL_KF = bool(os.environ.get('VF_KF_MANUAL'))
def ko(only):
    return None if MANUAL_KF else only
def kf(defs, excl=(), only=None):
    """until the ids are listed in known_findings.json the defines can be forced with VF_KF_MANUAL=1 (testing only)"""
    d = dict(defs)
    if MANUAL_KF:
        skip = os.environ.get('VF_KF_SKIP', '').split(',')      # ids to treat as fixed (validating a proposed fix)
        for k in excl:
            if k not in skip: d['KF_EXCL_' + k.replace('-', '_')] = 1
        if only: d['KF_ONLY_' + only.replace('-', '_')] = 1
    return d
def queries(tier):
    N = 6 if tier == 'quick' else 8      # cost grows ~3x per unit: L6 90 s, L7 ~5 min, L8 ~15-25 min (sat); L10 had no verdict in 900 s
    qs = []
    for ch in ('char', 'char16_t', 'char32_t'):
        for L in range(1, N + 1):
            b = {'stringToNumber': L + 1, 'parseExponent': L + 1, 'ref_scan': L + 1, 'h_scan': L + 1, 'vf_buf.*': L + 1}
            ex = ['C09-overflow-finite', 'C09-zero-exponent']
            qs.append(Query('scan/%s/L%d' % (ch, L), 'C09_scan.cpp', 'h_scan', kf({'LEN': L, 'CHAR': ch}, ex), bounds=b, stubs=STUBS,
                            cflags=PRIV, kf_excl=ex, timeout=600 if L <= 6 else 3000, mem_gb=8))
        # known findings inside the scanner window (expected counterexamples)
        qs.append(Query('scan/%s/L5/kf-overflow' % ch, 'C09_scan.cpp', 'h_scan', kf({'LEN': 5, 'CHAR': ch}, ['C09-zero-exponent'], 'C09-overflow-finite'),
                        bounds={'stringToNumber|parseExponent|ref_scan|h_scan|vf_buf.*': 6}, stubs=STUBS, cflags=PRIV,
                        kf_excl=['C09-zero-exponent'], kf_only=ko('C09-overflow-finite'), timeout=600, mem_gb=8))
        qs.append(Query('scan/%s/L3/kf-zero-exp' % ch, 'C09_scan.cpp', 'h_scan', kf({'LEN': 3, 'CHAR': ch}, ['C09-overflow-finite'], 'C09-zero-exponent'),
                        bounds={'stringToNumber|parseExponent|ref_scan|h_scan|vf_buf.*': 4}, stubs=STUBS, cflags=PRIV,
                        kf_excl=['C09-overflow-finite'], kf_only=ko('C09-zero-exponent'), timeout=600, mem_gb=8))
        # long integer numerals: 19-digit window, 2^63 / 2^64 boundaries
        if tier == 'quick' and ch != 'char': continue      # wide units for these in the thorough tier
        # (prefix pins the leading digits; the trailing digits are symbolic)
        WIN = [('2p64', 20, 0, '184467440737095'), ('2p64n', 20, 1, '184467440737095'), ('2p63', 19, 0, '92233720368547'), ('2p63n', 19, 1, '92233720368547'),
               ('max20', 20, 0, '999999999999999'), ('d21', 21, 0, '1000000000000000'), ('d21n', 21, 1, '1844674407370955')]
        for tag, nd, sg, pfx in WIN:
            n = nd + (1 if sg else 0)
            b = {'stringToNumber': n + 1, 'h_int': nd + 1, 'vf_buf.*': n + 1}
            ex = ['C09-int64-min-real']
            qs.append(Query('int/%s/%s' % (ch, tag), 'C09_scan.cpp', 'h_int', kf({'ND': nd, 'SIGN': sg, 'CHAR': ch, 'PFX': '"%s"' % pfx}, ex), bounds=b,
                            stubs=STUBS, cflags=PRIV, kf_excl=ex, timeout=600, mem_gb=8))
        # long integer part followed by . / e / E and a digit: consumed entirely, classified Real (19, 20 and 21 digits around the 64-bit boundary)
        for tag, nd, sg, pfx in (('t19', 19, 0, '92233720368547'), ('t20', 20, 0, '184467440737095'), ('t20b', 20, 0, '100000000000000'), ('t21', 21, 0, '1000000000000000'), ('t20n', 20, 1, '184467440737095')):
            n = nd + (1 if sg else 0) + 2
            qs.append(Query('inttail/%s/%s' % (ch, tag), 'C09_scan.cpp', 'h_int_tail', kf({'ND': nd, 'SIGN': sg, 'CHAR': ch, 'PFX': '"%s"' % pfx}, []), bounds={'stringToNumber': n + 1, 'parseExponent': 4, 'h_int_tail': nd + 1, 'vf_buf.*': n + 1},
                            stubs=STUBS, cflags=PRIV, timeout=600, mem_gb=8))
        qs.append(Query('int/%s/2p63n/kf-int64-min' % ch, 'C09_scan.cpp', 'h_int', kf({'ND': 19, 'SIGN': 1, 'CHAR': ch, 'PFX': '"92233720368547"'}, [], 'C09-int64-min-real'),
                        bounds={'stringToNumber': 21, 'h_int': 20, 'vf_buf.*': 21}, stubs=STUBS, cflags=PRIV, kf_only=ko('C09-int64-min-real'), timeout=600, mem_gb=8))
        # long written exponents
        for ne in (9, 10, 11):
            for es in (0, 1):
                n = 2 + ne + (1 if es else 0)
                b = {'stringToNumber': n + 1, 'parseExponent': n + 1, 'h_exp': ne + 1, 'vf_buf.*': n + 1}
                ex = ['C09-exponent-wrap']
                qs.append(Query('exp/%s/ne%d/sign%d' % (ch, ne, es), 'C09_scan.cpp', 'h_exp', kf({'NE': ne, 'ESIGN': es, 'CHAR': ch}, ex), bounds=b,
                                stubs=STUBS, cflags=PRIV, kf_excl=ex, timeout=600, mem_gb=8))
        qs.append(Query('exp/%s/ne10/sign0/kf-wrap' % ch, 'C09_scan.cpp', 'h_exp', kf({'NE': 10, 'ESIGN': 0, 'CHAR': ch}, [], 'C09-exponent-wrap'),
                        bounds={'stringToNumber|parseExponent': 14, 'h_exp': 11, 'vf_buf.*': 14}, stubs=STUBS, cflags=PRIV, kf_only=ko('C09-exponent-wrap'), timeout=600, mem_gb=8))
    # (b) the negative power-of-ten kernel alone on the windows where rounding to 53 bits carries into the exponent: mantissas within 2^15 of 2^J * 10^E
    KB = {'bitlen': 66, 'powerOfNegativeTen': 3, 'FindLastBit|ShiftLeft|ShiftRight|Multiply|.*BigInt.*|operator.*': 6}
    import math
    for e in ((16,) if tier == 'quick' else (1, 4, 8, 12, 16, 19)):
        jmax = int(math.floor(math.log2((2**64 - 65536) / 10**e)))
        js = sorted(set([0, 1, jmax // 2, jmax])) if tier != 'quick' else [1, 10]
        for j in js:
            if (10**e << j) >= 2**64 - 65536 or (10**e << j) < 65536: continue
            qs.append(Query('kernel/p10neg/E%d/J%d' % (e, j), 'C09_kernel.cpp', 'h_p10neg', {'KE': e, 'KJ': j}, bounds=KB, default_unwind=6, cflags=PRIV, backend='sat', timeout=600, mem_gb=8))
    return qs

from engine import Query
META = {}
KIND = {'U': 0, 'S': 4, 'UI': 5, 'I': 6, 'D': 7, 'T': 8, 'F': 9, 'NUL': 10}
OP = {'NONE': 0, 'AS_SCALAR': 1, 'AS_TYPE': 2, 'AS_STR': 3, 'AS_ARR': 4, 'AS_COPY': 5, 'AS_MOVE': 6, 'AS_SELF': 7, 'CTOR_COPY': 8, 'CTOR_MOVE': 9,
      'AP_SCALAR': 10, 'AP_STR': 11, 'AP_ARR': 12, 'AP_COPY': 13, 'AP_MOVE': 14, 'AP_PTR': 15, 'INDEX': 16, 'MERGE_COPY': 17, 'MERGE_MOVE': 18,
      'REMOVE_INDEX': 19, 'RESET': 20, 'COMPRESS': 21, 'SET_PTR': 22, 'REMOVE_KEY': 23, 'GET_KEY': 24, 'AP_ELEM': 25}
def cls(name):
    """'U' 'NUL' 'T' 'F' 'UI' 'I' 'D' | 'S0' 'S1' 'S2' | 'A' 'A_UI' 'A_U_S' (members) | 'P_<class>'"""
    d = {'K': 0, 'LEN': 1, 'N': 0, 'E1': 5, 'E2': 5, 'TK': 5}
    parts = name.split('_')
    ptr = parts[0] == 'P'
    if ptr: parts = parts[1:]
    h = parts[0]
    if h == 'A':
        k = 3; d['N'] = len(parts) - 1
        for i, e in enumerate(parts[1:]): d['E%d' % (i + 1)] = KIND[e]
    elif h[0] == 'S' and h[1:].isdigit():
        k = 4; d['LEN'] = int(h[1:])
    else:
        k = KIND[h]
    if ptr: d['K'] = 1; d['TK'] = k
    else: d['K'] = k
    return d
B = {'Dispose': 6, 'Copy': 16, 'SetToZero': 16, 'vf_mem.*': 130, 'Count': 4, 'IsEqual': 4, 'h_step|mk.*|m_.*|obs_.*|scalar_arg|mutate': 6, 'Initialize': 6}
STN = '_ZN6Qentem5Digit14stringToNumberIcEENS_11QNumberTypeERNS_9QNumber64EPKT_Rjj'
def Q(pre, op, src=None, **kw):
    d = {'OP': OP[op]}
    name = '%s/%s' % (op, pre)
    for k, v in cls(pre).items(): d['PRE_' + k] = v
    if src is not None:
        for k, v in cls(src).items(): d['SRC_' + k] = v
        name += '/src=' + src
    for k in ('SEL', 'LEN_A', 'AN', 'IDX', 'COERCE'):
        if k in kw:
            d[k] = kw.pop(k); name += '/%s%d' % (k.lower(), d[k])
    return Query(name, 'C12_value.cpp', 'h_step', d, bounds=B, default_unwind=6, rec_bounds={}, default_rec=3, timeout=300, mem_gb=8,
                 leak=True, stubs={STN: 'stub_strtonum'}, **kw)
def queries(tier):
    qs = []
    pres = ['U', 'UI', 'D', 'S1', 'A_UI', 'A_U_I', 'P_UI']
    for p in pres:
        for op in ('NONE', 'AS_SELF', 'CTOR_COPY', 'CTOR_MOVE', 'RESET', 'COMPRESS', 'REMOVE_KEY', 'GET_KEY'):
            qs.append(Q(p, op))
    return qs

import os, json
from engine import Query
META = {}
# known findings of this harness; with VF_KF_MANUAL=1 the defines are passed directly (ids not yet in known_findings.json)
KF_CTOR = 'C12-number-ctor-uninit'
KF_TYPE = 'C12-assign-type-no-reset'
KF_NULLP = 'C12-setptr-null'
MAN = os.environ.get('VF_KF_MANUAL') == '1'
KIND = {'U': 0, 'S': 4, 'UI': 5, 'I': 6, 'D': 7, 'T': 8, 'F': 9, 'NUL': 10}
OP = {'NONE': 0, 'AS_SCALAR': 1, 'AS_TYPE': 2, 'AS_STR': 3, 'AS_ARR': 4, 'AS_COPY': 5, 'AS_MOVE': 6, 'AS_SELF': 7, 'CTOR_COPY': 8, 'CTOR_MOVE': 9,
      'AP_SCALAR': 10, 'AP_STR': 11, 'AP_ARR': 12, 'AP_COPY': 13, 'AP_MOVE': 14, 'AP_PTR': 15, 'INDEX': 16, 'MERGE_COPY': 17, 'MERGE_MOVE': 18,
      'REMOVE_INDEX': 19, 'RESET': 20, 'COMPRESS': 21, 'SET_PTR': 22, 'REMOVE_KEY': 23, 'GET_KEY': 24, 'AP_ELEM': 25}
def cls(name):
    """'U' 'NUL' 'T' 'F' 'UI' 'I' 'D' | 'S0' 'S1' 'S2' | 'A' 'A_UI' 'A_U_S' (members) | 'P_<class>'"""
    d = {'K': 0, 'LEN': 1, 'N': 0, 'E1': 5, 'E2': 5, 'TK': 5}
    parts = name.split('_')
    ptr = parts[0] == 'P'
    if ptr: parts = parts[1:]
    h = parts[0]
    if h == 'A':
        k = 3; d['N'] = len(parts) - 1
        for i, e in enumerate(parts[1:]): d['E%d' % (i + 1)] = KIND[e]
    elif h[0] == 'S' and h[1:].isdigit():
        k = 4; d['LEN'] = int(h[1:])
    else:
        k = KIND[h]
    if ptr: d['K'] = 1; d['TK'] = k
    else: d['K'] = k
    return d
def nmemb(name):
    c = cls(name); return c['N'] if c['K'] == 3 else 0
B = {'Dispose': 6, 'Copy': 100, 'SetToZero': 100, 'vf_mem.*': 100, 'Count': 4, 'IsEqual': 6, 'h_step|mk.*|m_.*|obs_.*|scalar_arg|mutate|slot_fill': 9, 'Initialize': 6}
# heap blocks are byte arrays: keep them field-sensitive up to 200 bytes (default 64), else kind tags stop being constants
XC = ()   # (--max-field-sensitivity-array-size 512 --object-bits 10 are engine defaults now)
POWN = '_ZN6Qentem5Digit18powerOfNegativeTenIyEEvRT_j'; POWP = '_ZN6Qentem5Digit18powerOfPositiveTenIyEEvRT_j'
STN = '_ZN6Qentem5Digit14stringToNumberIcEENS_11QNumberTypeERNS_9QNumber64EPKT_Rjj'
def Q(pre, op, src=None, kf_only=None, stub=True, **kw):
    d = {'OP': OP[op]}
    name = '%s/%s' % (op, pre)
    for k, v in cls(pre).items(): d['PRE_' + k] = v
    if src is not None:
        for k, v in cls(src).items(): d['SRC_' + k] = v
        name += '/src=' + src
    for k in ('SEL', 'W', 'BV', 'LEN_A', 'AN', 'IDX', 'COERCE'):
        if k in kw:
            d[k] = kw.pop(k); name += '/%s%d' % (k.lower(), d[k])
    excl = [KF_CTOR] + ([KF_TYPE] if op == 'AS_TYPE' else []) + ([KF_NULLP] if op == 'SET_PTR' else [])
    if kf_only:
        excl = [k for k in excl if k != kf_only]; name += '/only:' + kf_only
    if MAN:
        for k in excl: d['KF_EXCL_' + k.replace('-', '_')] = 1
        if kf_only: d['KF_ONLY_' + kf_only.replace('-', '_')] = 1
    return Query(name, 'C12_value.cpp', 'h_step', d, bounds=B, default_unwind=6, rec_bounds={}, default_rec=3, timeout=300, mem_gb=8,
                 leak=True, stubs=({STN: 'stub_strtonum'} if stub else {}), extra_cbmc=XC, kf_excl=excl, kf_only=(None if MAN else kf_only), **kw)
def queries(tier):
    q = tier == 'quick'
    qs = []
    pres = ['U', 'NUL', 'UI', 'D', 'S1', 'A_UI', 'A_U_I', 'P_UI'] if q else \
           ['U', 'NUL', 'T', 'F', 'UI', 'I', 'D', 'S0', 'S1', 'S2', 'A', 'A_UI', 'A_U', 'A_S', 'A_D', 'A_UI_I', 'A_U_I', 'A_UI_U', 'A_U_U', 'A_T_S',
            'P_UI', 'P_U', 'P_S1', 'P_A_UI']
    srcs = ['UI', 'A_UI'] if q else ['U', 'NUL', 'UI', 'D', 'S0', 'S1', 'A', 'A_UI', 'A_U_I', 'A_S', 'P_UI', 'P_A_UI']
    for p in pres:
        A = lambda op, **kw: qs.append(Q(p, op, **kw))
        for op in ('NONE', 'AS_SELF', 'CTOR_COPY', 'CTOR_MOVE', 'RESET', 'COMPRESS', 'REMOVE_KEY', 'GET_KEY'): A(op)
        if p == 'A':
            for bv in (1, 2, 3): A('NONE', BV=bv)
        if p.startswith('A_') and not q:
            for bv in (1, 2, 3): A('CTOR_COPY', BV=bv)
        for s in ((0, 3, 5) if q else range(6)): A('AS_SCALAR', SEL=s)
        for t in ((0, 3) if q else (0, 3, 4, 5, 6, 7, 8, 9, 10)): A('AS_TYPE', SEL=t)
        for l in ((1,) if q else (0, 1, 2)): A('AS_STR', LEN_A=l, SEL=0)
        A('AS_STR', SEL=1)
        for an in ((1,) if q else (0, 1, 2)):
            for w in (0, 1): A('AS_ARR', AN=an, W=w)
        for op in ('AS_COPY', 'AS_MOVE', 'AP_COPY', 'AP_MOVE', 'MERGE_COPY', 'MERGE_MOVE'):
            for s in srcs: A(op, src=s)
        for s, w in (((0, 0), (3, 0), (5, 1)) if q else ((0, 0), (1, 0), (2, 0), (3, 0), (3, 1), (3, 2), (3, 3), (4, 0), (4, 1), (4, 2), (4, 3), (5, 0), (5, 1))):
            A('AP_SCALAR', SEL=s, W=w)
        for l, w in (((1, 0), (1, 3)) if q else [(l, w) for l in (0, 1, 2) for w in (0, 1, 2, 3)]): A('AP_STR', LEN_A=l, W=w)
        for an, w in (((0, 0), (1, 0), (1, 1)) if q else [(an, w) for an in (0, 1, 2) for w in (0, 1)]): A('AP_ARR', AN=an, W=w)
        for s in (('UI',) if q else ('UI', 'S1', 'A_UI')):
            for sel in (0, 1):
                A('AP_PTR', src=s, SEL=sel); A('SET_PTR', src=s, SEL=sel)
        for i, w in (((0, 0), (1, 0), (2, 0), (1, 1), (1, 2)) if q else [(i, w) for i in (0, 1, 2, 3) for w in (0, 1, 2)]): A('INDEX', IDX=i, W=w)
        for i in (0, 1, 2): A('REMOVE_INDEX', IDX=i)
        c = cls(p)
        if c['K'] == 3 and c['N'] > 0 and c['E1'] != 0:
            A('AP_ELEM', SEL=0); A('AP_ELEM', SEL=1)
    # numeric / boolean coercion of strings (real Digit::stringToNumber and power kernels, no stub): concrete texts with their expected reading
    import struct
    def dbl(x): return struct.unpack('<Q', struct.pack('<d', x))[0]
    CO = [('0', 2, 0, 0), ('7', 2, 7, 0), ('123', 2, 123, 0), ('-5', 3, (1 << 64) - 5, 0), ('1.5', 1, dbl(1.5), 0), ('true', 0, 0, 1), ('false', 0, 0, 2),
          ('abc', 0, 0, 0), ('', 0, 0, 0), ('12a', 0, 0, 0), ('007', 0, 0, 0), ('1e2', 1, dbl(100.0), 0), ('-0', 3, 0, 0), ('True', 0, 0, 0), ('+3', 2, 3, 0)]
    for i, (txt, et, eb, ebool) in enumerate(CO if not q else CO[:9]):
        for p in (('S%d' % len(txt),) if q or len(txt) > 2 else ('S%d' % len(txt), 'P_S%d' % len(txt))):
            x = Q(p, 'NONE', COERCE=1, stub=False)
            x.defs.update({'CSTR': json.dumps(txt), 'EXP_T': et, 'EXP_BITS': '%dULL' % eb, 'EXP_BOOL': ebool})
            x.name = 'COERCE/%s/%s' % (p, txt or 'empty')
            qs.append(x)
    # the findings themselves
    qs.append(Q('UI', 'AP_SCALAR', SEL=3, W=0, kf_only=KF_CTOR))
    qs.append(Q('D', 'INDEX', IDX=0, W=0, kf_only=KF_CTOR))
    qs.append(Q('S1', 'AS_TYPE', SEL=10, kf_only=KF_TYPE))
    qs.append(Q('UI', 'AS_TYPE', SEL=3, kf_only=KF_TYPE))
    qs.append(Q('UI', 'SET_PTR', src='UI', SEL=1, kf_only=KF_NULLP))
    qs.append(Q('P_UI', 'SET_PTR', src='UI', SEL=1, kf_only=KF_NULLP))
    return qs

import os, json, struct
from engine import Query
META = {
 'functions': ['Value<char> (Value.hpp) - constructors 58-201 (all but the ObjectT/ArrayT default-constructed-argument forms), operator= 203-412 (every overload), SetPointerToValue / AddPointerToValue, '
               'operator+= 414-535 (every overload), operator[] 543-611 (key: 4 overloads, index: SizeT + template), Get, Insert, Merge 876-918, observers 920-1505 '
               '(Is*, GetNumberType, Size, GetValue(index|key|view), First, Last, GetKey, GetObject, GetArray, GetString, GetStringView, StringStorage, Length, SetKeyCharAndLength, '
               'SetValueKeyLength, SetValueAndKey, SetCharAndLength), typed getters / coercions 1588-1751 (GetUInt64, GetInt64, GetDouble, GetNumber, SetNumber, SetBool), '
               'Remove (3 overloads), RemoveIndex (2), Reset, Compress 1753-1843, copy / move construction and assignment, reset / copyValue 2169-2215, ~Value',
               'Array<Value> (Array.hpp), HArray<String,Value> / HashTable (HArray.hpp, HashTable.hpp: Get, operator[], Insert, find, insert, remove, resize, expand, copyTable, generateHash, '
               'Compress, operator+= copy and move), String<char>, StringUtils::Hash/Count/IsEqual, Memory::Copy/Dispose/Initialize as reached from the above',
               'Digit::stringToNumber with its power kernels (coercion queries only, concrete texts)'],
 'bounds': 'one inductive step (DESIGN 4.1, constructed pre-states): pre-state class x operation x second-operand class, all concrete per query; payloads symbolic (64-bit numbers incl. every double '
           'bit pattern, string units over all values, which overload of a family where that does not move storage). Pre-state classes: Undefined, Null, True, False, UInt, Int, Double, '
           'String of 0..2 units, Array of 0..2 members (scalar / Undefined (hole) / String members), Object of 0..2 members under keys from {"", "a", "b", "ab"} (scalar / String / '
           'never-written / removed members, 4 ways to build), pointer to scalar / String / Array / Object; every value is constructed by the public constructors inside storage with '
           'arbitrary previous contents. Operations: see OP_* in harness/C12_value.cpp (30 families, up to 24 variants each). After the operation EVERY observer is compared with the '
           'document model (for objects: every member by key, absent keys, slot iteration order, positional access while no slot was removed; Size between member count and member '
           'count + removed slots), sources of copies are re-read after the copy was mutated and released, moved-from values must be Undefined, pointer targets must be unchanged, '
           'and every allocation must be released (memory-leak check + LeakSanitizer on replay). COERCE queries: 15 concrete texts ("0", "123", "-5", "1.5", "1e2", "true", "false", '
           '"12a", "007", ...) with their expected reading. quick: 5 + 6 pre-state classes x representative variants (~270 queries); thorough: 35 classes (~2680 queries).',
 'outside': 'containers with more than 2 members before the operation (results have up to 4); nesting deeper than 2; keys outside the 4-key universe / longer than 2 units; histories longer than '
            'construction + 1 operation; string -> number coercion for symbolic texts (160 s for ONE symbolic unit; C09 covers the scanner itself); GetInt64/GetUInt64 of a Double outside '
            '(-4e18, 4e18) (the cast is undefined behaviour there - see open questions); Value::End() and Value::IsPointerToValue() (they do not compile when instantiated: Value.hpp:1277, 2117); '
            'Sort / GroupBy (C15 part (c), C18); Stringify / CopyValueTo (C08 part); char16_t / char32_t instantiations; default-constructed EMPTY Array/HArray passed by value '
            '(arguments are emptied containers with spare room instead)',
 'assumptions': ['kinds, string lengths, member counts, keys and storage-moving overload choices are enumerated across queries, not symbolic',
                 'queries other than COERCE replace Digit::stringToNumber by a constant (it is not reachable there on a feasible path)',
                 'the model follows the implementation where the documentation is silent: += on a value that is not an array first discards it; Merge on an Undefined value makes it an empty array '
                 'even when nothing is merged; += of an EMPTY Array appends it as a member while a non-empty one is spliced; v[index] on an object without such a live slot discards the object; '
                 'containers compare / report Size() including removed slots',
                 'while C12-ctor-payload-uninit is open: the storage a value is constructed in has zero bytes at offset 8..15 (the number and string constructors leave them as they were)',
                 'while C12-assign-type-no-reset is open: operator=(ValueType) is applied to Undefined / True / False / Null values only',
                 'while C12-setptr-null is open: SetPointerToValue(nullptr) is applied to Undefined values only',
                 'while C12-append-moved-member is open: v += move(member of v) is applied only when the array has spare room',
                 'while C12-remove-string-key is open: Remove(const String&) on an object is applied only when the key length equals the slot count'],
}
# known findings of this harness; with VF_KF_MANUAL=1 the defines are passed directly (for ids not yet in known_findings.json)
KF_CTOR = 'C12-ctor-payload-uninit'
KF_TYPE = 'C12-assign-type-no-reset'
KF_NULLP = 'C12-setptr-null'
KF_RMKEY = 'C12-remove-string-key'
KF_APMOVE = 'C12-append-moved-member'
MAN = os.environ.get('VF_KF_MANUAL') == '1'
KIND = {'U': 0, 'S': 4, 'UI': 5, 'I': 6, 'D': 7, 'T': 8, 'F': 9, 'NUL': 10, 'X': 20, 'N': 30, 'NO': 31}   # N: nested array [Undefined, unsigned]
KEYID = {'e': 0, 'a': 1, 'b': 2, 'ab': 3}
OP = {'NONE': 0, 'AS_SCALAR': 1, 'AS_TYPE': 2, 'AS_STR': 3, 'AS_ARR': 4, 'AS_COPY': 5, 'AS_MOVE': 6, 'AS_SELF': 7, 'CTOR_COPY': 8, 'CTOR_MOVE': 9,
      'AP_SCALAR': 10, 'AP_STR': 11, 'AP_ARR': 12, 'AP_COPY': 13, 'AP_MOVE': 14, 'AP_PTR': 15, 'INDEX': 16, 'MERGE_COPY': 17, 'MERGE_MOVE': 18,
      'REMOVE_INDEX': 19, 'RESET': 20, 'COMPRESS': 21, 'SET_PTR': 22, 'REMOVE_KEY': 23, 'GET_KEY': 24, 'AP_ELEM': 25, 'KEY': 26, 'INSERT': 27,
      'AS_OBJ': 28, 'AP_OBJ': 29}
def cls(name):
    """scalars 'U' 'NUL' 'T' 'F' 'UI' 'I' 'D' | strings 'S0'..'S5' | arrays 'A' 'A_UI' 'A_U_S' (member kinds) |
       objects 'O' 'O_a.UI' 'O_a.UI_b.S' (key.kind; key e = "", kind X = added and removed, U = created, never written) | 'P_<class>' pointer to"""
    d = {'K': 0, 'LEN': 1, 'N': 0, 'E1': 5, 'E2': 5, 'TK': 5, 'K1': 1, 'K2': 2}
    parts = name.split('_')
    ptr = parts[0] == 'P'
    if ptr: parts = parts[1:]
    h = parts[0]
    if h == 'A':
        k = 3; d['N'] = len(parts) - 1
        for i, e in enumerate(parts[1:]): d['E%d' % (i + 1)] = KIND[e]
    elif h == 'O':
        k = 2; d['N'] = len(parts) - 1
        for i, e in enumerate(parts[1:]):
            key, kind = e.split('.'); d['K%d' % (i + 1)] = KEYID[key]; d['E%d' % (i + 1)] = KIND[kind]
    elif h[0] == 'S' and h[1:].isdigit():
        k = 4; d['LEN'] = int(h[1:])
    else:
        k = KIND[h]
    if ptr: d['K'] = 1; d['TK'] = k
    else: d['K'] = k
    return d
def is_arr(p): c = cls(p); return c['K'] == 3
def is_obj(p): c = cls(p); return c['K'] == 2
def holes(p): c = cls(p); return c['K'] == 2 and 20 in [c['E%d' % (i + 1)] for i in range(c['N'])]
B = {'Dispose': 6, 'Copy': 100, 'SetToZero': 40, 'vf_mem.*': 100, 'Count': 4, 'IsEqual': 6, 'Hash': 4, 'Initialize': 6, 'find': 4, 'generateHash': 6,
     'resize|copyTable|ActualSize|operator\\+=': 6, 'mk.*|m_.*|mo_.*|obs_.*|scalar_arg|mutate|slot_fill|add_obj_member': 9, 'h_step|slot_scrub': 25,
     'stringToNumber|parseExponent': 7, 'BigInt|Add|Multiply|ShiftRight|ShiftLeft|Clear|powerOf.*': 8}
STN = '_ZN6Qentem5Digit14stringToNumberIcEENS_11QNumberTypeERNS_9QNumber64EPKT_Rjj'
def Q(pre, op, src=None, kf_only=None, stub=True, **kw):
    d = {'OP': OP[op]}
    name = '%s/%s' % (op, pre)
    for k, v in cls(pre).items(): d['PRE_' + k] = v
    if src is not None:
        for k, v in cls(src).items(): d['SRC_' + k] = v
        name += '/src=' + src
    for k in ('SEL', 'W', 'BV', 'LEN_A', 'AN', 'IDX', 'KA', 'COERCE'):
        if k in kw:
            d[k] = kw.pop(k); name += '/%s%d' % (k.lower(), d[k])
    excl = [KF_CTOR] + ([KF_TYPE] if op == 'AS_TYPE' else []) + ([KF_NULLP] if op == 'SET_PTR' else []) + ([KF_RMKEY] if op == 'REMOVE_KEY' else []) + ([KF_APMOVE] if op == 'AP_ELEM' else [])
    if kf_only:
        excl = [k for k in excl if k != kf_only]; name += '/only:' + kf_only
    if MAN:
        for k in excl: d['KF_EXCL_' + k.replace('-', '_')] = 1
        if kf_only: d['KF_ONLY_' + kf_only.replace('-', '_')] = 1
    return Query(name, 'C12_value.cpp', 'h_step', d, bounds=B, default_unwind=6, rec_bounds={}, default_rec=3, timeout=300, mem_gb=8,
                 leak=True, stubs=({STN: 'stub_strtonum'} if stub else {}), kf_excl=excl, kf_only=(None if MAN else kf_only), **kw)

def ops_for(p, A, lvl, srcs):
    """the operations applied to pre-state class p.  lvl 2: every overload / argument shape; 1: representative variants; 0: one variant per operation"""
    f = lvl == 2; r = lvl >= 1
    for op in ('NONE', 'AS_SELF', 'CTOR_COPY', 'CTOR_MOVE', 'RESET', 'COMPRESS', 'GET_KEY'): A(op)
    for s in (range(6) if f else ((0, 3, 5) if r else (3,))): A('AS_SCALAR', SEL=s)
    for t in ((0, 2, 3, 4, 5, 6, 7, 8, 9, 10) if f else ((0, 2, 3) if r else (3,))): A('AS_TYPE', SEL=t)
    for l in ((0, 1, 2) if f else (1,)): A('AS_STR', LEN_A=l, SEL=0)
    if r: A('AS_STR', SEL=1)
    for an in ((0, 1, 2) if f else (1,)):
        for w in ((0, 1) if r else (0,)): A('AS_ARR', AN=an, W=w); A('AS_OBJ', AN=an, W=1 - w)
    if r:
        for op in ('AS_COPY', 'AS_MOVE', 'AP_COPY', 'AP_MOVE', 'MERGE_COPY', 'MERGE_MOVE'):
            for s in srcs: A(op, src=s)
    else:
        A('AS_COPY', src='A_UI'); A('AS_MOVE', src='O_a.UI'); A('AP_COPY', src='O_a.UI'); A('AP_MOVE', src='A_UI'); A('MERGE_COPY', src='A_UI'); A('MERGE_MOVE', src='O_a.UI')
    for s, w in (((0, 0), (1, 0), (2, 0), (3, 0), (3, 1), (3, 2), (3, 3), (4, 0), (4, 1), (4, 2), (4, 3), (5, 0), (5, 1)) if f else (((0, 0), (3, 0), (5, 1)) if r else ((3, 0),))):
        A('AP_SCALAR', SEL=s, W=w)
    for l, w in ([(l, w) for l in (0, 1, 2) for w in (0, 1, 2, 3)] if f else (((1, 0), (1, 3)) if r else ((1, 1),))): A('AP_STR', LEN_A=l, W=w)
    for an, w in ([(an, w) for an in (0, 1, 2) for w in (0, 1)] if f else (((0, 0), (1, 0), (1, 1)) if r else ((1, 1),))): A('AP_ARR', AN=an, W=w)
    for an, w in ([(an, w) for an in (0, 1, 2) for w in (0, 1)] if f else (((1, 0), (2, 1)) if r else ((1, 0),))): A('AP_OBJ', AN=an, W=w)
    for s in (('UI', 'S1', 'A_UI', 'O_a.UI') if f else ('UI',)):
        for sel in (0, 1):
            if r or sel == 0: A('AP_PTR', src=s, SEL=sel)
            A('SET_PTR', src=s, SEL=sel)
    if not holes(p):
        for i, w in ([(i, w) for i in (0, 1, 2, 3) for w in (0, 1, 2)] if f else (((0, 0), (1, 0), (2, 0), (1, 1), (1, 2)) if r else ((1, 0),))): A('INDEX', IDX=i, W=w)
        for i in ((0, 1, 2) if r else (0,)): A('REMOVE_INDEX', IDX=i)
    for ka, w in ([(ka, w) for ka in (0, 1, 2, 3) for w in range(6)] if f else (((1, 0), (2, 1), (3, 2), (0, 3), (1, 4), (2, 5)) if r else ((1, 0), (3, 2)))): A('KEY', KA=ka, W=w)
    for ka, s in ([(ka, s) for ka in (1, 3) for s in ('UI', 'S1', 'A_UI', 'O_a.UI')] if f else (((1, 'UI'), (2, 'A_UI')) if r else ((1, 'UI'),))): A('INSERT', KA=ka, src=s)
    for ka, w in ([(ka, w) for ka in (0, 1, 2, 3) for w in (0, 1, 2)] if (f and is_obj(p)) else (((1, 0), (1, 1), (2, 2), (3, 1), (0, 0)) if r else ((1, 1),))): A('REMOVE_KEY', KA=ka, W=w)
    c = cls(p)
    if c['K'] == 3 and c['N'] > 0 and c['E1'] != 0:
        A('AP_ELEM', SEL=0); A('AP_ELEM', SEL=1)

def queries(tier):
    q = tier == 'quick'
    qs = []
    if q:
        plan = [('O_a.UI_b.S', 1), ('A_U_I', 0), ('UI', 0), ('P_UI', 0)]      # quick is a subsample of the thorough plan
        side = ['U', 'D', 'S1', 'O', 'O_a.X_b.UI', 'O_a.U_b.T', 'P_O_a.UI']
        srcs = ['A_UI', 'O_a.UI']
    else:
        plan = [(p, 2) for p in ('UI', 'S1', 'A_U_I', 'O_a.UI_b.S', 'O_a.X_b.UI')] + \
               [(p, 1) for p in ('U', 'NUL', 'D', 'S0', 'S2', 'A', 'A_UI', 'A_T_S', 'O', 'O_a.UI', 'O_e.NUL_ab.D', 'O_a.U_b.T', 'P_UI', 'P_A_UI', 'P_O_a.UI')]
        side = ['T', 'F', 'I', 'A_U', 'A_S', 'A_D', 'A_U_U', 'A_UI_U', 'A_UI_I', 'O_ab.S', 'O_b.T_a.F', 'O_a.UI_b.X', 'P_U', 'P_D', 'P_S1']
        srcs = ['U', 'UI', 'S1', 'A_UI', 'A_U_I', 'O_a.UI', 'O_b.S_a.I', 'P_UI']
    for p, lvl in plan:
        ops_for(p, (lambda op, p=p, **kw: qs.append(Q(p, op, **kw))), lvl, srcs)
    for p in side:      # further pre-state classes: observers, copy, move (+ thorough: reset, compress, one append, one keyed write, one assignment)
        for op in (('NONE', 'CTOR_COPY', 'CTOR_MOVE') if q else ('NONE', 'CTOR_COPY', 'CTOR_MOVE', 'RESET', 'COMPRESS')): qs.append(Q(p, op))
        if not q:
            qs.append(Q(p, 'AP_SCALAR', SEL=3, W=0)); qs.append(Q(p, 'KEY', KA=1, W=0)); qs.append(Q(p, 'AS_COPY', src='O_a.UI'))
    if q: qs.append(Q('A_UI', 'AP_ELEM', SEL=0)); qs.append(Q('A_UI', 'AP_ELEM', SEL=1)); qs.append(Q('A_T_S', 'AP_ELEM', SEL=0)); qs.append(Q('A_T_S', 'AP_ELEM', SEL=1))
    if q:
        for op, kw in (('AS_SCALAR', {'SEL': 3}), ('AP_SCALAR', {'SEL': 3, 'W': 0}), ('AS_STR', {'LEN_A': 1, 'SEL': 0}), ('KEY', {'KA': 1, 'W': 0}), ('AP_COPY', {'src': 'A_UI'})): qs.append(Q('S1', op, **kw))
    for p, bvs in (('A', (1, 2, 3)), ('A_UI_I', (1, 2, 3)), ('O', (1, 2, 3)), ('O_a.UI_b.S', (1, 2, 3)), ('O_a.X_b.UI', (1, 2, 3))):   # the other constructor families
        for bv in (bvs if not q else bvs[1:2]):
            qs.append(Q(p, 'NONE', BV=bv))
            if not q: qs.append(Q(p, 'CTOR_COPY', BV=bv))
    # Compress reaches nested containers whether or not the outer container is rebuilt (A_UI_N: size == capacity, nothing to rebuild)
    for p in ('A_UI_N', 'A_N', 'A_U_N', 'O_a.N', 'O_a.X_b.N'):
        qs.append(Q(p, 'COMPRESS')); qs.append(Q(p, 'NONE'))
    for p in ('O_a.NO', 'A_NO'):      # NO: a nested OBJECT with a removed member (object inside object / inside array)
        qs.append(Q(p, 'COMPRESS')); qs.append(Q(p, 'NONE'))
        if not q: qs.append(Q(p, 'CTOR_COPY')); qs.append(Q(p, 'AS_MOVE', src='UI'))
    # numeric / boolean coercion of strings (real Digit::stringToNumber and power kernels, no stub): concrete texts with their expected reading
    def dbl(x): return struct.unpack('<Q', struct.pack('<d', x))[0]
    CO = [('0', 2, 0, 0), ('7', 2, 7, 0), ('123', 2, 123, 0), ('-5', 3, (1 << 64) - 5, 0), ('1.5', 1, dbl(1.5), 0), ('true', 0, 0, 1), ('false', 0, 0, 2),
          ('abc', 0, 0, 0), ('', 0, 0, 0), ('12a', 0, 0, 0), ('007', 0, 0, 0), ('1e2', 1, dbl(100.0), 0), ('-0', 1, dbl(-0.0), 0), ('True', 0, 0, 0), ('+3', 2, 3, 0)]
    for i, (txt, et, eb, ebool) in enumerate(CO if not q else CO[:9]):
        for p in (('S%d' % len(txt),) if q or len(txt) > 2 else ('S%d' % len(txt), 'P_S%d' % len(txt))):
            x = Q(p, 'NONE', COERCE=1, stub=False)
            x.defs.update({'CSTR': json.dumps(txt), 'EXP_T': et, 'EXP_BITS': '%dULL' % eb, 'EXP_BOOL': ebool})
            x.name = 'COERCE/%s/%s' % (p, txt or 'empty')
            qs.append(x)
    # the findings themselves
    qs.append(Q('UI', 'AP_SCALAR', SEL=3, W=0, kf_only=KF_CTOR))
    qs.append(Q('D', 'AP_STR', LEN_A=1, W=0, kf_only=KF_CTOR))
    qs.append(Q('S1', 'AP_SCALAR', SEL=3, W=0, kf_only=KF_CTOR))              # the string constructors leave bytes 12..15 (read back as capacity)
    qs.append(Q('S1', 'AS_TYPE', SEL=10, kf_only=KF_TYPE))
    qs.append(Q('UI', 'AS_TYPE', SEL=3, kf_only=KF_TYPE))
    qs.append(Q('UI', 'SET_PTR', src='UI', SEL=1, kf_only=KF_NULLP))
    if not q: qs.append(Q('P_UI', 'SET_PTR', src='UI', SEL=1, kf_only=KF_NULLP))   # a ValuePtr left with a null target: every observer dereferences it
    qs.append(Q('A_T_S', 'AP_ELEM', SEL=1, kf_only=KF_APMOVE))                  # [true, "x"] is full: growing releases the storage the argument lives in
    qs.append(Q('O_a.UI_b.S', 'REMOVE_KEY', KA=2, W=1, kf_only=KF_RMKEY))      # "b" read with length 2: not found, nothing removed
    qs.append(Q('O_a.UI', 'REMOVE_KEY', KA=3, W=1, kf_only=KF_RMKEY))          # "ab" read with length 1: removes "a"
    return qs

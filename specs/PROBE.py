from engine import Query
META = {}
def queries(tier):
    qs = []
    for L in (2, 3, 4):
        for tl in (0, 1):
            B = {'Next': L + 1, 'h_small|vf_buf.*': L + 2, 'Copy': 12, 'IsEqual': 8, 'Dispose': 3, 'parse|parse.*|checkLoopVariable|getOperation|isExpression': L + 2, 'vf_mem.*': 60, 'sym_tree': 5,
                 'render.*|getValue|evaluate.*|GetExpressionValue|isEqual': 3, 'Write': L + 2, 'EscapeHTMLSpecialChars': 8}
            d = {'L': L}
            if tl: d['TAGLESS'] = 1
            qs.append(Query('s%d_%d' % (L, tl), 'C01_small.cpp', 'h_small', d, bounds=B, default_unwind=3, timeout=600, mem_gb=16, default_rec=2))
    return qs

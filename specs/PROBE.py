from engine import Query
import json
META = {}
X = ('--max-field-sensitivity-array-size', '512', '--object-bits', '10')
def queries(tier):
    b = {'Dispose': 3, 'Copy': 6, 'Hash': 3, 'IsEqual': 3, 'find': 3, 'resize|generateHash|expand': 6, 'vf_mem.*': 40, 'Count': 3, 'SetToZero': 20}
    qs = [Query(e, 'probe_val.cpp', e, {}, bounds=b, default_unwind=3, timeout=600, mem_gb=16, default_rec=1, rec_bounds={'~Value': 2}, extra_cbmc=X) for e in ('h_obj', 'h_obj2')]
    B = {'Next': 14, 'h_render': 100, 'Copy': 20, 'IsEqual': 8, 'Dispose': 3, 'parse|parse.*|checkLoopVariable|getOperation|isExpression': 40, 'vf_mem.*': 200, 'sym_tree': 5,
         'render.*|getValue|evaluate.*|GetExpressionValue|isEqual': 4, 'Write': 40, 'EscapeHTMLSpecialChars': 16}
    for i, t in enumerate(['{var:a}', '<loop value="v">{var:v}</loop>', '<if case="a">x</if>', '{math:1+a}']):
        qs.append(Query('t%d' % i, 'C01_tpl.cpp', 'h_render', {'TPL': json.dumps(t)}, bounds=B, default_unwind=4, timeout=600, mem_gb=16, default_rec=3, extra_cbmc=X))
    return qs

from engine import Query
import json
META = {}
def queries(tier):
    B = {'Next': 14, 'h_r1': 60, 'Copy': 12, 'IsEqual': 8, 'Dispose': 3, 'parse|parse.*|checkLoopVariable|getOperation|isExpression': 40, 'vf_mem.*': 120, 'SetToZero': 20,
         'render.*|getValue|evaluate.*|GetExpressionValue|isEqual': 4, 'Write|write': 12, 'EscapeHTMLSpecialChars': 4, 'Hash': 3, 'find': 3, 'resize|generateHash|expand': 6, 'Count': 3}
    qs = []
    for i, t in enumerate(['{var:a}', 'x{var:a}y{raw:a}', '<loop value="v">{var:v}</loop>']):
        qs.append(Query('r%d' % i, 'probe_render.cpp', 'h_r1', {'TPL': json.dumps(t)}, bounds=B, default_unwind=4, timeout=600, mem_gb=16, default_rec=2))
    return qs

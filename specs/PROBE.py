from engine import Query
META = {}
def queries(tier):
    b = {'TrimLeft': 2, 'UnEscape': 3, 'Hash': 2, 'IsEqual': 2, 'find': 2, 'Dispose': 3, 'resize': 3, 'generateHash': 3, 'Copy': 12, 'stringToNumber': 3,
         'parseExponent': 2, 'HexStringToNumber': 2, 'parseArray|parseObject': 3, 'vf_buf.*': 8, 'ShiftLeft|ShiftRight|Add|Multiply|powerOf.*': 2}
    return [Query('parse_obj', 'probe_value.cpp', 'h_parse_obj', {}, bounds=b, default_unwind=3, timeout=600, mem_gb=16, default_rec=2, stubs={'_ZN6Qentem6MemoryL4CopyIjEEvPvPKvT_': 'vf_copy_stub'})]

from engine import Query
import json
META = {}
B = {'Next': 14, 'h_render': 100, 'Copy': 20, 'IsEqual': 8, 'Dispose': 3, 'parse|parse.*|checkLoopVariable|getOperation|isExpression': 40, 'vf_mem.*': 200, 'sym_tree': 5,
     'render.*|getValue|evaluate.*|GetExpressionValue|isEqual': 4, 'Write': 40, 'EscapeHTMLSpecialChars': 16}
def queries(tier):
    qs = []
    for i, t in enumerate(['{var:a}', '<loop value="v">{var:v}</loop>', '<if case="a">x</if>', '{math:1+a}', '<if case="1"><if case="1"><loop value="v">{var:v}</loop></if></if>']):
        qs.append(Query('t%d' % i, 'C01_tpl.cpp', 'h_render', {'TPL': json.dumps(t)}, bounds=B, default_unwind=4, timeout=600, mem_gb=16, default_rec=3))
    return qs

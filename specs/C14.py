from engine import Query
META = {
 'functions': ['Memory::Copy / Memory::SetToZero (Memory.hpp:31-92)'],
 'bounds': '',
 'outside': '',
 'assumptions': [],
}
CFG = {'scalar': (), 'sse2': ('-DQENTEM_SSE2=1', '-msse2'), 'avx2': ('-DQENTEM_AVX2=1', '-mavx2')}

def mem_queries(tier):
    qs = []
    lens = [0, 1, 15, 16, 17, 31, 32, 33, 47, 64, 65, 80] if tier == 'quick' else list(range(0, 81))
    for cfg, fl in CFG.items():
        for e in ('h_copy', 'h_zero'):
            for n in lens:
                sh = {'scalar': 0, 'sse2': 4, 'avx2': 5}[cfg]
                it = max(n >> sh, (n & ((1 << sh) - 1)) if sh else n)      # vector blocks, then byte tail
                b = {'Copy|SetToZero': it + 1, 'vf_buf.*': n + 3}
                qs.append(Query('mem/%s/%s/L%d' % (e[2:], cfg, n), 'C14_memory.cpp', e, {'LEN': n, 'PRE': 1, 'POST': 1, 'SPRE': 1},
                                bounds=b, cflags=fl, timeout=120, mem_gb=8))
    return qs

PRIV = ('-Dprivate=public', '-Dprotected=public')
AOPS = {'copy_ctor': 1, 'move_ctor': 2, 'copy_assign': 3, 'move_assign': 4, 'append_copy': 5, 'append_move': 6, 'item_copy': 7,
        'item_move': 8, 'insert_copy': 9, 'insert_move': 10, 'clear': 11, 'reset': 12, 'detach': 13, 'reserve': 14, 'resize': 15,
        'resize_init': 16, 'expect': 17, 'compress': 18, 'drop': 19, 'ctor_size': 20, 'swap': 21, 'insert_arr_copy': 22,
        'insert_arr_move': 23, 'item_alias': 24}

def arr_queries(tier):
    qs = []
    for elem, en in ((0, 'int'), (1, 'tracked')):
        for cap in (0, 1, 2, 4):
            for op, code in AOPS.items():
                esz = 8 if elem else 4
                b = {'Copy': max(cap, 2) * esz + 1, '.*': 6}
                qs.append(Query('array/%s/%s/cap%d' % (en, op, cap), 'C14_array.cpp', 'h_array', {'ELEM': elem, 'CAP': cap, 'OP': code},
                                bounds=b, timeout=120, mem_gb=8))
    return qs

def queries(tier):
    return mem_queries(tier) + arr_queries(tier)

from engine import Query
import os

META = {
 'functions': [
  'Array<int>, Array<Tracked>: every public member of Array.hpp except Sort (C15): ctors, copy/move assign, += / Insert of array (copy, move) '
  'and item (copy, move), Clear, Reset, Detach, Reserve, Resize, ResizeAndInitialize, Expect, Compress, Drop, Swap, observers',
  'String<Char>: every public member of String.hpp except operator<<(Stream_T&, const String&): ctors, assignments, += / + / << / Merge / '
  'Write, ==,!=,<,<=,>,>= against String and C string, IsEqual, Reset, Detach, Trim, StepBack, Reverse, InsertAt, observers',
  'StringStream<Char>: every public member of StringStream.hpp except the generic operator<<(Stream_T&, const StringStream&): ctors, '
  'assignments, += / << / Write, ==,!= , IsEqual, Clear, Reset, StepBack, Reverse, InsertAt, SetLength, Buffer, Expect, Reserve, Detach, '
  'GetString, GetStringView, InsertNull, observers',
  'StringView<Char>: ctors, assignments, comparison operators against view and C string, IsEqual, Reset, observers',
  'Memory::Copy / Memory::SetToZero (Memory.hpp:31-92) in the scalar, SSE2 (-DQENTEM_SSE2=1 -msse2) and AVX2 (-DQENTEM_AVX2=1 -mavx2) builds; '
  'the containers reach Memory::Copy (scalar build), Memory::Allocate/Deallocate/Initialize/Dispose, StringUtils::Count/IsEqual/IsLess/IsGreater/Trim',
 ],
 'bounds': 'one operation applied to a pre-state built through the public API: Array capacity in {0,1,2,4} (thorough: +3), size symbolic <= capacity, '
           'second array capacity 2 (thorough 0,1,2,4); String block of 0 or 2 units (thorough 0..4) stepped back by a symbolic amount, or no block; '
           'StringStream capacity in {0,1,2,4} (thorough: +8), length symbolic <= capacity; StringView over 0..2 (thorough 0..4) units; '
           'argument strings/views/pointers of 2 units (thorough 0..3), numeric arguments in {0,1,3} (thorough {0,1,2,3,5}); contents and all '
           'indices symbolic; aliasing arguments (the object itself / a slice of its own storage / nullptr) chosen symbolically; '
           'char, char16_t, char32_t. Memory::Copy/SetToZero: every length 0..80 bytes (quick: 12 block-boundary lengths), source and '
           'destination at offset 1 of exact-size blocks with guard bytes on both sides, plus forward-overlapping copies inside one block '
           '(destination 1..32 bytes below the source), three builds',
 'outside': 'capacities above 4 (8 for streams), argument lengths above 3, histories are covered by induction over the representation (every '
            'pre-state is reached through the public API; pre-states with capacity > 4 are not built); self-MOVE-append (a += move(a), '
            's += move(s)) is treated as a caller error; Array::Sort (C15); the two generic operator<<(Stream_T&, ...) overloads; '
            'copy lengths above 80 bytes; alignment is not a dimension of the encoding (the intrinsics used are the unaligned forms, CBMC has no '
            'alignment faults); StringStream::operator+=(const StringView<char>&) only exists for Char_T = char (the parameter type is '
            'spelled StringView<char>, so it does not compile for the wider streams; reported, not a run-time property)',
 'assumptions': ['Tracked element stand-in (q2c/standins/tracked.hpp): id + global live-object ledger',
                 'containers are checked in the scalar build; the SSE2/AVX2 builds differ only inside Memory::Copy/SetToZero, which are checked separately '
                 'against the byte-wise definition in all three builds'],
}

# dev switch: while the finding ids below are not yet in known_findings.json, C14_KF_TEST=1 passes the KF_EXCL_/KF_ONLY_ defines
# by hand so that both halves of the protocol can be exercised
KF_TEST = os.environ.get('C14_KF_TEST', '') not in ('', '0')

def Q(out, name, harness, entry, defs, kf=None, kf_twin=True, **kw):
    """normal query (finding `kf` assumed away while it is open) and, if kf_twin, its kf_only twin that must reproduce it"""
    if kf is None:
        out.append(Query(name, harness, entry, defs, **kw)); return
    tag = kf.replace('-', '_')
    if KF_TEST:
        d = dict(defs); d['KF_EXCL_' + tag] = 1
        out.append(Query(name, harness, entry, d, **kw))
        if kf_twin:
            d = dict(defs); d['KF_ONLY_' + tag] = 1
            out.append(Query(name + '/kf', harness, entry, d, **kw))
    else:
        out.append(Query(name, harness, entry, defs, kf_excl=(kf,), **kw))
        if kf_twin: out.append(Query(name + '/kf', harness, entry, defs, kf_only=kf, **kw))

CSZ = {'char': 1, 'char16_t': 2, 'char32_t': 4}
CFG = {'scalar': (), 'sse2': ('-DQENTEM_SSE2=1', '-msse2'), 'avx2': ('-DQENTEM_AVX2=1', '-mavx2')}

def mem_queries(tier):
    qs = []
    lens = [0, 1, 15, 16, 17, 31, 32, 33, 47, 64, 65, 80] if tier == 'quick' else list(range(0, 81))
    for cfg, fl in CFG.items():
        for e in ('h_copy', 'h_zero'):
            for n in lens:
                sh = {'scalar': 0, 'sse2': 4, 'avx2': 5}[cfg]
                it = max(n >> sh, (n & ((1 << sh) - 1)) if sh else n)      # vector blocks, then byte tail
                b = {'Copy|SetToZero': it + 1, 'vf_buf.*': n + 3}
                Q(qs, 'mem/%s/%s/L%d' % (e[2:], cfg, n), 'C14_memory.cpp', e, {'LEN': n, 'PRE': 1, 'POST': 1, 'SPRE': 1},
                  bounds=b, cflags=fl, timeout=120, mem_gb=8)
        # forward-overlapping copy inside one block (destination below the source by SHIFT bytes)
        for n in ([17, 33, 70] if tier == 'quick' else [1, 15, 16, 17, 31, 32, 33, 47, 48, 64, 65, 70, 80]):
            for shift in ((1, 16) if tier == 'quick' else (1, 3, 16, 31, 32)):
                sh = {'scalar': 0, 'sse2': 4, 'avx2': 5}[cfg]
                it = max(n >> sh, (n & ((1 << sh) - 1)) if sh else n)
                Q(qs, 'mem/copy_fwd/%s/L%d/s%d' % (cfg, n, shift), 'C14_memory.cpp', 'h_copy_fwd', {'LEN': n, 'SHIFT': shift},
                  bounds={'Copy': it + 1, 'vf_buf.*': n + shift + 1}, cflags=fl, timeout=120, mem_gb=8)
    return qs

AOPS = {'copy_ctor': 1, 'move_ctor': 2, 'copy_assign': 3, 'move_assign': 4, 'append_copy': 5, 'append_move': 6, 'item_copy': 7,
        'item_move': 8, 'insert_copy': 9, 'insert_move': 10, 'clear': 11, 'reset': 12, 'detach': 13, 'reserve': 14, 'resize': 15,
        'resize_init': 16, 'expect': 17, 'compress': 18, 'drop': 19, 'ctor_size': 20, 'swap': 21, 'insert_arr_copy': 22,
        'insert_arr_move': 23}
A_KF = {'append_copy': 'C14-array-append-copy', 'insert_arr_copy': 'C14-array-append-copy',
        'item_copy': 'C14-array-append-own-item', 'insert_copy': 'C14-array-append-own-item'}
A_TWO = ('copy_assign', 'move_assign', 'append_copy', 'append_move', 'insert_arr_copy', 'insert_arr_move')   # use the second array
A_NARG = ('reserve', 'resize', 'resize_init', 'expect', 'ctor_size')

def arr_queries(tier):
    qs = []
    quick = tier == 'quick'
    caps = (0, 1, 2, 4) if quick else (0, 1, 2, 3, 4)
    nargs = (0, 1, 3) if quick else (0, 1, 2, 3, 5)
    for elem, en in ((0, 'int'), (1, 'tracked')):
        esz = 8 if elem else 4
        for op, code in AOPS.items():
            for cap in caps:
                if op == 'swap' and cap == 0: continue              # needs an element
                if op == 'ctor_size' and cap != 0: continue         # no pre-state involved
                for bcap in ((2,) if quick or op not in A_TWO else (0, 1, 2, 4)):
                    for narg in (nargs if op in A_NARG else (None,)):
                        for init in ((0, 1) if op in ('reserve', 'ctor_size') else (None,)):
                            d = {'ELEM': elem, 'CAP': cap, 'OP': code, 'BCAP': bcap}
                            name = 'array/%s/%s/cap%d' % (en, op, cap)
                            if op in A_TWO and not quick: name += '/b%d' % bcap
                            if narg is not None: d['NARG'] = narg; name += '/n%d' % narg
                            if init is not None: d['INIT'] = init; name += '/i%d' % init
                            big = max(cap + (bcap if op in A_TWO else 0), narg or 0)
                            b = {'Copy': max(cap, bcap if op in A_TWO else 1) * esz + 1, '.*': big + 2}
                            kf = A_KF.get(op)
                            twin = kf is not None and cap >= 1 and (not quick or cap == 2)
                            Q(qs, name, 'C14_array.cpp', 'h_array', d, kf=kf, kf_twin=twin, bounds=b, timeout=300, mem_gb=8)
    return qs

SOPS = {'copy_ctor': 1, 'move_ctor': 2, 'ctor_len': 3, 'ctor_adopt': 4, 'ctor_ptr_len': 5, 'ctor_cstr': 6, 'copy_assign': 7, 'move_assign': 8,
        'assign_cstr': 9, 'append_copy': 10, 'append_move': 11, 'append_cstr': 12, 'append_char': 13, 'plus_copy': 14, 'plus_move': 15,
        'plus_cstr': 16, 'shift_cstr': 17, 'shift_string': 18, 'cmp_string': 19, 'eq_cstr': 20, 'cmp_cstr': 21, 'isequal': 22, 'reset': 23,
        'detach': 24, 'merge': 25, 'write': 26, 'trim': 27, 'stepback': 28, 'reverse': 29, 'insertat': 30, 'write_alias': 31,
        'append_cstr_alias': 32}
S_KF = {'eq_cstr': 'C14-string-eq-null', 'stepback': 'C14-string-stepback-null', 'assign_cstr': 'C14-string-assign-own-cstr'}
S_NOPRE = ('ctor_len', 'ctor_adopt', 'ctor_ptr_len', 'ctor_cstr')      # the pre-state plays no role
S_BSTR = ('copy_assign', 'move_assign', 'append_copy', 'append_move', 'plus_copy', 'plus_move', 'shift_string', 'cmp_string', 'merge')
S_BLEN = S_BSTR + ('ctor_cstr', 'assign_cstr', 'append_cstr', 'plus_cstr', 'shift_cstr', 'eq_cstr', 'cmp_cstr', 'isequal', 'write')

def str_queries(tier):
    qs = []
    quick = tier == 'quick'
    for ch in ('char', 'char16_t', 'char32_t'):
        csz = CSZ[ch]
        if quick: states = ((0, 0), (1, 0), (1, 2)) if ch == 'char' else ((0, 0), (1, 2))
        else: states = ((0, 0), (1, 0), (1, 1), (1, 2), (1, 3), (1, 4))
        for op, code in SOPS.items():
            for kind, ln in states:
                if kind == 0 and op.endswith('_alias'): continue
                if op in S_NOPRE and (kind, ln) != (0, 0): continue
                blens = (2,) if quick or op not in S_BLEN else (0, 1, 2, 3)
                nargs = (None,)
                if op in ('ctor_len', 'ctor_adopt', 'ctor_ptr_len'): nargs = (0, 2) if quick else (0, 1, 2, 3)
                if op == 'write_alias': nargs = (min(ln, 1),) if quick else tuple(range(0, min(ln, 2) + 1))
                for blen in blens:
                    for bkind in ((1,) if quick or op not in S_BSTR else (0, 1)):
                        if bkind == 0 and blen != blens[0]: continue
                        for narg in nargs:
                            d = {'CHAR': ch, 'KIND': kind, 'LEN': ln, 'OP': code, 'BLEN': blen, 'BKIND': bkind}
                            name = 'string/%s/%s/k%dl%d' % (ch, op, kind, ln)
                            if not quick and op in S_BLEN: name += '/b%d%d' % (bkind, blen)
                            if narg is not None: d['NARG'] = narg; name += '/n%d' % narg
                            most = max(ln, blen, narg or 0)
                            b = {'Copy': most * csz + 1, '.*': ln + blen + (narg or 0) + 2}
                            kf = S_KF.get(op)
                            twin = kf is not None and not (op == 'stepback' and kind != 0) and not (op == 'assign_cstr' and kind == 0)
                            if quick and ch != 'char': twin = False
                            Q(qs, name, 'C14_string.cpp', 'h_string', d, kf=kf, kf_twin=twin, bounds=b, timeout=300, mem_gb=8)
    return qs

TOPS = {'copy_ctor': 1, 'move_ctor': 2, 'ctor_size': 3, 'copy_assign': 4, 'move_assign': 5, 'assign_cstr': 6, 'assign_string': 7, 'assign_view': 8,
        'append_char': 9, 'append_stream': 10, 'append_string': 11, 'append_view': 12, 'append_cstr': 13, 'shift_stream': 14,
        'shift_string': 15, 'shift_view': 16, 'shift_char': 17, 'shift_cstr': 18, 'eq_stream': 19, 'eq_string': 20, 'eq_view': 21,
        'eq_cstr': 22, 'isequal': 23, 'write': 24, 'clear': 25, 'reset': 26, 'stepback': 27, 'reverse': 28, 'insertat': 29,
        'setlength': 30, 'buffer': 31, 'expect': 32, 'reserve': 33, 'detach': 34, 'getstring': 35, 'getstringview': 36, 'insertnull': 37}
T_KF = ('append_stream', 'shift_stream', 'append_view', 'shift_view', 'write')
T_TWO = ('copy_assign', 'move_assign', 'append_stream', 'shift_stream', 'eq_stream')
T_BLEN = ('assign_cstr', 'assign_string', 'assign_view', 'append_string', 'append_view', 'append_cstr', 'shift_string', 'shift_view', 'shift_cstr',
          'eq_string', 'eq_view', 'eq_cstr', 'isequal', 'write')
T_NARG = ('ctor_size', 'setlength', 'buffer', 'expect', 'reserve')

def stream_queries(tier):
    qs = []
    quick = tier == 'quick'
    nargs = (0, 1, 3) if quick else (0, 1, 2, 3, 5)
    for ch in ('char', 'char16_t', 'char32_t'):
        csz = CSZ[ch]
        if quick: caps = (0, 1, 2, 4) if ch == 'char' else (0, 2)
        else: caps = (0, 1, 2, 4, 8)
        for op, code in TOPS.items():
            if op == 'append_view' and ch != 'char': continue       # operator+=(const StringView<char>&) exists for char streams only
            for cap in caps:
                if op == 'ctor_size' and cap != 0: continue
                for bcap in ((2,) if quick or op not in T_TWO else (0, 1, 2, 4)):
                    for blen in ((2,) if quick or op not in T_BLEN else (0, 1, 2, 3)):
                        for narg in (nargs if op in T_NARG else (None,)):
                            d = {'CHAR': ch, 'CAP': cap, 'OP': code, 'BCAP': bcap, 'BLEN': blen, 'APPEND_VIEW_OK': 1 if ch == 'char' else 0}
                            name = 'stream/%s/%s/cap%d' % (ch, op, cap)
                            if not quick and op in T_TWO: name += '/b%d' % bcap
                            if not quick and op in T_BLEN: name += '/l%d' % blen
                            if narg is not None: d['NARG'] = narg; name += '/n%d' % narg
                            most = max(cap, bcap if op in T_TWO else 0, blen if op in T_BLEN else 0)
                            b = {'Copy': max(most, 1) * csz + 1, '.*': most + (narg or 0) + 3}
                            kf = 'C14-stream-self-append' if op in T_KF else None
                            twin = kf is not None and cap >= 1 and (not quick or (ch == 'char' and cap == 2))
                            Q(qs, name, 'C14_stream.cpp', 'h_stream', d, kf=kf, kf_twin=twin, bounds=b, timeout=300, mem_gb=8)
    return qs

VOPS = {'copy_ctor': 1, 'move_ctor': 2, 'ctor_cstr': 3, 'copy_assign': 4, 'move_assign': 5, 'assign_cstr': 6, 'cmp_view': 7, 'cmp_cstr': 8,
        'isequal': 9, 'reset': 10}

def view_queries(tier):
    qs = []
    quick = tier == 'quick'
    for ch in ('char', 'char16_t', 'char32_t'):
        states = ((0, 0), (1, 0), (1, 2)) if quick else ((0, 0), (1, 0), (1, 1), (1, 2), (1, 3), (1, 4))
        for op, code in VOPS.items():
            for kind, ln in states:
                if op == 'ctor_cstr' and (kind, ln) != (0, 0): continue
                for blen in ((2,) if quick else (0, 1, 2, 3)):
                    d = {'CHAR': ch, 'KIND': kind, 'LEN': ln, 'OP': code, 'BLEN': blen}
                    name = 'view/%s/%s/k%dl%d' % (ch, op, kind, ln) + ('' if quick else '/b%d' % blen)
                    # cadical: MiniSat (the 'sat' default) hangs on view/char16_t/copy_assign/k1l2 although the instance is tiny
                    Q(qs, name, 'C14_view.cpp', 'h_view', d, bounds={'.*': max(ln, blen) + 2}, backend='cadical', timeout=120, mem_gb=8)
    return qs

def queries(tier):
    qs = mem_queries(tier) + arr_queries(tier) + str_queries(tier) + stream_queries(tier) + view_queries(tier)
    if tier != 'quick':
        return qs
    # quick tier: the per-change check.  One representative per (container, element/char type, operation) group
    # (the variant with the largest size parameters) plus every 12th of the remaining variants; deterministic.
    import zlib
    groups = {}
    for q in qs:
        groups.setdefault(q.name.rsplit('/', 1)[0] if not q.name.endswith('/kf') else q.name, []).append(q)
    keep = []
    for g, members in groups.items():
        members.sort(key=lambda q: q.name)
        keep.append(members[-1])
        mid = members[len(members) // 2] if (len(members) >= 3 and 'char16_t' not in g and 'char32_t' not in g) else None     # a middle variant too (small sizes hit growth boundaries)
        if mid is not None and mid is not members[-1]: keep.append(mid)
        for q in members[:-1]:
            if q is not mid and zlib.crc32(q.name.encode()) % 16 == 0: keep.append(q)
    return keep

from engine import Query
META = {
 'functions': ['Value<char>::GroupBy (Value.hpp:1849-1912) on the real Value / HArray<String,Value> / Array<Value>, with operator[], operator+=, GetValue, GetKey, SetCharAndLength, CopyValueTo'],
 'bounds': 'arrays of 2 (quick) / 3 (thorough) objects built through the public API, each with the grouping key and one other member in every order (m2 queries: the first object has a further member the others lack; m3 queries: the last object lacks the grouping key and GroupBy must fail) (member order concrete per query, all 2^n combinations), '
           'grouping-key values from a concrete pattern per query covering every set partition of the objects into groups, as one-unit strings, booleans and null/string mixes; other members symbolic 64-bit numbers (the solver decides over those). A symbolic key text makes the hash-table shape symbolic and gives no verdict in 300 s',
 'outside': 'numeric grouping-key values (group name through NumberToString: no verdict in 400 s), more than 3 input objects, more than 3 members per object, nested member values, objects with removed members, the <loop group=...> attribute (template renderer)',
 'assumptions': ['Digit::stringToNumber is replaced by a stub that asserts it is never reached (no string->number coercion is part of grouping); likewise Digit::realToString (no real-number formatting)'],
}
def queries(tier):
    qs = []
    n_list = (2,) if tier == 'quick' else (2, 3)
    B = {'Dispose': 5, 'Copy': 12, 'Hash': 3, 'IsEqual': 6, 'find': 4, 'resize|generateHash|expand': 6, 'vf_mem.*': 120, 'Count': 3, 'SetToZero': 20,
         'h_group|same_text|key_text': 8, 'GroupBy': 4, 'copyTable|copyArray|operator=.*|operator\\+=': 4, 'IntToString|NumberToString': 4, 'Write|write': 8}
    for n in n_list:
        pats = [0, 3] if n == 2 else [0, 3, 9, 12, 21]      # set partitions of the objects into groups (group id of object i = base-3 digit i)
        for ordm in range(1 << n):
            for pat in pats:
                for kind in (0, 1, 2):
                    if kind == 1 and pat == 21: continue     # booleans have two distinct values only
                    if tier == 'quick' and kind in (1, 2) and ordm not in (0, 2): continue
                    first_has_key_first = (ordm & 1) == 0
                    differs = any(((ordm >> i) & 1) != (ordm & 1) for i in range(n))
                    for mk in (0, 1, 2, 3):
                      if mk in (2, 3) and n != 2: continue
                      if mk == 3 and (kind != 0 or pat != 0 or (tier == 'quick' and ordm not in (0, 3))): continue
                      if mk == 1 and kind != 0 and tier == 'quick': continue
                      if mk == 2 and (kind != 0 or (tier == 'quick' and ordm not in (0, 1))): continue
                      qs.append(Query('group/n%d/ord%d/pat%d/kind%d/m%d' % (n, ordm, pat, kind, mk), 'C18_groupby.cpp', 'h_group', {'NOBJ': n, 'ORD': ordm, 'PAT': pat, 'KIND': kind, 'MKIND': mk},
                                    bounds=B, default_unwind=4, default_rec=3, rec_bounds={'~Value|copyValue': 4}, timeout=400, mem_gb=12,
                                    stubs={'_ZN6Qentem5Digit14stringToNumberIcEENS_11QNumberTypeERNS_9QNumber64EPKT_Rjj': 'stub_no_strtonum',
                                           '_ZN6Qentem5Digit12realToStringIdNS_12StringStreamIcEEyEEvRT0_T1_NS0_14RealFormatInfoE': 'stub_no_real'}, stubs_optional=True))
    return qs

from engine import Query
META = {
 'functions': ['Value<char>::GroupBy (Value.hpp:1849-1912) on the real Value / HArray<String,Value> / Array<Value>, with operator[], operator+=, GetValue, GetKey, SetCharAndLength, CopyValueTo'],
 'bounds': 'arrays of 2 (quick) / 3 (thorough) objects built through the public API, each with the grouping key and one other member in every order (member order concrete per query, all 2^n combinations), '
           'grouping-key values symbolic: one-unit strings over all code units, booleans, null/string mixes, one-digit numbers; other members symbolic 64-bit numbers',
 'outside': 'more than 3 input objects, more than 2 members per object, nested member values, objects with removed members, the <loop group=...> attribute (template renderer)',
 'assumptions': [],
}
def queries(tier):
    qs = []
    n_list = (2,) if tier == 'quick' else (2, 3)
    for n in n_list:
        for ordm in range(1 << n):
            for kind in (0, 1, 2, 3):
                if tier == 'quick' and kind in (2,) and ordm not in (0, 1): continue
                b = {'Dispose': n + 2, 'Copy': 12, 'Hash': 3, 'IsEqual': 6, 'find': 4, 'resize|generateHash|expand': 6, 'vf_mem.*': 120, 'Count': 3, 'SetToZero': 20,
                     'h_group|same_text|key_text': 8, 'GroupBy': 4, 'copyTable|copyArray|operator=.*|operator\\+=': 4, 'IntToString|NumberToString': 4, 'Write|write': 8}
                qs.append(Query('group/n%d/ord%d/kind%d' % (n, ordm, kind), 'C18_groupby.cpp', 'h_group', {'NOBJ': n, 'ORD': ordm, 'KIND': kind}, bounds=b, default_unwind=4,
                                default_rec=2, rec_bounds={'~Value|copyValue': 3}, timeout=900, mem_gb=12, kf_excl=['C18-key-position']))
    # the finding restricted to its predicate (key not at the position found in the first object)
    qs.append(Query('group/kf/key-position', 'C18_groupby.cpp', 'h_group', {'NOBJ': 2, 'ORD': 2, 'KIND': 0}, bounds={'Dispose': 4, 'Copy': 12, 'Hash': 3, 'IsEqual': 6, 'find': 4, 'resize|generateHash|expand': 6, 'vf_mem.*': 120, 'Count': 3, 'SetToZero': 20,
                     'h_group|same_text|key_text': 8, 'GroupBy': 4, 'copyTable|copyArray|operator=.*|operator\\+=': 4, 'Write|write': 8}, default_unwind=4, default_rec=2, rec_bounds={'~Value|copyValue': 3}, timeout=900, kf_only='C18-key-position'))
    return qs

# TEMPORARY test wrapper for C08_escape_part.py (ids not yet in known_findings.json): defines passed by hand
import os, importlib.util
sp = importlib.util.spec_from_file_location('c08part', os.path.join(os.path.dirname(os.path.abspath(__file__)), 'C08_escape_part.py'))
m = importlib.util.module_from_spec(sp); sp.loader.exec_module(m)
META = m.META
def queries(tier):
    qs = m.queries(tier)
    mode = os.environ.get('C08E_KF', 'open')     # open: finding listed as open; absent: not listed / fixed
    for q in qs:
        if mode == 'open':
            if q.kf_only: q.defs['KF_ONLY_' + q.kf_only.replace('-', '_')] = 1; q.kf_only = None
            for k in q.kf_excl: q.defs['KF_EXCL_' + k.replace('-', '_')] = 1
        q.kf_excl = ()
    return [q for q in qs if not q.kf_only]

from engine import Query
# C11 is NOT claimed.  Measured on this tree (16 cores, cbmc 6.11.0):
#  * probe below (C11_roundtrip.cpp, double = m * 2^-2 with a 4-bit symbolic m, i.e. 15 values x sign, both real pipelines,
#    per-loop bounds): no verdict in 600 s (sat);
#  * the format side needs Digit::IntToString on a symbolic 64-bit word with up to 17-19 digits: undecided beyond 7 digits
#    (C10 META 'outside'); the parse side needs a Horner sum over 17 symbolic digits: undecided (C09 META 'outside').
# Any 17-significant-digit window contains both, so no non-vacuous window is reachable; the property goes to not_applicable.
META = {
 'functions': [],
 'bounds': 'none (not claimed)',
 'outside': 'everything: see the measured reasons at the top of specs/C11.py',
 'assumptions': [],
}
PROBE = [('roundtrip/e-2/m4', {'EXP2': -2, 'MBITS': 4})]
def probe_queries():
    b = {'BigInt|Multiply|Divide|Add|Subtract|ShiftLeft|ShiftRight|Clear|copy|doOperation|operator.*': 21, 'IntToString': 11, 'Write': 20, 'Reverse': 21,
         'InsertAt': 40, 'stringToNumber|parseExponent': 41, 'realToString|bigIntToString|bigIntDropDigits|insertZerosLarge': 4,
         'formatStringNumberDefault|roundStringNumber': 25, 'powerOfNegativeTen|powerOfPositiveTen': 3}
    return [Query(n, 'C11_roundtrip.cpp', 'h_roundtrip', d, bounds=b, timeout=900, mem_gb=8) for n, d in PROBE]
def queries(tier):
    import os
    return probe_queries() if os.environ.get('C11_PROBE') else []

from engine import Query
META = {
 'functions': ['StringUtils::IsLess/IsGreater/IsEqual (StringUtils.hpp)', 'StringView operators (StringView.hpp)'],
 'bounds': 'strings of length <= N code units (N=4 quick, 5 thorough), all code-unit values, char/char16_t/char32_t',
 'outside': 'strings longer than N',
 'assumptions': [],
}
def queries(tier):
    N = 4 if tier == 'quick' else 5
    qs = []
    for ch in ('char', 'char16_t', 'char32_t'):
        b = {'IsLess|IsGreater|IsEqual|ref_cmp|vf_buf.*': N + 1}
        for e in ('h_order', 'h_transitive', 'h_view_ops'):
            qs.append(Query('strings/%s/%s/N%d' % (e, ch, N), 'C15_strings.cpp', e, {'N': N, 'CHAR': ch}, bounds=b, timeout=300))
    return qs

from engine import Query
META = {
 'functions': ['StringUtils::IsLess/IsGreater/IsEqual (StringUtils.hpp)', 'StringView operators, both overloads (StringView.hpp)', 'String operators ==, !=, <, <=, >, >= for String and for NUL-terminated right operands, String::IsEqual (String.hpp:162-224)'],
 'bounds': 'strings of length <= N code units (N=4 quick, 5 thorough), all code-unit values, char/char16_t/char32_t',
 'outside': 'strings longer than N',
 'assumptions': [],
}
def queries(tier):
    N = 4 if tier == 'quick' else 5
    qs = []
    for ch in ('char', 'char16_t', 'char32_t'):
        b = {'IsLess|IsGreater|IsEqual|ref_cmp|vf_buf.*': N + 1}
        for e in ('h_order', 'h_transitive', 'h_view_ops'):
            qs.append(Query('strings/%s/%s/N%d' % (e, ch, N), 'C15_strings.cpp', e, {'N': N, 'CHAR': ch}, bounds=b, timeout=300))
        b2 = dict(b); b2.update({'Count': N + 2, 'make_cstr': N + 2, 'operator==': N + 2, 'Copy|vf_mem.*': 4 * (N + 1) + 1, 'h_string_ops|h_view_cstr': N + 2})
        for e in ('h_view_cstr', 'h_string_ops'):
            qs.append(Query('strings/%s/%s/N%d' % (e, ch, N), 'C15_strings.cpp', e, {'N': N, 'CHAR': ch}, bounds=b2, default_unwind=N + 2, timeout=300))
    return qs

# ---- merged parts: sorting (C13 round) and Value comparisons (C12 round) ----
import importlib.util as _ilu, os as _os
def _load(n):
    p = _os.path.join(_os.path.dirname(_os.path.abspath(__file__)), n + '.py')
    if not _os.path.exists(p): return None
    sp = _ilu.spec_from_file_location('spec_' + n, p); m = _ilu.module_from_spec(sp); sp.loader.exec_module(m); return m
_parts = [m for m in (_load('C15_sort_part'), (_load('C15_value_part') if _os.path.exists(_os.path.join(_os.path.dirname(_os.path.abspath(__file__)), '.value_parts_ready')) else None)) if m is not None]
_strings_queries = queries
for _p in _parts:
    META['functions'] = META['functions'] + _p.META.get('functions', [])
    META['bounds'] += ' || ' + _p.META.get('bounds', '')
    META['outside'] += ' || ' + _p.META.get('outside', '')
    META['assumptions'] = META['assumptions'] + _p.META.get('assumptions', [])
def queries(tier):
    qs = _strings_queries(tier)
    for p in _parts: qs += p.queries(tier)
    return qs

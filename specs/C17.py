import importlib.util, os, copy
def _load(n):
    sp = importlib.util.spec_from_file_location('spec_' + n, os.path.join(os.path.dirname(os.path.abspath(__file__)), n + '.py')); m = importlib.util.module_from_spec(sp); sp.loader.exec_module(m); return m
_c02 = _load('C02')
META = dict(_c02.META)
META['bounds'] = ('purity of rendering, decided on the C02 template family (concrete templates x concrete tree shapes, symbolic leaf strings): after Parse into a tag cache and a first render, a SECOND render of the '
                  'same template through the SAME cache into a fresh stream yields the identical text unit for unit (arbitrary index), the value tree still holds the same leaves, the template buffer is unchanged '
                  '(arbitrary index) and the pre-existing stream unit is preserved (the stream is only appended to). ' + _c02.META['bounds'])
META['outside'] = ('concurrent renders / thread interleavings: NOT explored and not claimed (CBMC threads over the heap-carrying renderer are out of reach); what the queries give is the sequential part of the argument '
                   '(no observable mutation of value, template or cache between two renders); renders with DIFFERENT values through one cache; sort/group working copies. ' + _c02.META['outside'])
def queries(tier):
    qs = []
    for q in _c02.queries(tier):
        if not q.name.startswith('render/'): continue
        q2 = copy.copy(q); q2.name = 'pure/' + q.name[len('render/'):]
        qs.append(q2)
    if tier == 'quick':
        keep = ('var_raw', 'loop_array', 'loop_set', 'index_path', 'if_else', 'math', 'inline_if', 'svar', 'loop_key', 'loop_if', 'loop_sort', 'loop_elseif')
        qs = [q for q in qs if q.name.split('/')[1] in keep]
    return qs

import importlib.util, os
sp = importlib.util.spec_from_file_location('c05', os.path.join(os.path.dirname(__file__), 'C05.py')); m = importlib.util.module_from_spec(sp); sp.loader.exec_module(m)
META = m.META
def queries(tier): return m.mono(tier)

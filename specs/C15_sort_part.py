from engine import Query
import os, importlib.util
_sp = importlib.util.spec_from_file_location('spec_C13_for_sort', os.path.join(os.path.dirname(os.path.abspath(__file__)), 'C13.py'))
_c13 = importlib.util.module_from_spec(_sp); _sp.loader.exec_module(_c13)

META = {
 'functions': ['Memory::Sort<true|false> (Memory.hpp:116-147) incl. Memory::Swap', 'Array<int>::Sort (Array.hpp:271-277)',
               'HashTable::Sort + generateHash (HashTable.hpp:300-311, 543-564) via the C13 table harness',
               'StringUtils::IsLess/IsGreater as used by the key relation'],
 'bounds': 'arrays of n elements, n concrete per query, ascending and descending. int: n <= 4 with all 2^32 element values (sorted sub-range '
           '[1,n+1) of an n+2 array, guards untouched); thorough adds n = 5 as two queries: ordered (all values) and permutation (values in [-3,3]). '
           'Key2 (0..2 char units, all unit values): n <= 3, thorough n = 4. Array<int>::Sort n = 3 (thorough 4). Hash array: HArray<Key2,int> '
           'with 2 storage slots in use (thorough: 1..3), tombstone included, built through the public API, then every C13 observer '
           '(lookup by key, by index, key<->index agreement, iteration order = strict key order)',
 'outside': 'int arrays of 6 and more elements; permutation for n = 5 with arbitrary 32-bit values (no verdict in 900 s); Key2 arrays above 4; '
            'hash arrays with 4 and more slots in use (CBMC out of memory / no verdict); element types other than int / Key2 / the hash item; '
            'keys longer than 2 units; stability (Sort is not stable and does not claim to be)',
 'assumptions': ['Key2 stand-in (q2c/standins/key2.hpp) for String keys: same comparison functions (StringUtils::IsLess/IsGreater/IsEqual)',
                 'hash-array queries: see C13 (Memory::Allocate<char> routed through a size-enumerating wrapper on the CBMC side)'],
}

def sq(entry, n, asc, prop=3, rng=0, timeout=300, backend='sat'):
    b = {'IsLess|IsGreater|IsEqual|ref_cmp': 3, 'Sort': n + 1, 'vf_buf.*': n + 3, 'h_.*': n + 3}
    name = 'sort/%s/n%d/%s' % (entry[2:], n, 'asc' if asc else 'desc')
    if prop != 3: name += '/' + ('ordered' if prop == 1 else 'permutation')
    if rng: name += '/range%d' % rng
    return Query(name, 'C15_sort.cpp', entry, {'N': n, 'ASC': asc, 'PROP': prop, 'RANGE': rng}, bounds=b, backend=backend,
                 default_unwind=n + 1, rec_bounds={'Sort': n + 1}, default_rec=n + 1, timeout=timeout, mem_gb=8)

def queries(tier):
    qs = []
    for asc in (1, 0):
        for n in (1, 2, 3, 4): qs.append(sq('h_sort_int', n, asc))
        for n in (2, 3): qs.append(sq('h_sort_key', n, asc))
        qs.append(sq('h_array_sort', 3, asc))
        if tier != 'quick':
            # n = 5: one property per query; the permutation half only decides with the element values confined to [-3,3]
            # (7 values for 5 elements: every order type with every tie pattern; Sort only compares)
            qs.append(sq('h_sort_int', 5, asc, prop=1, timeout=900))
            qs.append(sq('h_sort_int', 5, asc, prop=2, rng=3, timeout=900))
            qs.append(sq('h_sort_key', 4, asc, prop=1, timeout=900))
            qs.append(sq('h_sort_key', 4, asc, prop=2, timeout=900))
            qs.append(sq('h_array_sort', 4, asc, timeout=600))
    qs += _c13.sort_queries(tier)
    return qs

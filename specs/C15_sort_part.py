from engine import Query
import os, importlib.util
_sp = importlib.util.spec_from_file_location('spec_C13_for_sort', os.path.join(os.path.dirname(os.path.abspath(__file__)), 'C13.py'))
_c13 = importlib.util.module_from_spec(_sp); _sp.loader.exec_module(_c13)

META = {
 'functions': ['Memory::Sort<true|false> (Memory.hpp:116-147) incl. Memory::Swap', 'Array<int>::Sort (Array.hpp:271-277)',
               'HashTable::Sort + generateHash (HashTable.hpp:300-311, 543-564) via the C13 table harness',
               'StringUtils::IsLess/IsGreater as used by the key relation'],
 'bounds': 'arrays of n elements, n concrete per query: int n <= 4 (quick) / 6 (thorough), Key2 (0..2 char units, all values) n <= 4 / 5; '
           'all element values symbolic; ascending and descending; sub-range [1,n+1) of an n+2 array for int (guards untouched); '
           'hash array: the table shapes of C13 (<= 3 quick / 4 thorough slots, tombstones included), then every C13 observer',
 'outside': 'n above the stated bounds; element types other than int / Key2 / the hash item; keys longer than 2 units',
 'assumptions': ['Key2 stand-in (q2c/standins/key2.hpp) for String keys: same comparison functions (StringUtils::IsLess/IsGreater/IsEqual)',
                 'hash-array queries: see C13 (Memory::Allocate<char> routed through a size-enumerating wrapper on the CBMC side)'],
}

def sq(entry, n, asc, prop=3, rng=0, timeout=300, backend='sat'):
    b = {'IsLess|IsGreater|IsEqual|ref_cmp': 3, 'Sort': n + 1, 'vf_buf.*': n + 3, 'h_.*': n + 3}
    name = 'sort/%s/n%d/%s' % (entry[2:], n, 'asc' if asc else 'desc')
    if prop != 3: name += '/' + ('ordered' if prop == 1 else 'permutation')
    if rng: name += '/range%d' % rng
    return Query(name, 'C15_sort.cpp', entry, {'N': n, 'ASC': asc, 'PROP': prop, 'RANGE': rng}, bounds=b, backend=backend,
                 default_unwind=n + 1, rec_bounds={'Sort': n + 1}, default_rec=n + 1, timeout=timeout, mem_gb=8)

def queries(tier):
    qs = []
    ni = (1, 2, 3, 4) if tier == 'quick' else (1, 2, 3, 4, 5, 6)
    nk = (2, 3, 4) if tier == 'quick' else (2, 3, 4, 5)
    for asc in (1, 0):
        for n in ni: qs.append(sq('h_sort_int', n, asc))
        for n in nk: qs.append(sq('h_sort_key', n, asc))
        for n in ((3,) if tier == 'quick' else (3, 5)): qs.append(sq('h_array_sort', n, asc))
    for pr in (1, 2):
        for rg in (0, 3): qs.append(sq('h_sort_int', 5, 1, pr, rg))
    qs += _c13.sort_queries(tier)
    return qs
